// golean.go — a small Go→Lean translator (shallow embedding) for the first-order, loop-and-bytes
// subset of Go that the pure helpers of whoisnian/glb are written in.
//
// Every translated function becomes a Lean `def` in the monad `Glb.Go.M = Except GoPanic`, printed as
// a `do` block that follows the Go statements one to one; every `for` becomes a call of `Glb.Go.loop`
// (see lean/Glb/Go/Prelude.lean). The translator REFUSES (exit 3 = the tie is broken) whatever it
// does not understand: it never guesses. Types are not inferred here: the output is elaborated by
// Lean, which rejects an ill-typed reading.
//
// What is trusted: this file's reading of Go syntax (statement order, short-circuit evaluation,
// bounds checks, value semantics of the byte strings it handles) and Prelude.lean.
package main

import (
	"fmt"
	"go/ast"
	"go/parser"
	"go/token"
	"math/big"
	"os"
	"path/filepath"
	"sort"
	"strconv"
	"strings"
)

// ---------------------------------------------------------------------------------------------
// configuration of one translation unit

type glFunc struct {
	File string // path relative to the repository
	Recv string
	Name string
	Lean string            // Lean name of the definition (default: Name)
	Fuel map[int]string    // loop ordinal (0-based, source order) -> Lean Nat term, when the shape heuristic does not apply
	Ret  string            // Lean result type (inside M)
	Args string            // Lean binder list, e.g. "(s : Bytes) (upper : Bool)"
	Ptr  map[string]bool   // parameters of type *[]byte: threaded through and returned
	Env  map[string]string // Go identifier / selector text -> Lean term (package constants, fields)
	// Tuples: source text of a call whose results come from outside the modelled code
	// (e.g. "t.Date()") -> Lean terms of its results, which are parameters of the translated function
	Tuples map[string][]string
	// Skip: statements (by the prefix of their source text) that only fetch such outside values
	Skip []string
	// Fields: struct field name -> Lean accessor, for `x.f` where x is a local of a modelled struct type
	Fields map[string]string
	// MapFields / MapVars: Go maps read by the function. "ptr": values are pointers (a lookup yields an
	// Option, nil = none); "zero": a missing key yields the empty string
	MapFields map[string]string
	MapVars   map[string]string
	// Thread: extra variables (fields reached through a pointer parameter, mapped by Env and marked in
	// Ptr) that are threaded through like pointer parameters: declared in Args, returned first
	Thread []string
	// Rewrite: a statement (exact source text) about state outside the translated subset, rendered by
	// the given Lean do-line(s) instead (e.g. an atomic store into a threaded variable)
	Rewrite map[string]string
	// U32BV: Go uint32 values are Lean `BitVec 32` (the model's address type) instead of `UInt32`
	U32BV bool
	// Libs: additional library calls for this function (callee text or "method:Name")
	Libs map[string]glLib
	// Rec: the function calls itself. It gets a leading fuel parameter (`0` = the error `.other "fuel"`),
	// every self-call passes the remaining fuel; the tie theorem shows which fuel suffices.
	Rec bool
	// Extra: Lean arguments that are not Go parameters (e.g. the record `P` of library functions); a
	// translated caller passes the terms of the same names
	Extra string
	// Iter: iterator methods taking a callback (`r.Attrs(func(a slog.Attr) bool {…})`) -> the Lean list iterated over
	Iter map[string]string
	// RewritePrefix: like Rewrite, for a multi-line statement identified by the beginning of its text
	// (e.g. the `switch v.Kind() {` that renders a leaf through the standard library = a model payload)
	RewritePrefix map[string]string
}

type glUnit struct {
	Module  string // Lean module name under Glb/Generated, e.g. "TrStrutil"
	NS      string // Lean namespace, e.g. "Glb.Tr.Strutil"
	Imports []string
	Funcs   []glFunc
}

// library calls: Go callee text -> (Lean function, pure?)
type glLib struct {
	lean string
	pure bool
	nres int
}

var glLibs = map[string]glLib{
	"strings.HasPrefix":         {"Glb.Go.Lib.hasPrefix", true, 1},
	"strings.IndexByte":         {"Glb.Go.Lib.indexByte", true, 1},
	"strings.Repeat":            {"Glb.Go.Lib.repeatBytes", false, 1},
	"utf8.DecodeRuneInString":   {"Glb.Go.LibUtf8.decodeRuneInString", true, 2},
	"path.Clean":                {"Glb.Go.LibPath.clean", true, 1},
	"filepath.Clean":            {"Glb.Go.LibPath.clean", true, 1},
	"filepath.FromSlash":        {"Glb.Go.LibPath.fromSlash", true, 1},
	"filepath.Join":             {"Glb.Go.LibPath.join2", true, 1},
	"strutil.UnsafeBytesToString": {"Glb.Go.toStr", true, 1},
}

// translated functions known so far: Go callee text ("Name" or "pkg.Name") -> info
type glSig struct {
	extra string // leading Lean arguments that are not Go parameters
	rec   bool
	lean string
	ptr  []bool // per parameter: pointer-to-slice parameter (threaded)
	nres int    // number of Go results
}

var glSigs = map[string]*glSig{}

// callee: the Lean function with its non-Go leading arguments. For a recursive function the fuel comes
// first (callers insert it), then the extra arguments.
func (g *glSig) callee() string {
	if g.extra != "" && !g.rec {
		return g.lean + " " + g.extra
	}
	return g.lean
}

// ---------------------------------------------------------------------------------------------

type glTr struct {
	fn      *glFunc
	decl    *ast.FuncDecl
	b       *strings.Builder
	loopOrd int
	loops   []*glLoop // enclosing loops, innermost last
	scope   map[string]bool
	tmp     int
	ptrs    []string // pointer parameters in order
	file    *ast.File
	base    int // extra indentation (bodies of recursive functions sit inside a match arm)
	alias   map[string]string // Go name -> Lean name (Lean's `let mut` cannot be shadowed: re-declared names get a suffix)
	count   map[string]int
}

func (t *glTr) nm(goName string) string {
	if a, ok := t.alias[goName]; ok {
		return a
	}
	return goName
}

type glLoop struct {
	state []string
}

// glRefusal: the translator does not understand the source as it is now. Only the unit concerned is
// affected: its generated file becomes a stub without definitions, so exactly the tie modules that
// depend on it stop building.
type glRefusal struct{ msg string }

func (t *glTr) die(n ast.Node, format string, a ...any) {
	pos := fset.Position(n.Pos())
	panic(glRefusal{fmt.Sprintf("%s:%d (%s): %s", strings.TrimPrefix(pos.Filename, repo+"/"), pos.Line, t.fn.Name, fmt.Sprintf(format, a...))})
}

func glIndent(n int) string { return strings.Repeat("  ", n) }

func (t *glTr) line(ind int, format string, a ...any) {
	t.b.WriteString(glIndent(ind + t.base))
	fmt.Fprintf(t.b, format, a...)
	t.b.WriteString("\n")
}

// --- constants ---------------------------------------------------------------------------------

// glConst folds integer/char constant expressions exactly (Go's untyped constant arithmetic).
func glConst(e ast.Expr) (*big.Int, bool) {
	switch x := e.(type) {
	case *ast.BasicLit:
		switch x.Kind {
		case token.INT:
			v, ok := new(big.Int).SetString(x.Value, 0)
			return v, ok
		case token.CHAR:
			r, _, _, err := strconv.UnquoteChar(x.Value[1:len(x.Value)-1], '\'')
			return big.NewInt(int64(r)), err == nil
		}
	case *ast.ParenExpr:
		return glConst(x.X)
	case *ast.UnaryExpr:
		if v, ok := glConst(x.X); ok && x.Op == token.SUB {
			return new(big.Int).Neg(v), true
		}
	case *ast.BinaryExpr:
		a, ok1 := glConst(x.X)
		b, ok2 := glConst(x.Y)
		if !ok1 || !ok2 {
			return nil, false
		}
		switch x.Op {
		case token.ADD:
			return new(big.Int).Add(a, b), true
		case token.SUB:
			return new(big.Int).Sub(a, b), true
		case token.MUL:
			return new(big.Int).Mul(a, b), true
		case token.SHL:
			return new(big.Int).Lsh(a, uint(b.Int64())), true
		case token.OR:
			return new(big.Int).Or(a, b), true
		case token.AND:
			return new(big.Int).And(a, b), true
		}
	}
	return nil, false
}

func glNum(v *big.Int) string {
	if v.Sign() < 0 {
		return "(" + v.String() + ")"
	}
	return v.String()
}

// --- expressions ---------------------------------------------------------------------------------

func glText(e ast.Expr) string {
	switch x := e.(type) {
	case *ast.Ident:
		return x.Name
	case *ast.SelectorExpr:
		return glText(x.X) + "." + x.Sel.Name
	case *ast.StarExpr:
		return "*" + glText(x.X)
	case *ast.ParenExpr:
		return glText(x.X)
	}
	return ""
}

var glBinPure = map[token.Token]string{
	token.ADD: "+", token.SUB: "-", token.MUL: "*",
}
var glBitOps = map[token.Token]string{
	token.AND: "Glb.Go.band", token.OR: "Glb.Go.bor", token.XOR: "Glb.Go.bxor", token.SHL: "Glb.Go.shl", token.SHR: "Glb.Go.shr",
}
var glCmp = map[token.Token]string{
	token.LSS: "<", token.LEQ: "≤", token.GTR: ">", token.GEQ: "≥",
}

// bindM turns (code, pure) into a term usable inside a do statement.
func glBind(code string, pure bool) string {
	if pure {
		return code
	}
	return "(← " + code + ")"
}

// asM turns (code, pure) into a term of type M _.
func glAsM(code string, pure bool) string {
	if pure {
		return "(pure " + code + ")"
	}
	return code
}

func (t *glTr) fresh() string {
	t.tmp++
	return fmt.Sprintf("t__%d", t.tmp)
}

// seq builds a monadic term that evaluates the impure operands left to right and combines them.
func (t *glTr) seq(codes []string, pures []bool, combine func(args []string) string) (string, bool) {
	all := true
	for _, p := range pures {
		all = all && p
	}
	if all {
		return combine(codes), true
	}
	var sb strings.Builder
	sb.WriteString("(do ")
	args := make([]string, len(codes))
	for i := range codes {
		if pures[i] {
			args[i] = codes[i]
		} else {
			v := t.fresh()
			fmt.Fprintf(&sb, "let %s ← %s; ", v, codes[i])
			args[i] = v
		}
	}
	sb.WriteString("pure " + combine(args) + ")")
	return sb.String(), false
}

func (t *glTr) exprs(es []ast.Expr) ([]string, []bool) {
	cs := make([]string, len(es))
	ps := make([]bool, len(es))
	for i, e := range es {
		cs[i], ps[i] = t.expr(e)
	}
	return cs, ps
}

func (t *glTr) mapKind(e ast.Expr) string {
	if ie, ok := e.(*ast.IndexExpr); ok {
		if k := t.mapKind(ie.X); strings.HasPrefix(k, "arr-") {
			return strings.TrimPrefix(k, "arr-")
		}
		return ""
	}
	if sel, ok := e.(*ast.SelectorExpr); ok {
		if k, ok := t.fn.MapFields[sel.Sel.Name]; ok {
			return k
		}
	}
	if id, ok := e.(*ast.Ident); ok {
		if k, ok := t.fn.MapVars[id.Name]; ok {
			return k
		}
	}
	return ""
}

// expr returns Lean code for e and whether it is a pure term (true) or a term of type `M _` (false).
func (t *glTr) expr(e ast.Expr) (string, bool) {
	if v, ok := glConst(e); ok {
		return glNum(v), true
	}
	if txt := glText(e); txt != "" {
		if l, ok := t.fn.Env[txt]; ok {
			return l, true
		}
	}
	if _, isCall := e.(*ast.CallExpr); isCall {
		if tup, ok := t.fn.Tuples[glSrc(e)]; ok && len(tup) == 1 {
			return tup[0], true
		}
	}
	if sel, ok := e.(*ast.SelectorExpr); ok {
		if id, ok := sel.X.(*ast.Ident); ok && t.scope[id.Name] {
			if acc, ok := t.fn.Fields[sel.Sel.Name]; ok {
				return "(" + acc + " " + t.nm(id.Name) + ")", true
			}
		}
	}
	if ie, ok := e.(*ast.IndexExpr); ok {
		if kind := t.mapKind(ie.X); kind != "" && !strings.HasPrefix(kind, "arr-") {
			m, pm := t.expr(ie.X)
			k, pk := t.expr(ie.Index)
			f := "Glb.Go.mapGet"
			if kind == "zero" {
				f = "Glb.Go.mapGetD"
			}
			if kind == "bool" {
				f = "Glb.Go.mapHas"
			}
			return t.seq([]string{m, k}, []bool{pm, pk}, func(s []string) string { return "(" + f + " " + s[0] + " " + s[1] + ")" })
		}
	}
	switch x := e.(type) {
	case *ast.ParenExpr:
		return t.expr(x.X)
	case *ast.Ident:
		switch x.Name {
		case "true", "false":
			return x.Name, true
		case "nil":
			t.die(e, "nil")
		}
		if !t.scope[x.Name] {
			// a package-level constant of the same file: its value is read from the source
			if k, ok := glIotaConst(t.file, x.Name); ok {
				return k, true
			}
			if v := findValue(t.file, x.Name); v != nil {
				if c, ok := glConst(v); ok {
					return glNum(c), true
				}
				if str, ok := evalString(v, nil); ok {
					return "(" + leanBytes(str) + " : Bytes)", true
				}
			}
			t.die(e, "unknown identifier %s (add it to Env)", x.Name)
		}
		return t.nm(x.Name), true
	case *ast.StarExpr:
		if id, ok := x.X.(*ast.Ident); ok && t.fn.Ptr[id.Name] {
			return t.nm(id.Name), true
		}
		t.die(e, "unsupported dereference")
	case *ast.BasicLit:
		if x.Kind == token.STRING {
			s, err := strconv.Unquote(x.Value)
			if err != nil {
				t.die(e, "string literal")
			}
			return "(" + leanBytes(s) + " : Bytes)", true
		}
		t.die(e, "literal %s", x.Value)
	case *ast.UnaryExpr:
		c, p := t.expr(x.X)
		switch x.Op {
		case token.NOT:
			return t.seq([]string{c}, []bool{p}, func(a []string) string { return "(!" + a[0] + ")" })
		case token.SUB:
			return t.seq([]string{c}, []bool{p}, func(a []string) string { return "(-" + a[0] + ")" })
		case token.XOR:
			return t.seq([]string{c}, []bool{p}, func(a []string) string { return "(~~~" + a[0] + ")" })
		}
		t.die(e, "unary %s", x.Op)
	case *ast.BinaryExpr:
		a, pa := t.expr(x.X)
		b, pb := t.expr(x.Y)
		switch x.Op {
		case token.LAND, token.LOR:
			op, short := "&&", "false"
			if x.Op == token.LOR {
				op, short = "||", "true"
			}
			if pa && pb {
				return "(" + a + " " + op + " " + b + ")", true
			}
			// short circuit: the right operand is evaluated only when the left one does not decide
			var sb strings.Builder
			sb.WriteString("(do ")
			av := a
			if !pa {
				av = t.fresh()
				fmt.Fprintf(&sb, "let %s ← %s; ", av, a)
			}
			if x.Op == token.LAND {
				fmt.Fprintf(&sb, "if %s then %s else pure %s)", av, glAsM(b, pb), short)
			} else {
				fmt.Fprintf(&sb, "if %s then pure %s else %s)", av, short, glAsM(b, pb))
			}
			return sb.String(), false
		case token.EQL:
			return t.seq([]string{a, b}, []bool{pa, pb}, func(s []string) string { return "(" + s[0] + " == " + s[1] + ")" })
		case token.NEQ:
			return t.seq([]string{a, b}, []bool{pa, pb}, func(s []string) string { return "(" + s[0] + " != " + s[1] + ")" })
		case token.QUO, token.REM:
			v, ok := glConst(x.Y)
			if !ok || v.Sign() == 0 {
				t.die(e, "division by a non-literal")
			}
			f := "Glb.Go.idiv"
			if x.Op == token.REM {
				f = "Glb.Go.imod"
			}
			return t.seq([]string{a, b}, []bool{pa, pb}, func(s []string) string { return "(" + f + " " + s[0] + " " + s[1] + ")" })
		}
		if op, ok := glCmp[x.Op]; ok {
			return t.seq([]string{a, b}, []bool{pa, pb}, func(s []string) string { return "(decide (" + s[0] + " " + op + " " + s[1] + "))" })
		}
		if f, ok := glBitOps[x.Op]; ok {
			return t.seq([]string{a, b}, []bool{pa, pb}, func(s []string) string { return "(" + f + " " + s[0] + " " + s[1] + ")" })
		}
		if op, ok := glBinPure[x.Op]; ok {
			return t.seq([]string{a, b}, []bool{pa, pb}, func(s []string) string { return "(" + s[0] + " " + op + " " + s[1] + ")" })
		}
		t.die(e, "binary %s", x.Op)
	case *ast.IndexExpr:
		a, pa := t.expr(x.X)
		i, pi := t.expr(x.Index)
		c, _ := t.seq([]string{a, i}, []bool{pa, pi}, func(s []string) string { return "(Glb.Go.idx " + s[0] + " " + s[1] + ")" })
		if pa && pi {
			return c, false
		}
		// c = (do …; pure (idx a i)) : M (M α) — flatten
		return "(do let r__ ← " + c + "; r__)", false
	case *ast.SliceExpr:
		if x.Slice3 {
			t.die(e, "3-index slice")
		}
		a, pa := t.expr(x.X)
		var c string
		switch {
		case x.Low != nil && x.High != nil:
			l, pl := t.expr(x.Low)
			h, ph := t.expr(x.High)
			c2, p := t.seq([]string{a, l, h}, []bool{pa, pl, ph}, func(s []string) string {
				return "(Glb.Go.slice " + s[0] + " " + s[1] + " " + s[2] + ")"
			})
			if !p {
				return "(do let r__ ← " + c2 + "; r__)", false
			}
			c = c2
		case x.Low != nil:
			l, pl := t.expr(x.Low)
			c2, p := t.seq([]string{a, l}, []bool{pa, pl}, func(s []string) string { return "(Glb.Go.sliceFrom " + s[0] + " " + s[1] + ")" })
			if !p {
				return "(do let r__ ← " + c2 + "; r__)", false
			}
			c = c2
		case x.High != nil:
			h, ph := t.expr(x.High)
			c2, p := t.seq([]string{a, h}, []bool{pa, ph}, func(s []string) string { return "(Glb.Go.sliceTo " + s[0] + " " + s[1] + ")" })
			if !p {
				return "(do let r__ ← " + c2 + "; r__)", false
			}
			c = c2
		default:
			return a, pa
		}
		return c, false
	case *ast.CallExpr:
		return t.call(x)
	case *ast.CompositeLit:
		if _, ok := x.Type.(*ast.ArrayType); ok {
			cs, ps := t.exprs(x.Elts)
			return t.seq(cs, ps, func(s []string) string { return "[" + strings.Join(s, ", ") + "]" })
		}
		t.die(e, "composite literal")
	}
	t.die(e, "unsupported expression %T", e)
	return "", false
}

func (t *glTr) call(x *ast.CallExpr) (string, bool) {
	name := glText(x.Fun)
	if name == "" {
		name = glTextType(x.Fun) // conversions such as []byte(s)
	}
	switch name {
	case "len":
		c, p := t.expr(x.Args[0])
		return t.seq([]string{c}, []bool{p}, func(s []string) string { return "(Glb.Go.len " + s[0] + ")" })
	case "append":
		if x.Ellipsis != token.NoPos {
			cs, ps := t.exprs(x.Args)
			return t.seq(cs, ps, func(s []string) string { return "(" + s[0] + " ++ " + s[1] + ")" })
		}
		cs, ps := t.exprs(x.Args)
		return t.seq(cs, ps, func(s []string) string { return "(" + s[0] + " ++ [" + strings.Join(s[1:], ", ") + "])" })
	case "string", "[]byte":
		c, p := t.expr(x.Args[0])
		return t.seq([]string{c}, []bool{p}, func(s []string) string { return "(Glb.Go.toStr " + s[0] + ")" })
	case "int", "int64", "byte", "uint8", "uint32":
		if v, ok := glConst(x.Args[0]); ok {
			ty := map[string]string{"int": "Int", "int64": "Int", "byte": "UInt8", "uint8": "UInt8", "uint32": "UInt32"}[name]
			if name == "uint32" && t.fn.U32BV {
				ty = "BitVec 32"
			}
			return "(" + glNum(v) + " : " + ty + ")", true
		}
	}
	switch name {
	case "int", "int64":
		c, p := t.expr(x.Args[0])
		return t.seq([]string{c}, []bool{p}, func(s []string) string { return "(Glb.Go.ToInt.toInt " + s[0] + ")" })
	case "byte", "uint8":
		c, p := t.expr(x.Args[0])
		return t.seq([]string{c}, []bool{p}, func(s []string) string { return "(Glb.Go.ToByte.toByte " + s[0] + ")" })
	case "uint32":
		c, p := t.expr(x.Args[0])
		f := "Glb.Go.ToU32.toU32"
		if t.fn.U32BV {
			f = "Glb.Go.ToBV32.toBV32"
		}
		return t.seq([]string{c}, []bool{p}, func(s []string) string { return "(" + f + " " + s[0] + ")" })
	case "make":
		if _, ok := x.Args[0].(*ast.MapType); ok && len(x.Args) == 1 {
			return "[]", true
		}
		t.die(x, "make of a non-map")
	}
	if name == "strconv.AppendInt" {
		if v, ok := glConst(x.Args[2]); !ok || v.Int64() != 10 {
			t.die(x, "strconv.AppendInt with a base other than 10")
		}
		cs, ps := t.exprs(x.Args[:2])
		return t.seq(cs, ps, func(s []string) string { return "(Glb.Go.Lib.appendInt10 " + strings.Join(s, " ") + ")" })
	}
	if name == "strconv.FormatInt" {
		if v, ok := glConst(x.Args[1]); !ok || v.Int64() != 10 {
			t.die(x, "strconv.FormatInt with a base other than 10")
		}
		cs, ps := t.exprs(x.Args[:1])
		return t.seq(cs, ps, func(s []string) string { return "(Glb.Go.Lib.itoa " + s[0] + ")" })
	}
	if name == "strings.Replace" {
		// only the replace-all form with a non-empty literal `old`
		if v, ok := glConst(x.Args[3]); !ok || v.Sign() >= 0 {
			t.die(x, "strings.Replace with n >= 0")
		}
		if lit, ok := x.Args[1].(*ast.BasicLit); !ok || lit.Kind != token.STRING || len(lit.Value) <= 2 {
			t.die(x, "strings.Replace: old must be a non-empty literal")
		}
		cs, ps := t.exprs(x.Args[:3])
		return t.seq(cs, ps, func(s []string) string { return "(Glb.Go.Lib.replaceAll " + strings.Join(s, " ") + ")" })
	}
	if sel, ok := x.Fun.(*ast.SelectorExpr); ok {
		if id, ok := sel.X.(*ast.Ident); ok && t.scope[id.Name] {
			if lib, ok := t.fn.Libs["method:"+sel.Sel.Name]; ok {
				cs, ps := t.exprs(append([]ast.Expr{sel.X}, x.Args...))
				c, p := t.seq(cs, ps, func(s []string) string { return "(" + lib.lean + " " + strings.Join(s, " ") + ")" })
				if lib.pure {
					return c, p
				}
				if p {
					return c, false
				}
				return "(do let r__ ← " + c + "; r__)", false
			}
		}
	}
	if lib, ok := t.fn.Libs[name]; ok {
		cs, ps := t.exprs(x.Args)
		c, p := t.seq(cs, ps, func(s []string) string { return "(" + lib.lean + " " + strings.Join(s, " ") + ")" })
		if lib.pure {
			return c, p
		}
		if p {
			return c, false
		}
		return "(do let r__ ← " + c + "; r__)", false
	}
	if lib, ok := glLibs[name]; ok {
		cs, ps := t.exprs(x.Args)
		c, p := t.seq(cs, ps, func(s []string) string { return "(" + lib.lean + " " + strings.Join(s, " ") + ")" })
		if lib.pure {
			return c, p
		}
		if p {
			return c, false
		}
		return "(do let r__ ← " + c + "; r__)", false
	}
	if sel, ok := x.Fun.(*ast.SelectorExpr); ok {
		if id, ok := sel.X.(*ast.Ident); ok && t.scope[id.Name] {
			if sig, ok := glSigs["method:"+sel.Sel.Name]; ok {
				cs, ps := t.exprs(append([]ast.Expr{sel.X}, x.Args...))
				c, p := t.seq(cs, ps, func(s []string) string { return "(" + sig.callee() + " " + strings.Join(s, " ") + ")" })
				if p {
					return c, false
				}
				return "(do let r__ ← " + c + "; r__)", false
			}
		}
	}
	if sig, ok := glSigs[name]; ok {
		for _, p := range sig.ptr {
			if p {
				t.die(x, "call of %s with pointer parameters in expression position", name)
			}
		}
		cs, ps := t.exprs(x.Args)
		pre := strings.Join(t.recPrefix(name, sig), " ")
		if pre != "" {
			pre += " "
		}
		c, p := t.seq(cs, ps, func(s []string) string { return "(" + sig.callee() + " " + pre + strings.Join(s, " ") + ")" })
		if p {
			return c, false
		}
		return "(do let r__ ← " + c + "; r__)", false
	}
	t.die(x, "call of unknown function %s", name)
	return "", false
}

// --- statements ---------------------------------------------------------------------------------

func (t *glTr) tuple(names []string) string {
	switch len(names) {
	case 0:
		return "()"
	case 1:
		return names[0]
	}
	return "(" + strings.Join(names, ", ") + ")"
}

func glProj(k, n int) string {
	if n == 1 {
		return "st__"
	}
	s := "st__" + strings.Repeat(".2", k)
	if k < n-1 {
		s += ".1"
	}
	return s
}

// returnStmt emits `return v` of the Go function: pointer parameters first, then the results.
func (t *glTr) returnCode(results []string) string {
	all := []string{}
	for _, p := range t.ptrs {
		all = append(all, t.nm(p))
	}
	all = append(all, results...)
	v := t.tuple(all)
	if len(t.loops) > 0 {
		return "return Glb.Go.Ctl.ret " + v
	}
	return "return " + v
}

func (t *glTr) lhsName(e ast.Expr) string {
	if txt := glText(e); txt != "" && t.fn.Ptr[txt] {
		if l, ok := t.fn.Env[txt]; ok {
			return l
		}
	}
	switch x := e.(type) {
	case *ast.Ident:
		return x.Name
	case *ast.StarExpr:
		if id, ok := x.X.(*ast.Ident); ok && t.fn.Ptr[id.Name] {
			return id.Name
		}
	}
	return ""
}

func (t *glTr) define(n ast.Node, name string) {
	if name == "_" {
		return
	}
	if strings.HasSuffix(name, "__") {
		t.die(n, "identifier %s ends in __ (reserved for the translator's own names)", name)
	}
	t.scope[name] = true
	t.count[name]++
	lean := name
	if glLeanKeywords[name] {
		lean = "«" + name + "»"
	}
	if t.count[name] > 1 {
		t.alias[name] = fmt.Sprintf("%s_%d", name, t.count[name])
	} else {
		t.alias[name] = lean
	}
}

// Go identifiers that are Lean keywords or would be read as Lean notation
var glLeanKeywords = map[string]bool{
	"end": true, "from": true, "fun": true, "at": true, "open": true, "then": true, "do": true, "have": true,
	"show": true, "let": true, "match": true, "with": true, "where": true, "in": true, "by": true, "def": true,
	"theorem": true, "instance": true, "structure": true, "class": true, "namespace": true, "section": true,
	"mut": true, "return": true, "if": true, "else": true, "for": true, "unless": true, "try": true, "catch": true,
	"finally": true, "deriving": true, "extends": true, "using": true, "calc": true, "forall": true, "exists": true,
	"Type": true, "Prop": true, "Sort": true, "abbrev": true, "axiom": true, "example": true, "inductive": true,
	"macro": true, "syntax": true, "notation": true, "private": true, "protected": true, "partial": true,
	"unsafe": true, "variable": true, "universe": true, "import": true, "export": true, "mutual": true,
	"attribute": true, "infix": true, "prefix": true, "postfix": true, "local": true, "scoped": true, "nomatch": true,
	"nofun": true, "suffices": true, "obtain": true, "this": true, "at_": false,
}

var glAssignOps = map[token.Token]token.Token{
	token.ADD_ASSIGN: token.ADD, token.SUB_ASSIGN: token.SUB, token.MUL_ASSIGN: token.MUL,
	token.AND_ASSIGN: token.AND, token.OR_ASSIGN: token.OR, token.XOR_ASSIGN: token.XOR,
	token.SHL_ASSIGN: token.SHL, token.SHR_ASSIGN: token.SHR,
}

func glType(e ast.Expr) string {
	switch glTextType(e) {
	case "int", "int64":
		return "Int"
	case "byte", "uint8":
		return "UInt8"
	case "uint32":
		return "UInt32"
	case "uint64":
		return "UInt64"
	case "bool":
		return "Bool"
	case "string", "[]byte":
		return "Bytes"
	case "[]string":
		return "(List Bytes)"
	}
	return ""
}

func glTextType(e ast.Expr) string {
	switch x := e.(type) {
	case *ast.Ident:
		return x.Name
	case *ast.ArrayType:
		if x.Len == nil {
			return "[]" + glTextType(x.Elt)
		}
	}
	return ""
}

func glZero(ty string) string {
	switch ty {
	case "Int", "UInt8", "UInt32", "UInt64":
		return "0"
	case "Bool":
		return "false"
	case "Bytes", "(List Bytes)":
		return "[]"
	}
	return ""
}

func (t *glTr) block(ind int, stmts []ast.Stmt) {
	if len(stmts) == 0 {
		t.line(ind, "pure ()")
		return
	}
	for _, s := range stmts {
		t.stmt(ind, s)
	}
}

func glSrc(n ast.Node) string {
	p0, p1 := fset.Position(n.Pos()), fset.Position(n.End())
	data := glFileBytes[p0.Filename]
	if data == nil || p1.Offset > len(data) {
		return ""
	}
	return string(data[p0.Offset:p1.Offset])
}

var glFileBytes = map[string][]byte{}

func (t *glTr) stmt(ind int, s ast.Stmt) {
	src := glSrc(s)
	for _, pre := range t.fn.Skip {
		if strings.HasPrefix(src, pre) {
			t.line(ind, "-- (outside the model) %s", strings.SplitN(src, "\n", 2)[0])
			return
		}
	}
	if rw, ok := t.fn.Rewrite[src]; ok {
		for _, l := range strings.Split(rw, "\n") {
			t.line(ind, "%s", l)
		}
		return
	}
	for pre, rw := range t.fn.RewritePrefix {
		if strings.HasPrefix(src, pre) {
			for _, l := range strings.Split(rw, "\n") {
				t.line(ind, "%s", l)
			}
			return
		}
	}
	// `x = x.m(arg)` on a pointer the function walks with: Rewrite key "x = x.m($1)", `$1` = the translated argument
	if as, ok := s.(*ast.AssignStmt); ok && as.Tok == token.ASSIGN && len(as.Lhs) == 1 && len(as.Rhs) == 1 {
		if call, ok := as.Rhs[0].(*ast.CallExpr); ok && len(call.Args) == 1 {
			key := glText(as.Lhs[0]) + " = " + glText(call.Fun) + "($1)"
			if rw, ok := t.fn.Rewrite[key]; ok {
				c, p := t.expr(call.Args[0])
				v := t.fresh()
				t.line(ind, "let %s := %s", v, glBind(c, p))
				for _, l := range strings.Split(strings.ReplaceAll(rw, "$1", v), "\n") {
					t.line(ind, "%s", l)
				}
				return
			}
		}
	}
	switch x := s.(type) {
	case *ast.EmptyStmt:
		t.line(ind, "pure ()")
	case *ast.BlockStmt:
		t.block(ind, x.List)
	case *ast.DeclStmt:
		gd := x.Decl.(*ast.GenDecl)
		if gd.Tok == token.CONST {
			// local integer constants (iota supported in its plain form)
			for i, sp := range gd.Specs {
				vs := sp.(*ast.ValueSpec)
				for _, n := range vs.Names {
					t.define(n, n.Name)
					t.line(ind, "let %s : Int := %d", t.nm(n.Name), i)
				}
				if i == 0 {
					if len(vs.Values) != 1 || glText(vs.Values[0]) != "iota" {
						t.die(s, "local const block must be `= iota`")
					}
				} else if len(vs.Values) != 0 {
					t.die(s, "local const block must be `= iota`")
				}
			}
			return
		}
		if gd.Tok != token.VAR {
			t.die(s, "declaration")
		}
		for _, sp := range gd.Specs {
			vs := sp.(*ast.ValueSpec)
			ty := ""
			if vs.Type != nil {
				ty = glType(vs.Type)
				if ty == "" {
					t.die(s, "type %s", glTextType(vs.Type))
				}
			}
			for i, n := range vs.Names {
				if len(vs.Values) > 0 {
					c, p := t.expr(vs.Values[i])
					t.define(n, n.Name)
					if ty != "" {
						t.line(ind, "let mut %s : %s := %s", t.nm(n.Name), ty, glBind(c, p))
					} else {
						t.line(ind, "let mut %s := %s", t.nm(n.Name), glBind(c, p))
					}
				} else {
					t.define(n, n.Name)
					t.line(ind, "let mut %s : %s := %s", t.nm(n.Name), ty, glZero(ty))
				}
			}
		}
	case *ast.IncDecStmt:
		n := t.lhsName(x.X)
		if n == "" {
			t.die(s, "inc/dec target")
		}
		op := "+"
		if x.Tok == token.DEC {
			op = "-"
		}
		t.line(ind, "%s := %s %s 1", t.nm(n), t.nm(n), op)
	case *ast.AssignStmt:
		t.assign(ind, x)
	case *ast.ExprStmt:
		call, ok := x.X.(*ast.CallExpr)
		if !ok {
			t.die(s, "expression statement")
		}
		if seq, ok := t.fn.Iter[glText(call.Fun)]; ok && len(call.Args) == 1 {
			// r.Attrs(func(a T) bool { …; return true })  is  for _, a := range <seq> { … }
			// (`return true` = next element, `return false` = stop)
			fl, ok := call.Args[0].(*ast.FuncLit)
			if !ok || len(fl.Type.Params.List) != 1 || len(fl.Type.Params.List[0].Names) != 1 {
				t.die(s, "iterator callback")
			}
			body := &ast.BlockStmt{}
			for k, st := range fl.Body.List {
				if rs, ok := st.(*ast.ReturnStmt); ok && len(rs.Results) == 1 {
					if glText(rs.Results[0]) == "true" && k == len(fl.Body.List)-1 {
						continue // falling off the end of the body is the same
					}
					switch glText(rs.Results[0]) {
					case "true":
						body.List = append(body.List, &ast.BranchStmt{Tok: token.CONTINUE, TokPos: rs.Pos()})
						continue
					case "false":
						body.List = append(body.List, &ast.BranchStmt{Tok: token.BREAK, TokPos: rs.Pos()})
						continue
					}
				}
				ast.Inspect(st, func(n ast.Node) bool {
					if _, ok := n.(*ast.ReturnStmt); ok {
						t.die(n, "return inside an iterator callback (only a final `return true/false` is understood)")
					}
					return true
				})
				body.List = append(body.List, st)
			}
			t.rangeStmt(ind, &ast.RangeStmt{For: x.Pos(), Key: ast.NewIdent("_"), Value: fl.Type.Params.List[0].Names[0], Tok: token.DEFINE, X: ast.NewIdent(seq), Body: body})
			return
		}
		t.callStmt(ind, call)
	case *ast.ReturnStmt:
		cs, ps := t.exprs(x.Results)
		if len(x.Results) == 0 && t.decl.Type.Results != nil && len(t.decl.Type.Results.List) > 0 {
			t.die(s, "bare return with named results")
		}
		for i := range cs {
			cs[i] = glBind(cs[i], ps[i])
		}
		t.line(ind, "%s", t.returnCode(cs))
	case *ast.IfStmt:
		if t.ifLookup(ind, x) {
			return
		}
		if call, ok := x.Cond.(*ast.CallExpr); ok && x.Init == nil {
			if sig, ok := glSigs[glText(call.Fun)]; ok && sig.nres == 1 {
				hasPtr := false
				for _, p := range sig.ptr {
					hasPtr = hasPtr || p
				}
				if hasPtr {
					// if f(buf, …) { A }  where f updates *buf and returns a bool
					var outs, args []string
					for i, a := range call.Args {
						if i < len(sig.ptr) && sig.ptr[i] {
							n := t.ptrArg(a)
							if n == "" {
								t.die(call, "pointer argument must be a pointer parameter, &local or a threaded &field")
							}
							outs = append(outs, n)
							args = append(args, n)
							continue
						}
						c, p := t.expr(a)
						args = append(args, glBind(c, p))
					}
					args = append(t.recPrefix(glText(call.Fun), sig), args...)
					v := t.fresh()
					t.line(ind, "let %s ← %s %s", v, sig.callee(), strings.Join(args, " "))
					for i, o := range outs {
						t.line(ind, "%s := %s", o, strings.Replace(glProj(i, len(outs)+1), "st__", v, 1))
					}
					t.line(ind, "if %s then", strings.Replace(glProj(len(outs), len(outs)+1), "st__", v, 1))
					t.block(ind+1, x.Body.List)
					if x.Else != nil {
						t.line(ind, "else")
						switch el := x.Else.(type) {
						case *ast.BlockStmt:
							t.block(ind+1, el.List)
						default:
							t.stmt(ind+1, el)
						}
					}
					return
				}
			}
		}
		if as, ok := x.Init.(*ast.AssignStmt); ok && len(as.Rhs) == 1 {
			_, isTA := as.Rhs[0].(*ast.TypeAssertExpr)
			key := glSrc(x.Init) + "; " + glSrc(x.Cond)
			if tup, has := t.fn.Tuples[key]; isTA || (has && len(tup) == 1) {
				// `if v, ok := x.(T); ok && v.M() { … }` (or a lookup through a walked pointer): the whole
				// test is one fact given in Tuples
				if !has || len(tup) != 1 {
					t.die(x, "type test %q (add it to Tuples)", key)
				}
				t.line(ind, "if %s then", tup[0])
				t.block(ind+1, x.Body.List)
				if x.Else != nil {
					t.line(ind, "else")
					switch el := x.Else.(type) {
					case *ast.BlockStmt:
						t.block(ind+1, el.List)
					default:
						t.stmt(ind+1, el)
					}
				}
				return
			}
		}
		var ifLocals []string
		defer func() {
			for _, n := range ifLocals {
				delete(t.scope, n)
				delete(t.alias, n)
			}
		}()
		if x.Init != nil {
			if as, ok := x.Init.(*ast.AssignStmt); ok && as.Tok == token.DEFINE {
				for _, l := range as.Lhs {
					if id, ok := l.(*ast.Ident); ok && !t.scope[id.Name] {
						ifLocals = append(ifLocals, id.Name)
					}
				}
			}
			if as, ok := x.Init.(*ast.AssignStmt); ok && as.Tok == token.DEFINE {
				for _, l := range as.Lhs {
					if id, ok := l.(*ast.Ident); ok && t.scope[id.Name] {
						t.die(s, "if-init shadows %s", id.Name)
					}
				}
			}
			t.stmt(ind, x.Init)
		}
		c, p := t.expr(x.Cond)
		t.line(ind, "if %s then", glBind(c, p))
		t.block(ind+1, x.Body.List)
		if x.Else != nil {
			t.line(ind, "else")
			switch el := x.Else.(type) {
			case *ast.BlockStmt:
				t.block(ind+1, el.List)
			default:
				t.stmt(ind+1, el)
			}
		}
	case *ast.SwitchStmt:
		if x.Init != nil {
			t.die(s, "switch with init")
		}
		t.switchStmt(ind, x)
	case *ast.BranchStmt:
		if x.Label != nil || len(t.loops) == 0 {
			t.die(s, "branch")
		}
		st := t.tuple(t.loops[len(t.loops)-1].state)
		switch x.Tok {
		case token.BREAK:
			t.line(ind, "return Glb.Go.Ctl.brk %s", st)
		case token.CONTINUE:
			t.line(ind, "return Glb.Go.Ctl.next %s", st)
		default:
			t.die(s, "branch %s", x.Tok)
		}
	case *ast.ForStmt:
		t.forStmt(ind, x.Init, x.Cond, x.Post, x.Body, nil)
	case *ast.RangeStmt:
		t.rangeStmt(ind, x)
	default:
		t.die(s, "unsupported statement %T", s)
	}
}

// ifLookup handles the two pointer idioms:
//   if v, ok := m[k]; ok { A } else B            (m a "ptr" map)
//   if v := f(..); v != nil { A } else B         (also `v = f(..)` assigning an existing variable)
// as a Lean `match` on the Option the lookup / call yields.
func (t *glTr) ifLookup(ind int, x *ast.IfStmt) bool {
	as, ok := x.Init.(*ast.AssignStmt)
	if !ok || len(as.Rhs) != 1 {
		return false
	}
	var optCode string
	var optPure bool
	var bound string
	assignExisting := false
	switch {
	case len(as.Lhs) == 2 && as.Tok == token.DEFINE:
		ie, ok := as.Rhs[0].(*ast.IndexExpr)
		if !ok || t.mapKind(ie.X) != "ptr" {
			return false
		}
		okName := glText(as.Lhs[1])
		if c, ok := x.Cond.(*ast.Ident); !ok || c.Name != okName {
			return false
		}
		bound = glText(as.Lhs[0])
		optCode, optPure = t.expr(ie)
	case len(as.Lhs) == 1:
		be, ok := x.Cond.(*ast.BinaryExpr)
		if ok && be.Op == token.EQL && glText(be.Y) == "nil" && glText(be.X) == glText(as.Lhs[0]) && as.Tok == token.ASSIGN {
			// if v = f(..); v == nil { A } else B   — v keeps the non-nil value afterwards
			c, p := t.expr(as.Rhs[0])
			v := t.fresh()
			t.line(ind, "match %s with", glBind(c, p))
			t.line(ind, "| none =>")
			t.block(ind+1, x.Body.List)
			t.line(ind, "| some %s =>", v)
			t.line(ind+1, "%s := %s", t.nm(glText(as.Lhs[0])), v)
			switch el := x.Else.(type) {
			case nil:
			case *ast.BlockStmt:
				t.block(ind+1, el.List)
			default:
				t.stmt(ind+1, el)
			}
			return true
		}
		if !ok || be.Op != token.NEQ || glText(be.Y) != "nil" || glText(be.X) != glText(as.Lhs[0]) {
			return false
		}
		bound = glText(as.Lhs[0])
		assignExisting = as.Tok == token.ASSIGN
		optCode, optPure = t.expr(as.Rhs[0])
	default:
		return false
	}
	if bound == "" {
		return false
	}
	if as.Tok == token.DEFINE && t.scope[bound] {
		t.die(x, "if-init shadows %s", bound)
	}
	t.line(ind, "match %s with", glBind(optCode, optPure))
	if assignExisting {
		v := t.fresh()
		t.line(ind, "| some %s =>", v)
		t.line(ind+1, "%s := %s", t.nm(bound), v)
		t.block(ind+1, x.Body.List)
	} else {
		t.define(x, bound)
		t.line(ind, "| some %s =>", t.nm(bound))
		t.block(ind+1, x.Body.List)
		delete(t.scope, bound)
		delete(t.alias, bound)
	}
	t.line(ind, "| none =>")
	switch el := x.Else.(type) {
	case nil:
		t.line(ind+1, "pure ()")
	case *ast.BlockStmt:
		t.block(ind+1, el.List)
	default:
		t.stmt(ind+1, el)
	}
	return true
}

func (t *glTr) switchStmt(ind int, x *ast.SwitchStmt) {
	var tag string
	if x.Tag != nil {
		c, p := t.expr(x.Tag)
		if !p {
			v := t.fresh()
			t.line(ind, "let %s ← %s", v, c)
			c = v
		}
		tag = c
	}
	var def *ast.CaseClause
	first := true
	depth := 0
	for _, cc := range x.Body.List {
		cl := cc.(*ast.CaseClause)
		if cl.List == nil {
			def = cl
			continue
		}
		ast.Inspect(cl, func(n ast.Node) bool {
			if br, ok := n.(*ast.BranchStmt); ok && (br.Tok == token.BREAK || br.Tok == token.FALLTHROUGH) {
				t.die(br, "break/fallthrough inside switch")
			}
			if _, ok := n.(*ast.ForStmt); ok {
				return false
			}
			return true
		})
		conds := []string{}
		for _, e := range cl.List {
			c, p := t.expr(e)
			if tag != "" {
				c = "(" + tag + " == " + glBind(c, p) + ")"
				conds = append(conds, c)
			} else {
				conds = append(conds, glBind(c, p))
			}
		}
		cond := strings.Join(conds, " || ")
		if first {
			t.line(ind+depth, "if %s then", cond)
			first = false
		} else {
			// a later case is tested only when the earlier ones failed: nest, so that a panicking
			// condition is evaluated in Go's order
			t.line(ind+depth, "else")
			depth++
			t.line(ind+depth, "if %s then", cond)
		}
		t.block(ind+depth+1, cl.Body)
	}
	if first {
		t.die(x, "switch without cases")
	}
	if def != nil {
		t.line(ind+depth, "else")
		t.block(ind+depth+1, def.Body)
	}
}

func (t *glTr) assign(ind int, x *ast.AssignStmt) {
	if op, ok := glAssignOps[x.Tok]; ok {
		n := t.lhsName(x.Lhs[0])
		if n == "" {
			t.die(x, "op-assign target")
		}
		c, p := t.expr(&ast.BinaryExpr{X: x.Lhs[0], Op: op, Y: x.Rhs[0], OpPos: x.Pos()})
		t.line(ind, "%s := %s", t.nm(n), glBind(c, p))
		return
	}
	if len(x.Lhs) == 2 && len(x.Rhs) == 1 && x.Tok == token.DEFINE {
		if ie, ok := x.Rhs[0].(*ast.IndexExpr); ok && t.mapKind(ie.X) == "zero" {
			// v, ok := m[k] on a map[string]string: v is the value or "", ok its presence
			m, _ := t.expr(ie.X)
			k, pk := t.expr(ie.Index)
			kv := t.fresh()
			v, okn := glText(x.Lhs[0]), glText(x.Lhs[1])
			t.line(ind, "let %s := %s", kv, glBind(k, pk))
			t.define(x, v)
			t.define(x, okn)
			t.line(ind, "let mut %s := (Glb.Go.mapGetD %s %s)", t.nm(v), m, kv)
			t.line(ind, "let mut %s := (Option.isSome (Glb.Go.mapGet %s %s))", t.nm(okn), m, kv)
			return
		}
		if ie, ok := x.Rhs[0].(*ast.IndexExpr); ok && t.mapKind(ie.X) == "fun" {
			// v, ok := m[k] where the map is given as a lookup function k ↦ Option _ : v is the Option, ok its isSome
			m, _ := t.expr(ie.X)
			k, pk := t.expr(ie.Index)
			v, okn := glText(x.Lhs[0]), glText(x.Lhs[1])
			t.define(x, v)
			t.define(x, okn)
			t.line(ind, "let %s := (%s %s)", t.nm(v), m, glBind(k, pk))
			t.line(ind, "let %s := (Option.isSome %s)", t.nm(okn), t.nm(v))
			return
		}
	}
	if len(x.Lhs) > 1 && len(x.Rhs) == 1 {
		var parts []string
		if tup, ok := t.fn.Tuples[glSrc(x.Rhs[0])]; ok {
			parts = tup
		} else if call, ok := x.Rhs[0].(*ast.CallExpr); ok {
			n := 0
			if lib, ok := glLibs[glText(call.Fun)]; ok {
				n = lib.nres
			} else if sig, ok := glSigs[glText(call.Fun)]; ok {
				n = sig.nres
			}
			if n != len(x.Lhs) {
				t.die(x, "multi-value assignment from %s", glSrc(x.Rhs[0]))
			}
			c, p := t.expr(call)
			v := t.fresh()
			t.line(ind, "let %s := %s", v, glBind(c, p))
			for k := range x.Lhs {
				parts = append(parts, strings.Replace(glProj(k, n), "st__", v, 1))
			}
		} else {
			t.die(x, "multi-value assignment")
		}
		if len(parts) != len(x.Lhs) {
			t.die(x, "multi-value assignment: %d results for %d targets", len(parts), len(x.Lhs))
		}
		for k, l := range x.Lhs {
			n := t.lhsName(l)
			if n == "" {
				t.die(x, "assignment target")
			}
			if n == "_" {
				continue
			}
			if x.Tok == token.DEFINE && !t.scope[n] {
				t.define(x, n)
				t.line(ind, "let mut %s := %s", t.nm(n), parts[k])
			} else {
				t.line(ind, "%s := %s", t.nm(n), parts[k])
			}
		}
		return
	}
	if len(x.Lhs) != len(x.Rhs) {
		t.die(x, "multi-value assignment from a call")
	}
	// Go evaluates all right-hand sides before assigning
	cs, ps := t.exprs(x.Rhs)
	vals := make([]string, len(cs))
	if len(cs) > 1 {
		for i := range cs {
			v := t.fresh()
			t.line(ind, "let %s := %s", v, glBind(cs[i], ps[i]))
			vals[i] = v
		}
	} else {
		vals[0] = glBind(cs[0], ps[0])
	}
	for i, l := range x.Lhs {
		if ie, ok := l.(*ast.IndexExpr); ok && x.Tok == token.ASSIGN {
			n := t.lhsName(ie.X)
			if n == "" {
				// m[a][k] = v  on an array of maps held in a threaded field
				if inner, ok := ie.X.(*ast.IndexExpr); ok && t.mapKind(ie.X) == "bool" {
					arr := t.lhsName(inner.X)
					if arr == "" {
						t.die(x, "nested store target")
					}
					ac, ap := t.expr(inner.Index)
					kc, kp := t.expr(ie.Index)
					a, k, m := t.fresh(), t.fresh(), t.fresh()
					t.line(ind, "let %s := %s", a, glBind(ac, ap))
					t.line(ind, "let %s := %s", k, glBind(kc, kp))
					t.line(ind, "let %s ← Glb.Go.idx %s %s", m, t.nm(arr), a)
					t.line(ind, "%s ← Glb.Go.setG %s %s (Glb.Go.mapPut %s %s %s)", t.nm(arr), t.nm(arr), a, m, k, vals[i])
					continue
				}
				t.die(x, "store target")
			}
			ic, ip := t.expr(ie.Index)
			t.line(ind, "%s ← Glb.Go.set %s %s %s", t.nm(n), t.nm(n), glBind(ic, ip), vals[i])
			continue
		}
		n := t.lhsName(l)
		if n == "" {
			t.die(x, "assignment target")
		}
		if n == "_" {
			continue
		}
		if x.Tok == token.DEFINE && !t.scope[n] {
			t.define(x, n)
			if _, isConst := glConst(x.Rhs[i]); isConst {
				t.line(ind, "let mut %s : Int := %s", t.nm(n), vals[i])
			} else {
				t.line(ind, "let mut %s := %s", t.nm(n), vals[i])
			}
		} else {
			t.line(ind, "%s := %s", t.nm(n), vals[i])
		}
	}
}

// ptrArg: the Lean variable behind a pointer argument: a pointer parameter `buf`, `&local`, or
// `&x.field` where the field is a threaded variable (Ptr + Env)
func (t *glTr) ptrArg(a ast.Expr) string {
	if id, ok := a.(*ast.Ident); ok && t.fn.Ptr[id.Name] {
		return t.nm(id.Name)
	}
	if u, ok := a.(*ast.UnaryExpr); ok && u.Op == token.AND {
		if id, ok := u.X.(*ast.Ident); ok && t.scope[id.Name] {
			return t.nm(id.Name)
		}
		if n := t.lhsName(u.X); n != "" {
			return t.nm(n)
		}
	}
	return ""
}

// recPrefix: leading arguments of a call to a recursive (fuel-taking) function
func (t *glTr) recPrefix(name string, sig *glSig) []string {
	if !sig.rec {
		return nil
	}
	pre := []string{"fuel__"}
	if sig.extra != "" {
		pre = append(pre, sig.extra)
	}
	return pre
}

// callStmt: a call whose results are dropped; pointer parameters are threaded.
func (t *glTr) callStmt(ind int, call *ast.CallExpr) {
	name := glText(call.Fun)
	if name == "delete" && len(call.Args) == 2 {
		if inner, ok := call.Args[0].(*ast.IndexExpr); ok && t.mapKind(call.Args[0]) == "bool" {
			arr := t.lhsName(inner.X)
			if arr == "" {
				t.die(call, "delete target")
			}
			ac, ap := t.expr(inner.Index)
			kc, kp := t.expr(call.Args[1])
			a, k, m := t.fresh(), t.fresh(), t.fresh()
			t.line(ind, "let %s := %s", a, glBind(ac, ap))
			t.line(ind, "let %s := %s", k, glBind(kc, kp))
			t.line(ind, "let %s ← Glb.Go.idx %s %s", m, t.nm(arr), a)
			t.line(ind, "%s ← Glb.Go.setG %s %s (Glb.Go.mapDel %s %s)", t.nm(arr), t.nm(arr), a, m, k)
			return
		}
		t.die(call, "delete")
	}
	sig, ok := glSigs[name]
	if !ok {
		t.die(call, "call statement of unknown function %s", name)
	}
	var outs []string
	args := []string{}
	for i, a := range call.Args {
		if i < len(sig.ptr) && sig.ptr[i] {
			n := t.ptrArg(a)
			if n == "" {
				t.die(call, "pointer argument must be a pointer parameter, &local or a threaded &field")
			}
			outs = append(outs, n)
			args = append(args, n)
			continue
		}
		c, p := t.expr(a)
		args = append(args, glBind(c, p))
	}
	if len(outs) == 0 || sig.nres != 0 {
		t.die(call, "call statement %s: unsupported shape", name)
	}
	args = append(t.recPrefix(name, sig), args...)
	if len(outs) == 1 {
		t.line(ind, "%s ← %s %s", outs[0], sig.callee(), strings.Join(args, " "))
	} else {
		v := t.fresh()
		t.line(ind, "let %s ← %s %s", v, sig.callee(), strings.Join(args, " "))
		for i, o := range outs {
			t.line(ind, "%s := %s", o, strings.Replace(glProj(i, len(outs)), "st__", v, 1))
		}
	}
}

// assigned collects the variables a statement list assigns that are declared outside it.
func (t *glTr) assigned(nodes ...ast.Node) []string {
	seen := map[string]bool{}
	local := map[string]bool{}
	var order []string
	add := func(n string) {
		if n == "" || n == "_" || local[n] || seen[n] || !t.scope[n] {
			return
		}
		seen[n] = true
		order = append(order, n)
	}
	for _, nd := range nodes {
		if nd == nil {
			continue
		}
		ast.Inspect(nd, func(n ast.Node) bool {
			if as, ok := n.(*ast.AssignStmt); ok && as.Tok == token.ASSIGN && len(as.Lhs) == 1 && len(as.Rhs) == 1 {
				if call, ok := as.Rhs[0].(*ast.CallExpr); ok && len(call.Args) == 1 {
					if rw, ok := t.fn.Rewrite[glText(as.Lhs[0])+" = "+glText(call.Fun)+"($1)"]; ok {
						for _, l := range strings.Split(rw, "\n") {
							f := strings.Fields(l)
							if len(f) >= 2 && (f[1] == ":=" || f[1] == "←") {
								add(f[0])
							}
						}
						return false
					}
				}
			}
			if st, ok := n.(ast.Stmt); ok {
				for pre, rw := range t.fn.RewritePrefix {
					if strings.HasPrefix(glSrc(st), pre) {
						for _, l := range strings.Split(rw, "\n") {
							f := strings.Fields(l)
							if len(f) >= 2 && (f[1] == ":=" || f[1] == "←") {
								add(f[0])
							}
						}
						return false
					}
				}
				if rw, ok := t.fn.Rewrite[glSrc(st)]; ok {
					for _, l := range strings.Split(rw, "\n") {
						f := strings.Fields(l)
						if len(f) >= 2 && (f[1] == ":=" || f[1] == "←") {
							add(f[0])
						}
					}
					return false
				}
			}
			switch x := n.(type) {
			case *ast.AssignStmt:
				for _, l := range x.Lhs {
					name := t.lhsName(l)
					if ie, ok := l.(*ast.IndexExpr); ok {
						name = t.lhsName(ie.X)
						if inner, ok := ie.X.(*ast.IndexExpr); ok && name == "" {
							name = t.lhsName(inner.X)
						}
					}
					if x.Tok == token.DEFINE && !t.scope[name] {
						local[name] = true
						continue
					}
					add(name)
				}
			case *ast.IncDecStmt:
				add(t.lhsName(x.X))
			case *ast.DeclStmt:
				if gd, ok := x.Decl.(*ast.GenDecl); ok {
					for _, sp := range gd.Specs {
						if vs, ok := sp.(*ast.ValueSpec); ok {
							for _, id := range vs.Names {
								if t.scope[id.Name] {
									t.die(x, "declaration shadows %s", id.Name)
								}
								local[id.Name] = true
							}
						}
					}
				}
			case *ast.RangeStmt:
				for _, e := range []ast.Expr{x.Key, x.Value} {
					if id, ok := e.(*ast.Ident); ok && id.Name != "_" {
						if t.scope[id.Name] {
							t.die(x, "range variable shadows %s", id.Name)
						}
						local[id.Name] = true
					}
				}
			case *ast.CallExpr:
				if glText(x.Fun) == "delete" && len(x.Args) == 2 {
					if inner, ok := x.Args[0].(*ast.IndexExpr); ok {
						add(t.lhsName(inner.X))
					}
				}
				if sig, ok := glSigs[glText(x.Fun)]; ok {
					for i, a := range x.Args {
						if i < len(sig.ptr) && sig.ptr[i] {
							if id, ok := a.(*ast.Ident); ok {
								add(id.Name)
							} else if u, ok := a.(*ast.UnaryExpr); ok {
								if n := t.lhsName(u.X); n != "" {
									add(n)
								} else {
									add(glText(u.X))
								}
							}
						}
					}
				}
			}
			return true
		})
	}
	for i := range order {
		order[i] = t.nm(order[i])
	}
	return order
}

// fuelFor: iterations + 1 evaluations of the condition suffice; the tie theorems prove it.
func (t *glTr) fuelFor(ord int, init ast.Stmt, cond ast.Expr, post ast.Stmt) string {
	if f, ok := t.fn.Fuel[ord]; ok {
		return f
	}
	// shapes `i < E` / `i <= E` with `i++`, `i > E` / `i >= E` with `i--`, E pure
	be, ok := cond.(*ast.BinaryExpr)
	if !ok {
		t.die(cond, "loop %d: no fuel rule (add Fuel[%d])", ord, ord)
	}
	id, ok := be.X.(*ast.Ident)
	inc, ok2 := post.(*ast.IncDecStmt)
	if !ok || !ok2 || glText(inc.X) != id.Name {
		t.die(cond, "loop %d: no fuel rule (add Fuel[%d])", ord, ord)
	}
	bound, pure := t.expr(be.Y)
	if !pure {
		t.die(cond, "loop %d: impure bound", ord)
	}
	up := (be.Op == token.LSS || be.Op == token.LEQ) && inc.Tok == token.INC
	down := (be.Op == token.GTR || be.Op == token.GEQ) && inc.Tok == token.DEC
	if up {
		return "(" + bound + " - " + t.nm(id.Name) + " + 2).toNat"
	}
	if down {
		return "(" + t.nm(id.Name) + " - " + bound + " + 2).toNat"
	}
	t.die(cond, "loop %d: no fuel rule (add Fuel[%d])", ord, ord)
	return ""
}

func (t *glTr) forStmt(ind int, init ast.Stmt, cond ast.Expr, post ast.Stmt, body *ast.BlockStmt, pre func(ind int)) {
	ord := t.loopOrd
	t.loopOrd++
	// the loop variable of the init statement lives in the loop's state and is dropped afterwards
	var loopLocals []string
	saved := map[string]bool{}
	for k, v := range t.scope {
		saved[k] = v
	}
	if init != nil {
		if as, ok := init.(*ast.AssignStmt); ok && as.Tok == token.DEFINE {
			for _, l := range as.Lhs {
				if id, ok := l.(*ast.Ident); ok {
					if t.scope[id.Name] {
						t.die(init, "loop variable shadows %s", id.Name)
					}
					loopLocals = append(loopLocals, id.Name)
				}
			}
		}
		t.stmt(ind, init)
		for i := range loopLocals {
			loopLocals[i] = t.nm(loopLocals[i])
		}
	}
	var postNode ast.Node
	if post != nil {
		postNode = post
	}
	state := t.assigned(body, postNode)
	for _, l := range loopLocals {
		found := false
		for _, s := range state {
			found = found || s == l
		}
		if !found {
			state = append([]string{l}, state...)
		}
	}
	if cond == nil {
		t.die(body, "loop %d: for without condition", ord)
	}
	fuel := t.fuelFor(ord, init, cond, post)
	n := len(state)
	unpack := func(ind int, mut bool) {
		kw := "let"
		if mut {
			kw = "let mut"
		}
		for k, v := range state {
			t.line(ind, "%s %s := %s", kw, v, glProj(k, n))
		}
	}
	r := t.fresh()
	t.line(ind, "let %s ← Glb.Go.loop %s %s", r, t.tuple(state), fuel)
	// condition
	t.line(ind+1, "(fun st__ => do")
	unpack(ind+2, false)
	cc, cp := t.expr(cond)
	t.line(ind+2, "%s)", func() string {
		if cp {
			return "pure " + cc
		}
		return cc
	}())
	// body
	t.line(ind+1, "(fun st__ => do")
	unpack(ind+2, true)
	t.loops = append(t.loops, &glLoop{state: state})
	if pre != nil {
		pre(ind + 2)
	}
	for _, s := range body.List {
		t.stmt(ind+2, s)
	}
	t.line(ind+2, "return Glb.Go.Ctl.next %s)", t.tuple(state))
	t.loops = t.loops[:len(t.loops)-1]
	// post
	t.line(ind+1, "(fun st__ => do")
	unpack(ind+2, true)
	if post != nil {
		t.stmt(ind+2, post)
	}
	t.line(ind+2, "return %s)", t.tuple(state))
	// after the loop
	t.line(ind, "match %s with", r)
	if len(t.loops) > 0 {
		t.line(ind, "| .inr v__ => return Glb.Go.Ctl.ret v__")
	} else {
		t.line(ind, "| .inr v__ => return v__")
	}
	t.line(ind, "| .inl st__ =>")
	wrote := false
	for k, v := range state {
		isLocal := false
		for _, l := range loopLocals {
			isLocal = isLocal || l == v
		}
		if isLocal {
			continue
		}
		t.line(ind+1, "%s := %s", v, glProj(k, n))
		wrote = true
	}
	if !wrote {
		t.line(ind+1, "pure ()")
	}
	// names declared inside the loop are gone
	for k := range t.scope {
		if !saved[k] {
			delete(t.scope, k)
			delete(t.alias, k)
		}
	}
}

// rangeStmt: `for i := range xs`, `for i, v := range xs`, `for _, v := range xs` over a slice
// (`xs` is evaluated once; ranging over a string with a value variable decodes runes and is refused).
func (t *glTr) rangeStmt(ind int, x *ast.RangeStmt) {
	if x.Tok != token.DEFINE {
		t.die(x, "range without :=")
	}
	xs, p := t.expr(x.X)
	if !p {
		t.die(x, "impure range operand")
	}
	key := "_"
	if id, ok := x.Key.(*ast.Ident); ok {
		key = id.Name
	}
	if key == "_" {
		key = fmt.Sprintf("i_rng__%d", t.loopOrd)
	}
	val := ""
	if x.Value != nil {
		if id, ok := x.Value.(*ast.Ident); ok && id.Name != "_" {
			val = id.Name
		}
	}
	if val != "" && !t.fn.Ptr["range-bytes:"+glText(x.X)] && !t.fn.Ptr["range-elems"] {
		t.die(x, "range with a value variable over %s: declare it a byte slice (Ptr[\"range-bytes:%s\"])", glText(x.X), glText(x.X))
	}
	if t.scope[key] {
		t.die(x, "range key shadows %s", key)
	}
	rngLen := fmt.Sprintf("n_rng__%d", t.loopOrd)
	t.line(ind, "let %s : Int := Glb.Go.len %s", rngLen, xs)
	t.define(x, rngLen)
	t.define(x, key)
	goKey := key
	key = t.nm(key)
	t.line(ind, "let mut %s : Int := 0", key)
	cond := &ast.BinaryExpr{X: ast.NewIdent(goKey), Op: token.LSS, Y: ast.NewIdent(rngLen)}
	post := &ast.IncDecStmt{X: ast.NewIdent(goKey), Tok: token.INC}
	var pre func(int)
	if val != "" {
		pre = func(ind int) {
			t.define(x, val)
			t.line(ind, "let mut %s ← Glb.Go.idx %s %s", t.nm(val), xs, key)
		}
	}
	// the key is loop-local
	t.forStmtRange(ind, key, cond, post, x.Body, pre)
	for _, n := range []string{rngLen, goKey, val} {
		delete(t.scope, n)
		delete(t.alias, n)
	}
}

func (t *glTr) forStmtRange(ind int, key string, cond ast.Expr, post ast.Stmt, body *ast.BlockStmt, pre func(int)) {
	// same as forStmt with the key as loop-local state component (already declared)
	ord := t.loopOrd
	t.loopOrd++
	saved := map[string]bool{}
	for k, v := range t.scope {
		saved[k] = v
	}
	state := t.assigned(body)
	state = append([]string{key}, func() []string {
		out := []string{}
		for _, s := range state {
			if s != key {
				out = append(out, s)
			}
		}
		return out
	}()...)
	fuel := t.fuelFor(ord, nil, cond, post)
	n := len(state)
	unpack := func(ind int, mut bool) {
		kw := "let"
		if mut {
			kw = "let mut"
		}
		for k, v := range state {
			t.line(ind, "%s %s := %s", kw, v, glProj(k, n))
		}
	}
	r := t.fresh()
	t.line(ind, "let %s ← Glb.Go.loop %s %s", r, t.tuple(state), fuel)
	t.line(ind+1, "(fun st__ => do")
	unpack(ind+2, false)
	cc, _ := t.expr(cond)
	t.line(ind+2, "pure %s)", cc)
	t.line(ind+1, "(fun st__ => do")
	unpack(ind+2, true)
	t.loops = append(t.loops, &glLoop{state: state})
	if pre != nil {
		pre(ind + 2)
	}
	for _, s := range body.List {
		t.stmt(ind+2, s)
	}
	t.line(ind+2, "return Glb.Go.Ctl.next %s)", t.tuple(state))
	t.loops = t.loops[:len(t.loops)-1]
	t.line(ind+1, "(fun st__ => do")
	unpack(ind+2, true)
	t.stmt(ind+2, post)
	t.line(ind+2, "return %s)", t.tuple(state))
	t.line(ind, "match %s with", r)
	if len(t.loops) > 0 {
		t.line(ind, "| .inr v__ => return Glb.Go.Ctl.ret v__")
	} else {
		t.line(ind, "| .inr v__ => return v__")
	}
	t.line(ind, "| .inl st__ =>")
	wrote := false
	for k, v := range state {
		if v == key {
			continue
		}
		t.line(ind+1, "%s := %s", v, glProj(k, n))
		wrote = true
	}
	if !wrote {
		t.line(ind+1, "pure ()")
	}
	for k := range t.scope {
		if !saved[k] {
			delete(t.scope, k)
			delete(t.alias, k)
		}
	}
}

// ---------------------------------------------------------------------------------------------

func glTranslate(u glUnit) {
	defer func() {
		if r := recover(); r != nil {
			ref, ok := r.(glRefusal)
			if !ok {
				er, ok2 := r.(extractRefusal)
				if !ok2 {
					panic(r)
				}
				ref = glRefusal{er.msg}
			}
			stub := fmt.Sprintf("-- GENERATED by /verif/tools/extract (golean.go). The translator REFUSED this unit as the source is now:\n--   %s\nimport Glb.Go.Prelude\nnamespace %s\ndef translatorRefused : String := %q\nend %s\n", ref.msg, u.NS, ref.msg, u.NS)
			writeIfChanged(u.Module, stub)
			facts["golean."+u.Module] = map[string]any{"refused": ref.msg}
			fmt.Fprintf(os.Stderr, "extract: golean refused %s: %s\n", u.Module, ref.msg)
		}
	}()
	glTranslateUnit(u)
}

func glTranslateUnit(u glUnit) {
	var b strings.Builder
	files := map[string]*ast.File{}
	srcs := []string{}
	for _, f := range u.Funcs {
		if files[f.File] == nil {
			full := filepath.Join(repo, f.File)
			if strings.HasPrefix(f.File, "@verif/") {
				// the translator's own self-test corpus lives in /verif, not in the repository
				full = filepath.Join(filepath.Dir(filepath.Dir(filepath.Dir(outDir))), strings.TrimPrefix(f.File, "@verif/"))
			}
			pf, err := parser.ParseFile(fset, full, nil, parser.ParseComments)
			if err != nil {
				die("golean: parse %s: %v", f.File, err)
			}
			files[f.File] = pf
			srcs = append(srcs, f.File)
			data, err := os.ReadFile(full)
			if err != nil {
				die("golean: %v", err)
			}
			glFileBytes[full] = data
		}
	}
	sort.Strings(srcs)
	fmt.Fprintf(&b, "-- GENERATED by /verif/tools/extract (golean.go) from /repo/{%s} — do not edit; rewritten on every run.\n", strings.Join(srcs, ", "))
	fmt.Fprintf(&b, "import Glb.Go.Prelude\n")
	for _, im := range u.Imports {
		fmt.Fprintf(&b, "import %s\n", im)
	}
	fmt.Fprintf(&b, "set_option linter.unusedVariables false\n\nnamespace %s\n", u.NS)
	names := []string{}
	for i := range u.Funcs {
		f := &u.Funcs[i]
		decl := findFunc(files[f.File], f.Recv, f.Name)
		if decl == nil || decl.Body == nil {
			panic(glRefusal{fmt.Sprintf("%s: function %s not found", f.File, f.Name)})
		}
		lean := f.Lean
		if lean == "" {
			lean = f.Name
		}
		t := &glTr{fn: f, decl: decl, file: files[f.File], b: &b, scope: map[string]bool{}, alias: map[string]string{}, count: map[string]int{}}
		sig := &glSig{lean: u.NS + "." + lean, extra: f.Extra, rec: f.Rec}
		if decl.Recv != nil {
			for _, fld := range decl.Recv.List {
				for _, n := range fld.Names {
					t.define(n, n.Name)
				}
			}
		}
		for _, fld := range decl.Type.Params.List {
			for _, n := range fld.Names {
				t.define(n, n.Name)
				isPtr := f.Ptr[n.Name]
				sig.ptr = append(sig.ptr, isPtr)
				if isPtr {
					t.ptrs = append(t.ptrs, n.Name)
				}
			}
		}
		if decl.Type.Results != nil {
			for _, fld := range decl.Type.Results.List {
				k := len(fld.Names)
				if k == 0 {
					k = 1
				}
				sig.nres += k
				for _, n := range fld.Names {
					// named results are ordinary variables here; bare returns are refused
					_ = n
				}
			}
		}
		for _, v := range f.Thread {
			t.define(decl, v)
			t.ptrs = append(t.ptrs, v)
		}
		fmt.Fprintf(&b, "\n/-- `%s` (%s:%d) -/\n", f.Name, f.File, fset.Position(decl.Pos()).Line)
		if f.Rec {
			glSigs[f.Name] = sig
			// binder names of Args, in order
			var names []string
			for _, grp := range strings.Split(f.Args, ")") {
				grp = strings.TrimSpace(strings.TrimPrefix(strings.TrimSpace(grp), "("))
				if i := strings.Index(grp, ":"); i > 0 {
					names = append(names, strings.Fields(grp[:i])...)
				}
			}
			fmt.Fprintf(&b, "def %s (fuel__ : Nat) %s : Glb.Go.M %s :=\n  match fuel__ with\n  | 0 => .error (.other \"fuel\")\n  | fuel__ + 1 => do\n", lean, f.Args, f.Ret)
			_ = names
			t.base = 2
		} else {
			fmt.Fprintf(&b, "def %s %s : Glb.Go.M %s := do\n", lean, f.Args, f.Ret)
		}
		for _, p := range t.ptrs {
			t.line(1, "let mut %s := %s", t.nm(p), t.nm(p))
		}
		for _, fld := range decl.Type.Params.List {
			for _, n := range fld.Names {
				if !f.Ptr[n.Name] && glParamAssigned(decl.Body, n.Name) && glWordIn(f.Args, n.Name) {
					t.line(1, "let mut %s := %s", n.Name, n.Name)
				}
			}
		}
		// named results are ordinary variables initialised to their zero values (bare `return` is refused)
		if decl.Type.Results != nil {
			for _, fld := range decl.Type.Results.List {
				for _, n := range fld.Names {
					if !glIdentUsed(decl.Body, n.Name) {
						continue
					}
					ty := glType(fld.Type)
					if ty == "" {
						if f.Env["zero:"+n.Name] == "" {
							continue // a named result that is never read as a variable is harmless; a use is refused as unknown identifier
						}
						t.define(n, n.Name)
						t.line(1, "let mut %s := %s", t.nm(n.Name), f.Env["zero:"+n.Name])
						continue
					}
					t.define(n, n.Name)
					t.line(1, "let mut %s : %s := %s", t.nm(n.Name), ty, glZero(ty))
				}
			}
		}
		for _, s := range decl.Body.List {
			t.stmt(1, s)
		}
		if sig.nres == 0 {
			t.line(1, "%s", t.returnCode(nil))
		}
		glSigs[f.Name] = sig
		if f.Recv != "" {
			glSigs[f.Recv+"."+f.Name] = sig
			glSigs["method:"+f.Name] = sig
		}
		names = append(names, f.Name)
	}
	fmt.Fprintf(&b, "\nend %s\n", u.NS)
	writeIfChanged(u.Module, b.String())
	facts["golean."+u.Module] = names
}

// glIotaConst: `const ( a T = iota; b; c )` — the value of a name is its position in the block.
func glIotaConst(f *ast.File, name string) (string, bool) {
	for _, d := range f.Decls {
		gd, ok := d.(*ast.GenDecl)
		if !ok || gd.Tok != token.CONST || len(gd.Specs) == 0 {
			continue
		}
		first := gd.Specs[0].(*ast.ValueSpec)
		if len(first.Values) != 1 || glText(first.Values[0]) != "iota" {
			continue
		}
		for i, sp := range gd.Specs {
			vs := sp.(*ast.ValueSpec)
			if i > 0 && len(vs.Values) != 0 {
				break
			}
			for _, n := range vs.Names {
				if n.Name == name {
					return strconv.Itoa(i), true
				}
			}
		}
	}
	return "", false
}

// glWordIn: does the Lean binder list mention the identifier (a Go parameter that is modelled differently,
// e.g. a walked pointer, has no Lean parameter of its own)
func glWordIn(args, name string) bool {
	for _, w := range strings.FieldsFunc(args, func(r rune) bool { return !(r == '_' || r >= '0' && r <= '9' || r >= 'a' && r <= 'z' || r >= 'A' && r <= 'Z') }) {
		if w == name {
			return true
		}
	}
	return false
}

func glIdentUsed(body *ast.BlockStmt, name string) bool {
	found := false
	ast.Inspect(body, func(n ast.Node) bool {
		if id, ok := n.(*ast.Ident); ok && id.Name == name {
			found = true
		}
		return true
	})
	return found
}

func glParamAssigned(body *ast.BlockStmt, name string) bool {
	found := false
	ast.Inspect(body, func(n ast.Node) bool {
		switch x := n.(type) {
		case *ast.AssignStmt:
			if x.Tok != token.DEFINE {
				for _, l := range x.Lhs {
					if glText(l) == name {
						found = true
					}
				}
			}
		case *ast.IncDecStmt:
			if glText(x.X) == name {
				found = true
			}
		}
		return true
	})
	return found
}

// glQualify makes the functions of an earlier unit callable as pkg.Name from later units.
func glQualify(pkg string, names ...string) {
	for _, n := range names {
		if s, ok := glSigs[n]; ok {
			glSigs[pkg+"."+n] = s
		}
	}
}

func extractGoLean() {
	// One unit per property, so that a refusal (or a change) in code a property does not speak about
	// cannot break that property's tie: TrShell (C16) | TrStrutil (supporting code).
	glTranslate(glUnit{
		Module: "TrShell", NS: "Glb.Tr.Strutil",
		Funcs: []glFunc{
			{File: "util/strutil/strutil.go", Name: "ShellEscape", Args: "(s : Bytes)", Ret: "Bytes"},
			{File: "util/strutil/strutil.go", Name: "ShellEscapeExceptTilde", Args: "(s : Bytes)", Ret: "Bytes"},
		},
	})
	glTranslate(glUnit{
		Module: "TrStrutil", NS: "Glb.Tr.Strutil",
		Imports: []string{"Glb.Generated.TrShell", "Glb.Generated.TrUnderscore"},
		Funcs: []glFunc{
			{File: "util/strutil/strutil.go", Name: "SliceContain", Args: "(slice : List Bytes) (value : Bytes)", Ret: "Bool"},
			{File: "util/strutil/strutil.go", Name: "IsDigitString", Args: "(s : Bytes)", Ret: "Bool"},
			{File: "util/strutil/strutil.go", Name: "Camelize", Args: "(s : Bytes) (upper : Bool)", Ret: "Bytes"},
		},
	})
	// TrUnderscore (C09: the environment-variable name of a flag is Underscore(name, true))
	glTranslate(glUnit{
		Module: "TrUnderscore", NS: "Glb.Tr.Strutil",
		Funcs: []glFunc{
			{File: "util/strutil/strutil.go", Name: "Underscore", Args: "(s : Bytes) (upper : Bool)", Ret: "Bytes"},
		},
	})
	glQualify("strutil", "SliceContain", "ShellEscape", "ShellEscapeExceptTilde", "IsDigitString", "Camelize", "Underscore")

	tables := map[string]string{
		"smallsString": "Glb.Generated.smallsString", "safeSet": "Glb.Generated.safeSet", "hex": "Glb.Generated.hex",
		"labelList": "Glb.Generated.labelList", "utf8.RuneSelf": "128", "utf8.RuneError": "65533",
		"f.File": "file", "f.Line": "line",
	}
	bufI := "(buf : Bytes) (i : Int)"
	ptrBuf := map[string]bool{"buf": true}
	frame := []string{"f, _ := runtime.CallersFrames"}
	// TrJson (C01): the string escaper, the source attribute, the level label | TrLogger (supporting code)
	// TrLevel: the level label (level.go), shared by the JSON (C01) and Text (C13) handlers
	glTranslate(glUnit{
		Module: "TrLevel", NS: "Glb.Tr.Logger",
		Imports: []string{"Glb.Generated.Logger"},
		Funcs: []glFunc{
			{File: "logger/level.go", Name: "appendFullLevel", Args: "(buf : Bytes) (l : Int) (colorful : Bool)", Ret: "Bytes", Ptr: ptrBuf, Env: tables},
		},
	})
	glTranslate(glUnit{
		Module: "TrJson", NS: "Glb.Tr.Logger",
		Imports: []string{"Glb.Go.LibUtf8", "Glb.Generated.Logger", "Glb.Generated.TrLevel"},
		Funcs: []glFunc{
			{File: "logger/json_handler.go", Name: "appendJsonString", Args: "(buf : Bytes) (str : Bytes)", Ret: "Bytes", Ptr: ptrBuf, Env: tables,
				Fuel: map[int]string{0: "(Glb.Go.len str + 1).toNat"}},
			{File: "logger/json_handler.go", Name: "appendJsonSource", Args: "(buf : Bytes) (file : Bytes) (line : Int)", Ret: "Bytes", Ptr: ptrBuf, Env: tables, Skip: frame},
		},
	})
	// TrJsonAttr (C01): the separator / group bookkeeping of appendJsonAttr (recursive: fuel). slog.Attr is the
	// model's resolved attribute tree; appendJsonValue (leaf rendering through the standard library) is the
	// model's leaf writer.
	glTranslate(glUnit{
		Module: "TrJsonAttr", NS: "Glb.Tr.Logger",
		Imports: []string{"Glb.Go.LibJson", "Glb.Generated.TrJson"},
		Funcs: []glFunc{
			{File: "logger/json_handler.go", Name: "appendJsonAttr", Rec: true,
				Args: "(buf : Bytes) (a : Glb.JsonHandler.Attr) (addSep : Bool) (colorful : Bool)", Ret: "(Bytes × Bool)",
				Ptr:    map[string]bool{"buf": true, "range-elems": true},
				Env:    map[string]string{"slog.KindGroup": "true"},
				Fields: map[string]string{"Key": "Glb.Go.LibJson.keyOf"},
				Tuples: map[string][]string{"a.Value.Kind()": {"(Glb.Go.LibJson.isGroup a)"}, "a.Value.Group()": {"(Glb.Go.LibJson.groupOf a)"}},
				Skip:    []string{"a.Value = a.Value.Resolve()"},
				Rewrite: map[string]string{"appendJsonValue(buf, a.Value, colorful)": "buf := buf ++ Glb.Go.LibJson.valueBytes a"}},
		},
	})
	// TrJsonHandler (C01): the three Handler methods at the level of VALUES (what is written, which state
	// the derived handler has). clone()/slices.Clip, the buffer pool and the lock are the business of the
	// aliasing model (C03) and the protocol model (C02): here h2's fields are threaded variables that start
	// as h's, `buf` starts empty, and the final Write is left out.
	jh := map[string]string{
		"h2.preformatted": "pre", "h2.addSep": "addSep", "h2.nOpenGroups": "nOpen", "h2.Options.colorful": "false", "h2": "()", "h": "()",
		"h.preformatted": "pre", "h.addSep": "addSep", "h.nOpenGroups": "nOpen", "h.Options.colorful": "false", "h.Options.addSource": "addSource",
		"slog.TimeKey": "Glb.JsonHandler.kTime", "slog.LevelKey": "Glb.JsonHandler.kLevel", "slog.SourceKey": "Glb.JsonHandler.kSource", "slog.MessageKey": "Glb.JsonHandler.kMsg",
		"r.Level": "level", "r.Message": "msg", "err": "()", "attrs": "attrs",
	}
	jhPtr := map[string]bool{"h2.preformatted": true, "h2.addSep": true, "h2.nOpenGroups": true, "range-elems": true}
	hArgs := "(pre : Bytes) (nOpen : Int) (addSep : Bool)"
	hRet := "(Bytes × Int × Bool × Unit)"
	glTranslate(glUnit{
		Module: "TrJsonHandler", NS: "Glb.Tr.Logger",
		Imports: []string{"Glb.Go.LibJson", "Glb.Generated.TrJson", "Glb.Generated.TrJsonAttr"},
		Funcs: []glFunc{
			{File: "logger/json_handler.go", Recv: "JsonHandler", Name: "WithGroup", Lean: "Json_WithGroup", Args: hArgs + " (name : Bytes)", Ret: hRet,
				Env: jh, Ptr: jhPtr, Thread: []string{"pre", "nOpen", "addSep"}, Skip: []string{"h2 := h.clone()"}},
			{File: "logger/json_handler.go", Recv: "JsonHandler", Name: "WithAttrs", Lean: "Json_WithAttrs", Args: "(fuel__ : Nat) " + hArgs + " (attrs : List Glb.JsonHandler.Attr)", Ret: hRet,
				Env: jh, Ptr: jhPtr, Thread: []string{"pre", "nOpen", "addSep"}, Skip: []string{"h2 := h.clone()"}},
			{File: "logger/json_handler.go", Recv: "JsonHandler", Name: "Handle", Lean: "Json_Handle",
				Args: "(fuel__ : Nat) (buf : Bytes) (addSource : Bool) (pre : Bytes) (nOpen : Int) (addSep0 : Bool) (time : Bytes) (level : Int) (file : Bytes) (line : Int) (msg : Bytes) (attrs : List Glb.JsonHandler.Attr)",
				Ret: "(Bytes × Unit)",
				Env: func() map[string]string {
					m := map[string]string{}
					for k, v := range jh {
						m[k] = v
					}
					m["h.addSep"] = "addSep0"
					return m
				}(),
				Ptr: map[string]bool{"buf": true, "range-elems": true}, Thread: []string{"buf"},
				Iter:   map[string]string{"r.Attrs": "attrs"},
				Tuples: map[string][]string{"r.NumAttrs()": {"(Glb.Go.len attrs)"}},
				Skip:   []string{"defer freeBuffer(buf)", "h.outMu.Lock()", "defer h.outMu.Unlock()"},
				Rewrite: map[string]string{
					"buf := newBuffer()": "pure ()",
					"*buf = r.Time.AppendFormat(*buf, time.RFC3339Nano)": "buf := buf ++ time",
					"appendJsonSource(buf, r.PC)":                         "buf ← Glb.Tr.Logger.appendJsonSource buf file line",
					"_, err := h.out.Write(*buf)":                         "pure ()",
				}},
		},
	})
	glTranslate(glUnit{
		Module: "TrLogger", NS: "Glb.Tr.Logger",
		Imports: []string{"Glb.Go.LibUtf8", "Glb.Generated.Logger", "Glb.Generated.TrJson"},
		Funcs: []glFunc{
			{File: "logger/buffer.go", Name: "appendIntWidth1", Args: bufI, Ret: "Bytes", Ptr: ptrBuf, Env: tables},
			{File: "logger/buffer.go", Name: "appendIntWidth2", Args: bufI, Ret: "Bytes", Ptr: ptrBuf, Env: tables},
			{File: "logger/buffer.go", Name: "appendIntWidth3", Args: bufI, Ret: "Bytes", Ptr: ptrBuf, Env: tables},
			{File: "logger/buffer.go", Name: "appendIntWidth4", Args: bufI, Ret: "Bytes", Ptr: ptrBuf, Env: tables},
			{File: "logger/nano_handler.go", Name: "appendDateTime", Args: "(buf : Bytes) (year0 month0 day0 hour0 min0 sec0 : Int)", Ret: "Bytes", Ptr: ptrBuf,
				Tuples: map[string][]string{"t.Date()": {"year0", "month0", "day0"}, "t.Clock()": {"hour0", "min0", "sec0"}}},
			{File: "logger/level.go", Name: "ValidLevel", Args: "(l : Int)", Ret: "Bool"},
			{File: "logger/level.go", Name: "appendShortLevel", Args: "(buf : Bytes) (l : Int) (colorful : Bool)", Ret: "Bytes", Ptr: ptrBuf, Env: tables},
			{File: "logger/nano_handler.go", Name: "appendNanoSource", Args: "(buf : Bytes) (file : Bytes) (line : Int)", Ret: "Bytes", Ptr: ptrBuf, Env: tables, Skip: frame},
		},
	})
	// TrNano (supporting code; Props/C03b uses the Nano model as a third renderer): appendNanoValue (recursive),
	// WithAttrs, Handle at the level of values
	nh := map[string]string{
		"slog.KindGroup": "true", "a.Value": "a", "h2.preformatted": "pre", "h.preformatted": "pre", "h2": "()", "h": "()",
		"h.Options.colorful": "false", "h.Options.addSource": "addSource", "r.PC": "pc", "r.Level": "level", "r.Message": "msg",
		"attrs": "attrs", "err": "()",
	}
	glTranslate(glUnit{
		Module: "TrNano", NS: "Glb.Tr.Logger",
		Imports: []string{"Glb.Go.LibNano", "Glb.Generated.TrLogger"},
		Funcs: []glFunc{
			{File: "logger/nano_handler.go", Name: "appendNanoValue", Rec: true,
				Args: "(buf : Bytes) (v : Glb.NanoHandler.Attr) (colorful : Bool)", Ret: "Bytes",
				Ptr: map[string]bool{"buf": true, "range-elems": true}, Env: nh,
				Tuples: map[string][]string{"v.Kind()": {"(Glb.Go.LibNano.isGroup v)"}, "v.Group()": {"(Glb.Go.LibNano.groupOf v)"}},
				Skip:          []string{"v = v.Resolve()"},
				RewritePrefix: map[string]string{"switch v.Kind() {": "buf := buf ++ Glb.Go.LibNano.leafBytes v"}},
			{File: "logger/nano_handler.go", Recv: "NanoHandler", Name: "WithAttrs", Lean: "Nano_WithAttrs", Args: "(fuel__ : Nat) (pre : Bytes) (attrs : List Glb.NanoHandler.Attr)", Ret: "(Bytes × Unit)",
				Env: nh, Ptr: map[string]bool{"h2.preformatted": true, "range-elems": true}, Thread: []string{"pre"}, Skip: []string{"h2 := h.clone()"}},
			{File: "logger/nano_handler.go", Recv: "NanoHandler", Name: "Handle", Lean: "Nano_Handle",
				Args: "(fuel__ : Nat) (buf : Bytes) (addSource : Bool) (pre : Bytes) (time : Bytes) (level : Int) (pc : Int) (file : Bytes) (line : Int) (msg : Bytes) (attrs : List Glb.NanoHandler.Attr)",
				Ret: "(Bytes × Unit)", Env: nh, Ptr: map[string]bool{"buf": true, "range-elems": true}, Thread: []string{"buf"},
				Iter:   map[string]string{"r.Attrs": "attrs"},
				Tuples: map[string][]string{"r.NumAttrs()": {"(Glb.Go.len attrs)"}},
				Skip:   []string{"defer freeBuffer(buf)", "h.outMu.Lock()", "defer h.outMu.Unlock()"},
				Rewrite: map[string]string{
					"buf := newBuffer()":           "pure ()",
					"appendDateTime(buf, r.Time)":  "buf := buf ++ time",
					"appendNanoSource(buf, r.PC)":  "buf ← Glb.Tr.Logger.appendNanoSource buf file line",
					"_, err := h.out.Write(*buf)":  "pure ()",
				}},
		},
	})

	glTranslate(glUnit{
		Module: "TrNetutil", NS: "Glb.Tr.Netutil",
		Funcs: []glFunc{
			{File: "util/netutil/ip.go", Name: "SplitHostPort", Args: "(addr : Bytes)", Ret: "(Bytes × Bytes)"},
			{File: "util/netutil/ip.go", Name: "LastIP", Args: "(masked mask : Bytes)", Ret: "Bytes",
				Env:    map[string]string{"cidr.Mask": "mask"},
				Tuples: map[string][]string{"cidr.IP.Mask(cidr.Mask)": {"masked"}}},
		},
	})
	glQualify("netutil", "SplitHostPort")

	glTranslate(glUnit{
		Module: "TrHttpd", NS: "Glb.Tr.Httpd",
		Imports: []string{"Glb.Generated.TrNetutil"},
		Funcs: []glFunc{
			{File: "httpd/store.go", Recv: "Params", Name: "Get", Lean: "Params_Get", Args: "(K V : List Bytes) (key : Bytes)", Ret: "(Bytes × Bool)",
				Env: map[string]string{"ps.K": "K", "ps.V": "V"}},
			{File: "httpd/store.go", Recv: "Store", Name: "GetClientIP", Args: "(hClientIP hForwardedFor hRealIP remote : Bytes)", Ret: "Bytes",
				Env: map[string]string{"store.R.RemoteAddr": "remote"},
				Tuples: map[string][]string{
					`store.R.Header.Get("X-Client-IP")`:       {"hClientIP"},
					`store.R.Header.Get("X-Forwarded-For")`:   {"hForwardedFor"},
					`store.R.Header.Get("X-Real-IP")`:         {"hRealIP"},
				}},
		},
	})

	// TrResolve (C17) | TrFsutil (supporting code)
	glTranslate(glUnit{
		Module: "TrResolve", NS: "Glb.Tr.Fsutil",
		Imports: []string{"Glb.Go.LibPath"},
		Funcs: []glFunc{
			{File: "util/fsutil/path.go", Name: "ResolveUrlPath", Args: "(baseFilePath rawUrlPath : Bytes)", Ret: "Bytes"},
		},
	})
	glTranslate(glUnit{
		Module: "TrFsutil", NS: "Glb.Tr.Fsutil",
		Imports: []string{"Glb.Go.LibPath", "Glb.Generated.TrResolve"},
		Funcs: []glFunc{
			// errors are modelled by "is non-nil"; os.UserHomeDir() is outside the model: its two results are parameters
			{File: "util/fsutil/path.go", Name: "ExpandHomeDir", Args: "(rawFilePath home : Bytes) (homeErr : Bool)", Ret: "(Bytes × Bool)",
				Env:    map[string]string{"nil": "false"},
				Tuples: map[string][]string{"os.UserHomeDir()": {"home", "homeErr"}}},
		},
	})

	glTranslate(glUnit{
		Module: "TrAnsi", NS: "Glb.Tr.Ansi",
		Funcs: []glFunc{
			{File: "ansi/terminfo.go", Name: "ScrollUpN", Args: "(n : Int)", Ret: "Bytes"},
			{File: "ansi/terminfo.go", Name: "ScrollDownN", Args: "(n : Int)", Ret: "Bytes"},
		},
	})

	nodeFields := map[string]string{"next": "Glb.Router.Node.next", "info": "Glb.Router.Node.info", "paramNameList": "Glb.Router.Node.params"}
	routerEnv := map[string]string{
		"methodTagMap": "Glb.Generated.methodTagMap", "MethodAll": "Glb.Generated.methodAll",
		"routeParam": "Glb.Generated.routeParam", "routeParamAny": "Glb.Generated.routeParamAny",
		"nil": "none", "params.K": "pK", "params.V": "pV",
	}
	glTranslate(glUnit{
		Module: "TrRouter", NS: "Glb.Tr.Router",
		Imports: []string{"Glb.Model.Router"},
		Funcs: []glFunc{
			{File: "httpd/tree.go", Recv: "treeNode", Name: "methodNodeOrNil", Args: "(node : Glb.Router.Node) (method : Bytes)", Ret: "(Option Glb.Router.Node)",
				Fields: nodeFields, Env: routerEnv, MapFields: map[string]string{"next": "ptr"}, MapVars: map[string]string{"methodTagMap": "zero"}},
			{File: "httpd/tree.go", Name: "findRoute", Args: "(node : Glb.Router.Node) (path method : Bytes) (pK pV : List Bytes)", Ret: "(List Bytes × List Bytes × Option Glb.Router.RouteId)",
				Fields: nodeFields, Env: routerEnv, MapFields: map[string]string{"next": "ptr"}, MapVars: map[string]string{"methodTagMap": "zero"},
				Ptr: map[string]bool{"params.K": true, "params.V": true}, Thread: []string{"pK", "pV"}},
		},
	})

	glTranslate(glUnit{
		Module: "TrConfig", NS: "Glb.Tr.Config",
		Funcs: []glFunc{
			// field.Tag.Get("flag") and strings.ToLower(field.Name) are outside the model: parameters
			{File: "config/config.go", Name: "parseStructFieldTag", Args: "(tag lowerName : Bytes)", Ret: "(Bytes × Bytes × Bytes)",
				Tuples: map[string][]string{`field.Tag.Get("flag")`: {"tag"}, "strings.ToLower(field.Name)": {"lowerName"}}},
		},
	})

	// TrFilter (C11, C12): the three methods of IPv4Filter; receiver fields are threaded variables,
	// the atomic flag is a Bool, the lock calls are left to the interleaving model of Props/C12b
	filterEnv := map[string]string{
		"f.mode": "mode", "f.index": "index", "f.ipList": "ipList", "f.ipMaps": "ipMaps",
		"cidr.IP": "ipb", "net.IPv4len": "4", "ipv4Masks": "Glb.Generated.ipv4Masks", "listSize": "(Glb.Generated.listSize : Int)",
		"ErrInvalidIPv4CIDR": "true", "nil": "false",
	}
	filterPtr := map[string]bool{"f.mode": true, "f.index": true, "f.ipList": true, "f.ipMaps": true}
	filterLibs := map[string]glLib{
		"binary.BigEndian.Uint32": {"Glb.Go.Lib.be32", false, 1},
		"method:To4":              {"Glb.Go.Lib.to4", true, 1},
	}
	locks := []string{"f.mutex.Lock()", "defer f.mutex.Unlock()", "f.mutex.RLock()", "defer f.mutex.RUnlock()"}
	stArgs := "(matchAll : Bool) (mode : BitVec 32) (index : Int) (ipList : List (List (BitVec 32))) (ipMaps : List (List (BitVec 32 × Bool)))"
	stRet := "(Bool × BitVec 32 × Int × List (List (BitVec 32)) × List (List (BitVec 32 × Bool)) × Bool)"
	thread := []string{"matchAll", "mode", "index", "ipList", "ipMaps"}
	sizeT := map[string][]string{"cidr.Mask.Size()": {"ones0", "bits0"}, "f.matchAll.Load()": {"matchAll"}}
	glTranslate(glUnit{
		Module: "TrFilter", NS: "Glb.Tr.Filter",
		Imports: []string{"Glb.Generated.Filter"},
		Funcs: []glFunc{
			{File: "util/netutil/filter.go", Recv: "IPv4Filter", Name: "Add", Args: stArgs + " (ipb : Bytes) (ones0 bits0 : Int)", Ret: stRet,
				Env: filterEnv, Ptr: filterPtr, Thread: thread, Tuples: sizeT, Skip: locks, U32BV: true, Libs: filterLibs,
				MapFields: map[string]string{"ipMaps": "arr-bool"},
				Rewrite:   map[string]string{"f.matchAll.Store(true)": "matchAll := true"}},
			{File: "util/netutil/filter.go", Recv: "IPv4Filter", Name: "Remove", Args: stArgs + " (ipb : Bytes) (ones0 bits0 : Int)", Ret: stRet,
				Env: filterEnv, Ptr: filterPtr, Thread: thread, Tuples: sizeT, Skip: locks, U32BV: true, Libs: filterLibs,
				MapFields: map[string]string{"ipMaps": "arr-bool"},
				Rewrite:   map[string]string{"f.matchAll.Store(false)": "matchAll := false"}},
			{File: "util/netutil/filter.go", Recv: "IPv4Filter", Name: "Contains", Args: stArgs + " (ip : Bytes)", Ret: "Bool",
				Env: filterEnv, Tuples: sizeT, Skip: locks, U32BV: true, Libs: filterLibs,
				MapFields: map[string]string{"ipMaps": "arr-bool"}},
		},
	})

	// TrText (C13): the quoting decision of the text handler
	textLibs := map[string]glLib{
		"unicode.IsSpace":     {"Glb.Go.LibText.isSpace P", true, 1},
		"unicode.IsPrint":     {"Glb.Go.LibText.isPrint P", true, 1},
		"strconv.AppendQuote": {"Glb.Go.LibText.appendQuote P", true, 1},
	}
	glTranslate(glUnit{
		Module: "TrText", NS: "Glb.Tr.Logger",
		Imports: []string{"Glb.Go.LibUtf8", "Glb.Go.LibText", "Glb.Generated.Logger"},
		Funcs: []glFunc{
			{File: "logger/text_handler.go", Name: "appendTextString", Args: "(P : Glb.TextHandler.Std) (buf : Bytes) (str : Bytes)", Ret: "Bytes", Ptr: ptrBuf, Env: tables, Extra: "P",
				Libs: textLibs, Fuel: map[int]string{0: "(Glb.Go.len str + 1).toNat"}},
		},
	})
	// TrTextSource (C13): the source attribute of the text handler
	glTranslate(glUnit{
		Module: "TrTextSource", NS: "Glb.Tr.Logger",
		Imports: []string{"Glb.Generated.TrText"},
		Funcs: []glFunc{
			{File: "logger/text_handler.go", Name: "appendTextSource", Extra: "P",
				Args: "(P : Glb.TextHandler.Std) (buf : Bytes) (file : Bytes) (line : Int)", Ret: "Bytes", Ptr: ptrBuf, Env: tables, Skip: frame},
		},
	})
	// TrTextAttr (C13): the dotted-prefix bookkeeping of appendTextAttr (recursive: fuel; two threaded buffers)
	glTranslate(glUnit{
		Module: "TrTextAttr", NS: "Glb.Tr.Logger",
		Imports: []string{"Glb.Go.LibTextAttr", "Glb.Generated.TrText"},
		Funcs: []glFunc{
			{File: "logger/text_handler.go", Name: "appendTextAttr", Rec: true, Extra: "P",
				Args: "(P : Glb.TextHandler.Std) (buf : Bytes) (a : Glb.TextHandler.Attr) («prefix» : Bytes) (colorful : Bool)", Ret: "(Bytes × Bytes)",
				Ptr:    map[string]bool{"buf": true, "prefix": true, "range-elems": true},
				Env:    map[string]string{"slog.KindGroup": "true"},
				Fields: map[string]string{"Key": "Glb.Go.LibTextAttr.keyOf"},
				Tuples: map[string][]string{"a.Value.Kind()": {"(Glb.Go.LibTextAttr.isGroup a)"}, "a.Value.Group()": {"(Glb.Go.LibTextAttr.groupOf a)"}},
				Skip:    []string{"a.Value = a.Value.Resolve()"},
				Rewrite: map[string]string{"appendTextValue(buf, a.Value, colorful)": "buf := Glb.Go.LibTextAttr.valueAppend P buf a"}},
		},
	})
	// TrTextHandler (C13): the three Handler methods at the level of values (state: preformatted, groupPrefix)
	th := map[string]string{
		"h2.preformatted": "pre", "h2.groupPrefix": "gp", "h2": "()", "h": "()", "h.preformatted": "pre", "h.groupPrefix": "gp",
		"h.Options.colorful": "false", "h.Options.addSource": "addSource", "attrs": "attrs", "err": "()",
		"slog.TimeKey": "Glb.TextHandler.timeKey", "slog.LevelKey": "Glb.TextHandler.levelKey", "slog.SourceKey": "Glb.TextHandler.sourceKey", "slog.MessageKey": "Glb.TextHandler.msgKey",
		"r.Level": "level", "r.Message": "msg",
	}
	thPtr := map[string]bool{"h2.preformatted": true, "h2.groupPrefix": true, "prefix": true, "range-elems": true}
	glTranslate(glUnit{
		Module: "TrTextHandler", NS: "Glb.Tr.Logger",
		Imports: []string{"Glb.Go.LibTextAttr", "Glb.Generated.TrLevel", "Glb.Generated.TrText", "Glb.Generated.TrTextSource", "Glb.Generated.TrTextAttr"},
		Funcs: []glFunc{
			{File: "logger/text_handler.go", Recv: "TextHandler", Name: "WithGroup", Lean: "Text_WithGroup", Args: "(pre gp : Bytes) (name : Bytes)", Ret: "(Bytes × Bytes × Unit)",
				Env: th, Ptr: thPtr, Thread: []string{"pre", "gp"}, Skip: []string{"h2 := h.clone()"}},
			{File: "logger/text_handler.go", Recv: "TextHandler", Name: "WithAttrs", Lean: "Text_WithAttrs", Args: "(fuel__ : Nat) (P : Glb.TextHandler.Std) (pre gp : Bytes) (attrs : List Glb.TextHandler.Attr)", Ret: "(Bytes × Bytes × Unit)",
				Env: th, Ptr: thPtr, Thread: []string{"pre", "gp"}, Skip: []string{"h2 := h.clone()", "h2.freePrefix(prefix)"},
				Tuples: map[string][]string{"h2.prefix()": {"gp"}}},
			{File: "logger/text_handler.go", Recv: "TextHandler", Name: "Handle", Lean: "Text_Handle",
				Args: "(fuel__ : Nat) (P : Glb.TextHandler.Std) (buf : Bytes) (addSource : Bool) (pre gp : Bytes) (time : Bytes) (level : Int) (file : Bytes) (line : Int) (msg : Bytes) (attrs : List Glb.TextHandler.Attr)",
				Ret: "(Bytes × Unit)", Env: th, Ptr: map[string]bool{"buf": true, "prefix": true, "range-elems": true}, Thread: []string{"buf"},
				Iter:   map[string]string{"r.Attrs": "attrs"},
				Tuples: map[string][]string{"r.NumAttrs()": {"(Glb.Go.len attrs)"}, "h.prefix()": {"gp"}},
				Skip:   []string{"defer freeBuffer(buf)", "h.outMu.Lock()", "defer h.outMu.Unlock()", "h.freePrefix(prefix)"},
				Rewrite: map[string]string{
					"buf := newBuffer()": "pure ()",
					"*buf = r.Time.AppendFormat(*buf, time.RFC3339)": "buf := buf ++ time",
					"appendTextSource(buf, r.PC)":                     "buf ← Glb.Tr.Logger.appendTextSource P buf file line",
					"_, err := h.out.Write(*buf)":                     "pure ()",
				}},
		},
	})

	// TrArgs (C10): the command-line scanner. The flag table (f.flagMap + the boolFlag type test) is the
	// parameter `lookup : name ↦ some isBool`; `flg.ArgValue = &argValue` is recorded in program order.
	glTranslate(glUnit{
		Module: "TrArgs", NS: "Glb.Tr.Config",
		Funcs: []glFunc{
			{File: "config/config.go", Recv: "FlagSet", Name: "argParse",
				Args: "(lookup : Bytes → Option Bool) (args : List Bytes) (assigns : List (Bytes × Bytes))",
				Ret:  "(List Bytes × List (Bytes × Bytes) × Option Bytes)",
				Env:  map[string]string{"f.args": "args", "f.flagMap": "lookup", "nil": "none"},
				Ptr:  map[string]bool{"f.args": true}, Thread: []string{"args", "assigns"},
				MapFields: map[string]string{"flagMap": "fun"},
				Libs:      map[string]glLib{"errors.New": {"some", true, 1}},
				Tuples:    map[string][]string{"fv, ok := flg.Value.(boolFlag); ok && fv.IsBoolFlag()": {"(Option.getD flg false)"}},
				Rewrite:   map[string]string{"flg.ArgValue = &argValue": "assigns := assigns ++ [(name, argValue)]"},
				Fuel:      map[int]string{0: "(Glb.Go.len args + 1).toNat"}},
		},
	})

	// TrSelfTest: the translator's own test corpus (/verif/harness/trtest), compared with Go by the stream `trself`
	{
		std := "(s t : Bytes) (n : Int) (b : Bool)"
		ret := "(Bytes × Int × Bool)"
		var fs []glFunc
		for _, name := range []string{"Recur", "ShortAnd", "ShortOr", "EvalOrder", "ByteWrap", "LoopCtl", "RangeIdx", "SwitchTag", "SwitchBare", "SliceBounds", "Nested", "Named", "put", "PtrParam", "Swap", "DivMod", "StrOps", "IfInit", "Iota", "Bits", "Down", "Appends", "RangeVal", "Store"} {
			f := glFunc{File: "@verif/harness/trtest/trtest.go", Name: name, Args: std, Ret: ret}
			if name == "put" {
				f.Args, f.Ret, f.Ptr = "(buf : Bytes) (c : UInt8)", "Bytes", map[string]bool{"buf": true}
			}
			if name == "RangeVal" {
				f.Ptr = map[string]bool{"range-bytes:bs": true}
			}
			if name == "Recur" {
				f.Rec = true
			}
			fs = append(fs, f)
		}
		glTranslate(glUnit{Module: "TrSelfTest", NS: "Glb.Tr.SelfTest", Funcs: fs})
	}

	// TrParseRoute (C04): route registration. The trie is mutated through the pointer `node`
	// (nextNodeOrNew walks down, creating nodes); value semantics cannot express that, so the pointer is
	// the pair (root, keys walked so far) and the five pointer statements are rewrite rules over
	// Glb/Go/LibRouter.lean; the fragment loop, its index arithmetic, the classification of fragments and
	// the three error exits are translated from the source.
	glTranslate(glUnit{
		Module: "TrParseRoute", NS: "Glb.Tr.Router",
		Imports: []string{"Glb.Go.LibRouter", "Glb.Generated.TrStrutil"},
		Funcs: []glFunc{
			{File: "httpd/tree.go", Name: "parseRoute",
				Args: "(root : Glb.Router.Node) (keys : List Bytes) (path method : Bytes) (id : Glb.Router.RouteId)",
				Ret:  "(Glb.Router.Node × List Bytes × Int × Option Bytes)",
				Env:  map[string]string{"methodTagMap": "Glb.Generated.methodTagMap", "routeParam": "Glb.Generated.routeParam", "routeParamAny": "Glb.Generated.routeParamAny", "nil": "none"},
				MapVars: map[string]string{"methodTagMap": "zero"}, Thread: []string{"root", "keys"},
				Libs:    map[string]glLib{"errors.New": {"some", true, 1}},
				Tuples:  map[string][]string{"_, ok = node.next[methodTag]; ok": {"(Glb.Go.LibRouter.hasChildAt root keys methodTag)"}},
				Rewrite: map[string]string{
					"node = node.nextNodeOrNew($1)":        "root := Glb.Go.LibRouter.ensureAt root keys $1\nkeys := keys ++ [$1]",
					"node.info = info":                     "root := Glb.Go.LibRouter.setInfoAt root keys id",
					"node.paramNameList = paramNameList":   "root := Glb.Go.LibRouter.setParamsAt root keys paramNameList",
				}},
		},
	})

	// TrIoutil (supporting code): ReadRand; the random source is the list of its successive Uint64 draws
	glTranslate(glUnit{
		Module: "TrIoutil", NS: "Glb.Tr.Ioutil",
		Funcs: []glFunc{
			{File: "util/ioutil/ioutil.go", Name: "ReadRand", Args: "(draws : List UInt64) (buf : Bytes)", Ret: "(Bytes × List UInt64 × Int × Bool)",
				Ptr: map[string]bool{"buf": true}, Thread: []string{"draws"}, Env: map[string]string{"nil": "false"},
				Rewrite: map[string]string{"val = r.Uint64()": "val := draws.headD 0\ndraws := draws.tail"}},
		},
	})
}
