package main

import (
	"fmt"
	"go/ast"
	"strings"
)

// util/netutil/filter.go: the mask table and the list size.
func extractFilter() {
	const src = "util/netutil/filter.go"
	f := parseFile(src)
	l := newLean("Filter", src)

	cl, ok := findValue(f, "ipv4Masks").(*ast.CompositeLit)
	if !ok {
		die("%s: ipv4Masks is not a composite literal", src)
	}
	var masks []string
	var raw []uint32
	for _, e := range cl.Elts {
		v, ok := evalInt(e)
		if !ok {
			die("%s: ipv4Masks element is not an integer constant", src)
		}
		raw = append(raw, uint32(v))
		masks = append(masks, fmt.Sprintf("0x%08x#32", uint32(v)))
	}
	l.printf("def ipv4Masks : List (BitVec 32) := [\n  %s]\n\n", strings.Join(masks, ", "))

	ls, ok := evalInt(findValue(f, "listSize"))
	if !ok {
		die("%s: listSize is not an integer constant", src)
	}
	l.printf("def listSize : Nat := %d\n", ls)
	l.write()
	facts["filter.ipv4Masks"] = raw
	facts["filter.listSize"] = ls
}
