package main

import (
	"go/ast"
	"strconv"
	"strings"
)

func strconvQuote(s string) string { return strconv.Quote(s) }

// Lock discipline of IPv4Filter.{Add,Remove,Contains}: position of the (R)Lock statement, whether
// the very next statement defers the matching unlock, whether any guarded field (mode, index,
// ipList, ipMaps) is touched before the lock is taken, and whether matchAll is only used through
// its atomic Load/Store methods.
func extractFilterLock() {
	const src = "util/netutil/filter.go"
	f := parseFile(src)
	l := newLean("FilterLock", src)
	guarded := []string{"f.mode", "f.index", "f.ipList", "f.ipMaps"}
	for _, name := range []string{"Add", "Remove", "Contains"} {
		fd := findFunc(f, "IPv4Filter", name)
		if fd == nil {
			die("%s: func %s not found", src, name)
		}
		lockKind, lockIdx, deferOK := "", -1, false
		for i, st := range fd.Body.List {
			if es, ok := st.(*ast.ExprStmt); ok {
				switch exprString(es.X) {
				case "f.mutex.Lock()":
					lockKind, lockIdx = "Lock", i
				case "f.mutex.RLock()":
					lockKind, lockIdx = "RLock", i
				}
			}
			if lockIdx >= 0 {
				if i+1 < len(fd.Body.List) {
					if ds, ok := fd.Body.List[i+1].(*ast.DeferStmt); ok {
						want := "f.mutex.Unlock()"
						if lockKind == "RLock" {
							want = "f.mutex.RUnlock()"
						}
						deferOK = exprString(ds.Call) == want
					}
				}
				break
			}
		}
		before := 0
		for i, st := range fd.Body.List {
			if lockIdx >= 0 && i >= lockIdx {
				break
			}
			s := exprString(st)
			for _, g := range guarded {
				before += strings.Count(s, g)
			}
		}
		// other unlock/lock calls anywhere else (an early manual Unlock would end the critical section)
		body := exprString(fd.Body)
		extraLockOps := strings.Count(body, "f.mutex.") - 2
		// matchAll: every use must be f.matchAll.Load() or f.matchAll.Store(
		uses := strings.Count(body, "f.matchAll")
		atomicUses := strings.Count(body, "f.matchAll.Load()") + strings.Count(body, "f.matchAll.Store(")
		lname := strings.ToLower(name)
		l.printf("def %sLockKind : String := %q\n", lname, lockKind)
		l.printf("def %sDeferUnlock : Bool := %v\n", lname, deferOK)
		l.printf("def %sGuardedBeforeLock : Nat := %d\n", lname, before)
		l.printf("def %sExtraLockOps : Int := %d\n", lname, extraLockOps)
		l.printf("def %sMatchAllPlainUses : Nat := %d\n\n", lname, uses-atomicUses)
		facts["filterlock."+name] = map[string]any{"lock": lockKind, "deferUnlock": deferOK, "guardedBeforeLock": before,
			"extraLockOps": extraLockOps, "matchAllPlainUses": uses - atomicUses}
	}
	// field types
	matchAllType, mutexType := "", ""
	ast.Inspect(f, func(n ast.Node) bool {
		if fld, ok := n.(*ast.Field); ok && len(fld.Names) == 1 {
			switch fld.Names[0].Name {
			case "matchAll":
				matchAllType = exprString(fld.Type)
			case "mutex":
				mutexType = exprString(fld.Type)
			}
		}
		return true
	})
	l.printf("def matchAllType : String := %q\ndef mutexType : String := %q\n", matchAllType, mutexType)
	// the complete field list of IPv4Filter and the complete method set declared in filter.go: state
	// the model does not know about (a cache, a second index) or a helper that touches guarded state
	// outside the extracted functions would make the lock-discipline facts above meaningless
	var fields, methods []string
	ast.Inspect(f, func(n ast.Node) bool {
		if ts, ok := n.(*ast.TypeSpec); ok && ts.Name.Name == "IPv4Filter" {
			if st, ok := ts.Type.(*ast.StructType); ok {
				for _, fld := range st.Fields.List {
					for _, nm := range fld.Names {
						fields = append(fields, nm.Name+" "+exprString(fld.Type))
					}
				}
			}
		}
		return true
	})
	for _, d := range f.Decls {
		if fd, ok := d.(*ast.FuncDecl); ok && fd.Recv != nil {
			methods = append(methods, fd.Name.Name)
		}
	}
	q := func(xs []string) string {
		o := make([]string, len(xs))
		for i, x := range xs {
			o[i] = strconvQuote(x)
		}
		return "[" + strings.Join(o, ", ") + "]"
	}
	l.printf("def filterFields : List String := %s\ndef filterMethods : List String := %s\n", q(fields), q(methods))
	facts["filterlock.fields"] = fields
	facts["filterlock.methods"] = methods
	l.write()
}
