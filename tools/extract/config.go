package main

import (
	"go/ast"
	"strconv"
	"strings"
)

// config/config.go: the order of the steps of (*FlagSet).Parse, the order in which the final loop
// tests ArgValue / EnvValue, the environment constants and a few shape facts.
//
// Generated/Config.lean carries its own small vocabulary (ParseStep, Src) because generated files
// import nothing; Glb/Model/Config.lean interprets `parseSteps` directly, so a reordering in the
// source changes the model the theorems of C09 are proved about.

func configExprStr(e ast.Expr) string {
	switch x := e.(type) {
	case *ast.Ident:
		return x.Name
	case *ast.SelectorExpr:
		return configExprStr(x.X) + "." + x.Sel.Name
	case *ast.StarExpr:
		return "*" + configExprStr(x.X)
	case *ast.UnaryExpr:
		return x.Op.String() + configExprStr(x.X)
	case *ast.BinaryExpr:
		return configExprStr(x.X) + x.Op.String() + configExprStr(x.Y)
	case *ast.CallExpr:
		args := make([]string, len(x.Args))
		for i, a := range x.Args {
			args[i] = configExprStr(a)
		}
		return configExprStr(x.Fun) + "(" + strings.Join(args, ",") + ")"
	case *ast.IndexExpr:
		return configExprStr(x.X) + "[" + configExprStr(x.Index) + "]"
	case *ast.BasicLit:
		return x.Value
	case *ast.ParenExpr:
		return "(" + configExprStr(x.X) + ")"
	}
	return "?"
}

func configStmtStr(s ast.Stmt) string {
	switch x := s.(type) {
	case *ast.AssignStmt:
		l := make([]string, len(x.Lhs))
		for i, e := range x.Lhs {
			l[i] = configExprStr(e)
		}
		r := make([]string, len(x.Rhs))
		for i, e := range x.Rhs {
			r[i] = configExprStr(e)
		}
		return strings.Join(l, ",") + x.Tok.String() + strings.Join(r, ",")
	case *ast.ReturnStmt:
		r := make([]string, len(x.Results))
		for i, e := range x.Results {
			r[i] = configExprStr(e)
		}
		return "return " + strings.Join(r, ",")
	case *ast.ExprStmt:
		return configExprStr(x.X)
	}
	return "?"
}

// configIsErrReturn: `if err != nil { return err }`
func configIsErrReturn(s ast.Stmt) bool {
	is, ok := s.(*ast.IfStmt)
	return ok && is.Init == nil && configExprStr(is.Cond) == "err!=nil" && len(is.Body.List) == 1 &&
		configStmtStr(is.Body.List[0]) == "return err" && is.Else == nil
}

// configLoopOrder reads `if flg.ArgValue != nil { err = flg.Value.Set(*flg.ArgValue) } else if flg.EnvValue != nil { … }`
func configLoopOrder(s ast.Stmt) ([]string, bool) {
	var order []string
	for s != nil {
		is, ok := s.(*ast.IfStmt)
		if !ok || is.Init != nil || len(is.Body.List) != 1 {
			return nil, false
		}
		var src string
		switch configExprStr(is.Cond) {
		case "flg.ArgValue!=nil":
			src = "arg"
			if configStmtStr(is.Body.List[0]) != "err=flg.Value.Set(*flg.ArgValue)" {
				return nil, false
			}
		case "flg.EnvValue!=nil":
			src = "env"
			if configStmtStr(is.Body.List[0]) != "err=flg.Value.Set(*flg.EnvValue)" {
				return nil, false
			}
		default:
			return nil, false
		}
		order = append(order, src)
		s = is.Else
	}
	return order, true
}

func extractConfig() {
	const src = "config/config.go"
	f := parseFile(src)
	l := newLean("Config", src)
	l.printf("/-- where the final loop of Parse takes a flag's text from -/\ninductive Src where\n  | arg | env\n  deriving Repr, DecidableEq\n\n")
	l.printf("/-- the statements of (*FlagSet).Parse after its prelude, in source order -/\ninductive ParseStep where\n  | argParse | envParse | setConfigPathFromArg | parseConfigJson\n  | flagLoop (order : List Src)\n  | unknown (stmt : Nat)\n  deriving Repr, DecidableEq\n\n")

	fd := findFunc(f, "FlagSet", "Parse")
	if fd == nil {
		die("%s: (*FlagSet).Parse not found", src)
	}
	var steps, human []string
	for i, st := range fd.Body.List {
		switch x := st.(type) {
		case *ast.IfStmt:
			cond := configExprStr(x.Cond)
			// prelude: if f.parsed { return errors.New(…) }
			if x.Init == nil && cond == "f.parsed" {
				continue
			}
			if x.Init != nil && cond == "err!=nil" && len(x.Body.List) == 1 && configStmtStr(x.Body.List[0]) == "return err" && x.Else == nil {
				switch configStmtStr(x.Init) {
				case "err=f.argParse()":
					steps, human = append(steps, ".argParse"), append(human, "argParse")
					continue
				case "err=f.envParse()":
					steps, human = append(steps, ".envParse"), append(human, "envParse")
					continue
				case "err=f.parseConfigJson()":
					steps, human = append(steps, ".parseConfigJson"), append(human, "parseConfigJson")
					continue
				}
			}
			// if flg, ok := f.flagMap[flagNameConfigPath]; ok && flg.ArgValue != nil { if err = flg.Value.Set(*flg.ArgValue); err != nil { return err } }
			if x.Init != nil && configStmtStr(x.Init) == "flg,ok:=f.flagMap[flagNameConfigPath]" && cond == "ok&&flg.ArgValue!=nil" &&
				len(x.Body.List) == 1 && x.Else == nil {
				if in, ok := x.Body.List[0].(*ast.IfStmt); ok && in.Init != nil && configStmtStr(in.Init) == "err=flg.Value.Set(*flg.ArgValue)" &&
					configExprStr(in.Cond) == "err!=nil" && len(in.Body.List) == 1 && configStmtStr(in.Body.List[0]) == "return err" {
					steps, human = append(steps, ".setConfigPathFromArg"), append(human, "Set(config path from ArgValue)")
					continue
				}
			}
		case *ast.AssignStmt:
			// prelude: f.parsed = true; f.args = arguments
			if s := configStmtStr(x); s == "f.parsed=true" || s == "f.args=arguments" {
				continue
			}
		case *ast.ReturnStmt:
			if configStmtStr(x) == "return nil" && i == len(fd.Body.List)-1 {
				continue
			}
		case *ast.RangeStmt:
			if configExprStr(x.X) == "f.flagList" && configExprStr(x.Value) == "flg" && len(x.Body.List) == 2 && configIsErrReturn(x.Body.List[1]) {
				if order, ok := configLoopOrder(x.Body.List[0]); ok {
					lean := make([]string, len(order))
					for j, o := range order {
						lean[j] = "." + o
					}
					steps = append(steps, "(.flagLoop ["+strings.Join(lean, ", ")+"])")
					human = append(human, "flagLoop["+strings.Join(order, " before ")+"]")
					continue
				}
			}
		}
		steps = append(steps, "(.unknown "+strconv.Itoa(i)+")")
		human = append(human, "UNKNOWN statement #"+strconv.Itoa(i))
	}
	l.printf("def parseSteps : List ParseStep := [%s]\n\n", strings.Join(steps, ", "))
	facts["config.parseSteps"] = human

	// NewFlagSet: envKeyPrefix / b64ConfigEnv of the FlagSet literal
	consts := map[string]string{}
	if nf := findFunc(f, "", "NewFlagSet"); nf != nil {
		ast.Inspect(nf, func(n ast.Node) bool {
			kv, ok := n.(*ast.KeyValueExpr)
			if !ok {
				return true
			}
			if id, ok := kv.Key.(*ast.Ident); ok && (id.Name == "envKeyPrefix" || id.Name == "b64ConfigEnv") {
				if v, ok := evalString(kv.Value, nil); ok {
					consts[id.Name] = v
				}
			}
			return true
		})
	}
	for _, n := range []string{"envKeyPrefix", "b64ConfigEnv"} {
		v, ok := consts[n]
		if !ok {
			die("%s: %s not found in NewFlagSet", src, n)
		}
		l.printf("def %s : List UInt8 := %s\n", n, leanBytes(v))
		facts["config."+n] = v
	}
	for _, n := range []string{"flagNameShowUsage", "flagNameConfigPath"} {
		v, ok := evalString(findValue(f, n), nil)
		if !ok {
			die("%s: constant %s not found", src, n)
		}
		l.printf("def %s : List UInt8 := %s\n", n, leanBytes(v))
		facts["config."+n] = v
	}

	// parseStructFields: the Env expression and the group recursion
	envExprOK, groupExprOK := false, false
	if pf := findFunc(f, "FlagSet", "parseStructFields"); pf != nil {
		ast.Inspect(pf, func(n ast.Node) bool {
			switch x := n.(type) {
			case *ast.KeyValueExpr:
				if id, ok := x.Key.(*ast.Ident); ok && id.Name == "Env" {
					envExprOK = configExprStr(x.Value) == "strutil.Underscore(f.envKeyPrefix+group+field.Name,true)"
					facts["config.envExpr"] = configExprStr(x.Value)
				}
			case *ast.CallExpr:
				if configExprStr(x.Fun) == "f.parseStructFields" && len(x.Args) == 2 {
					groupExprOK = configExprStr(x.Args[1]) == `group+field.Name+"_"`
					facts["config.groupExpr"] = configExprStr(x.Args[1])
				}
			}
			return true
		})
	}
	l.printf("\n/-- `Env: strutil.Underscore(f.envKeyPrefix+group+field.Name, true)` -/\ndef envExprOK : Bool := %v\n", envExprOK)
	l.printf("/-- nested structs recurse with `group+field.Name+\"_\"` -/\ndef groupExprOK : Bool := %v\n", groupExprOK)

	// parseConfigJson: file path first, CFG_CONFIG_B64 only when the path is empty, then JsonUnmarshal(jsonData, f.ptr)
	carrierOK := false
	if pj := findFunc(f, "FlagSet", "parseConfigJson"); pj != nil && len(pj.Body.List) == 3 {
		if is, ok := pj.Body.List[1].(*ast.IfStmt); ok && is.Init != nil &&
			configStmtStr(is.Init) == "fPath:=f.valueConfigPath.String()" && configExprStr(is.Cond) == `fPath!=""` {
			if el, ok := is.Else.(*ast.IfStmt); ok && el.Init != nil &&
				configStmtStr(el.Init) == "str,ok:=os.LookupEnv(f.b64ConfigEnv)" && configExprStr(el.Cond) == "ok" {
				if fin, ok := el.Else.(*ast.BlockStmt); ok && len(fin.List) == 1 && configStmtStr(fin.List[0]) == "return nil" {
					carrierOK = configStmtStr(pj.Body.List[2]) == "return JsonUnmarshal(jsonData,f.ptr)"
				}
			}
		}
	}
	l.printf("/-- parseConfigJson: `-config` path first, else CFG_CONFIG_B64, else nothing; then JsonUnmarshal(jsonData, f.ptr) -/\ndef carrierOrderOK : Bool := %v\n", carrierOK)
	facts["config.shape"] = map[string]bool{"envExprOK": envExprOK, "groupExprOK": groupExprOK, "carrierOrderOK": carrierOK}
	l.write()
}
