package main

import (
	"go/ast"
	"go/token"
	"go/types"
	"sort"
	"strconv"
	"strings"
)

// C03 — facts about clone() / WithAttrs / WithGroup of the three handlers and Logger.With /
// Logger.WithGroup (logger/{json,text,nano}_handler.go, logger/logger.go):
//
//   - clone(): a single `return &T{...}`; which fields are copied verbatim (`f: h.f`), which are
//     passed through slices.Clip (`f: slices.Clip(h.f)`), which are anything else; the declared
//     fields of T (so that "every field is copied" is checkable);
//   - WithAttrs / WithGroup: the variable bound by `x := h.clone()`, every memory write of the
//     body as a (root identifier, field) pair — assignment targets that are selector / index / star
//     expressions, operands of `&`, operands of ++/--, and the first argument of every append() —,
//     the methods called on the receiver, what is returned, and whether the body starts with
//     `if len(attrs) == 0 { return h }`.
//
// Predicates over these lists are proved by `decide` in lean/Glb/Tie/LoggerClone.lean.

const loggerCloneHeader = `/-- how one ` + "`clone()`" + ` method builds the child handler -/
structure CloneFact where
  handler : String
  singleReturn : Bool            -- the body is exactly ` + "`return &T{...}`" + ` of the handler's own type
  structFields : List String     -- declared fields of T (an embedded field by its type name)
  verbatim : List String         -- fields initialised ` + "`f: h.f`" + `
  clipped : List String          -- fields initialised ` + "`f: slices.Clip(h.f)`" + `
  other : List String            -- fields initialised with anything else
  deriving Repr, DecidableEq

/-- what one deriving method does -/
structure WithFact where
  handler : String
  method : String
  recv : String                      -- receiver identifier
  emptyReturnsRecv : Bool            -- first statement is ` + "`if len(<param>) == 0 { return <recv> }`" + `
  cloneVar : String                  -- x of ` + "`x := <recv>.clone()`" + ` ("" when the method does not clone)
  writes : List (String × String)    -- (root identifier, field path) of every memory write
  recvCalls : List String            -- methods invoked directly on the receiver
  returns : List String              -- returned expressions, as source text
  deriving Repr, DecidableEq

`

// cloneRootAndPath splits h2.a.b / (*p).x / a[i].f into its root identifier and the remaining path.
func cloneRootAndPath(e ast.Expr) (string, string, bool) {
	var path []string
	for {
		switch x := e.(type) {
		case *ast.Ident:
			for i, j := 0, len(path)-1; i < j; i, j = i+1, j-1 {
				path[i], path[j] = path[j], path[i]
			}
			return x.Name, strings.Join(path, "."), true
		case *ast.SelectorExpr:
			path = append(path, x.Sel.Name)
			e = x.X
		case *ast.IndexExpr:
			path = append(path, "[]")
			e = x.X
		case *ast.StarExpr:
			path = append(path, "*")
			e = x.X
		case *ast.ParenExpr:
			e = x.X
		case *ast.SliceExpr:
			e = x.X
		default:
			return "", "", false
		}
	}
}

func cloneLeanStr(s string) string { return strconv.Quote(s) }

func cloneLeanStrList(xs []string) string {
	q := make([]string, len(xs))
	for i, x := range xs {
		q[i] = cloneLeanStr(x)
	}
	return "[" + strings.Join(q, ", ") + "]"
}

func cloneRecvName(fd *ast.FuncDecl) string {
	if fd.Recv != nil && len(fd.Recv.List) == 1 && len(fd.Recv.List[0].Names) == 1 {
		return fd.Recv.List[0].Names[0].Name
	}
	return ""
}

func cloneStructFieldNames(f *ast.File, typ string) []string {
	var out []string
	for _, d := range f.Decls {
		gd, ok := d.(*ast.GenDecl)
		if !ok || gd.Tok != token.TYPE {
			continue
		}
		for _, s := range gd.Specs {
			ts := s.(*ast.TypeSpec)
			st, ok := ts.Type.(*ast.StructType)
			if !ok || ts.Name.Name != typ {
				continue
			}
			for _, fl := range st.Fields.List {
				if len(fl.Names) == 0 { // embedded
					t := fl.Type
					if se, ok := t.(*ast.StarExpr); ok {
						t = se.X
					}
					out = append(out, types.ExprString(t))
				}
				for _, n := range fl.Names {
					out = append(out, n.Name)
				}
			}
		}
	}
	return out
}

type cloneFact struct {
	Handler      string   `json:"handler"`
	SingleReturn bool     `json:"singleReturn"`
	StructFields []string `json:"structFields"`
	Verbatim     []string `json:"verbatim"`
	Clipped      []string `json:"clipped"`
	Other        []string `json:"other"`
}

func cloneFacts(f *ast.File, typ string) cloneFact {
	cf := cloneFact{Handler: typ, StructFields: cloneStructFieldNames(f, typ)}
	fd := findFunc(f, typ, "clone")
	if fd == nil || fd.Body == nil {
		die("%s.clone not found", typ)
	}
	recv := cloneRecvName(fd)
	if len(fd.Body.List) != 1 {
		return cf
	}
	rs, ok := fd.Body.List[0].(*ast.ReturnStmt)
	if !ok || len(rs.Results) != 1 {
		return cf
	}
	ue, ok := rs.Results[0].(*ast.UnaryExpr)
	if !ok || ue.Op != token.AND {
		return cf
	}
	cl, ok := ue.X.(*ast.CompositeLit)
	if !ok {
		return cf
	}
	if id, ok := cl.Type.(*ast.Ident); !ok || id.Name != typ {
		return cf
	}
	cf.SingleReturn = true
	for _, e := range cl.Elts {
		kv, ok := e.(*ast.KeyValueExpr)
		if !ok {
			cf.SingleReturn = false // positional literal: not analysed
			cf.Other = append(cf.Other, types.ExprString(e))
			continue
		}
		key := types.ExprString(kv.Key)
		// f: h.f
		if sel, ok := kv.Value.(*ast.SelectorExpr); ok {
			if id, ok := sel.X.(*ast.Ident); ok && id.Name == recv && sel.Sel.Name == key {
				cf.Verbatim = append(cf.Verbatim, key)
				continue
			}
		}
		// f: slices.Clip(h.f)
		if call, ok := kv.Value.(*ast.CallExpr); ok && len(call.Args) == 1 && types.ExprString(call.Fun) == "slices.Clip" {
			if sel, ok := call.Args[0].(*ast.SelectorExpr); ok {
				if id, ok := sel.X.(*ast.Ident); ok && id.Name == recv && sel.Sel.Name == key {
					cf.Clipped = append(cf.Clipped, key)
					continue
				}
			}
		}
		cf.Other = append(cf.Other, key)
	}
	return cf
}

type cloneWithFact struct {
	Handler          string      `json:"handler"`
	Method           string      `json:"method"`
	Recv             string      `json:"recv"`
	EmptyReturnsRecv bool        `json:"emptyReturnsRecv"`
	CloneVar         string      `json:"cloneVar"`
	Writes           [][2]string `json:"writes"`
	RecvCalls        []string    `json:"recvCalls"`
	Returns          []string    `json:"returns"`
}

func cloneWithFacts(f *ast.File, typ, method string) cloneWithFact {
	fd := findFunc(f, typ, method)
	if fd == nil || fd.Body == nil {
		die("%s.%s not found", typ, method)
	}
	wf := cloneWithFact{Handler: typ, Method: method, Recv: cloneRecvName(fd)}
	// first statement: if len(p) == 0 { return recv }
	if len(fd.Body.List) > 0 {
		if is, ok := fd.Body.List[0].(*ast.IfStmt); ok && is.Init == nil && is.Else == nil && len(is.Body.List) == 1 {
			cond := types.ExprString(is.Cond)
			param := ""
			if fd.Type.Params != nil && len(fd.Type.Params.List) == 1 && len(fd.Type.Params.List[0].Names) == 1 {
				param = fd.Type.Params.List[0].Names[0].Name
			}
			if rs, ok := is.Body.List[0].(*ast.ReturnStmt); ok && len(rs.Results) == 1 &&
				cond == "len("+param+") == 0" && types.ExprString(rs.Results[0]) == wf.Recv {
				wf.EmptyReturnsRecv = true
			}
		}
	}
	seenW := map[[2]string]bool{}
	addWrite := func(e ast.Expr) {
		root, path, ok := cloneRootAndPath(e)
		if !ok {
			root, path = "?", types.ExprString(e)
		}
		k := [2]string{root, path}
		if !seenW[k] {
			seenW[k] = true
			wf.Writes = append(wf.Writes, k)
		}
	}
	seenC := map[string]bool{}
	ast.Inspect(fd.Body, func(n ast.Node) bool {
		switch x := n.(type) {
		case *ast.AssignStmt:
			// x := recv.clone()
			if x.Tok == token.DEFINE && len(x.Lhs) == 1 && len(x.Rhs) == 1 {
				if call, ok := x.Rhs[0].(*ast.CallExpr); ok && types.ExprString(call.Fun) == wf.Recv+".clone" {
					if id, ok := x.Lhs[0].(*ast.Ident); ok && wf.CloneVar == "" {
						wf.CloneVar = id.Name
					}
				}
			}
			for _, l := range x.Lhs {
				if _, plain := l.(*ast.Ident); !plain { // rebinding a local variable is not a memory write
					addWrite(l)
				}
			}
		case *ast.IncDecStmt:
			if _, plain := x.X.(*ast.Ident); !plain {
				addWrite(x.X)
			}
		case *ast.UnaryExpr:
			if x.Op == token.AND {
				if _, lit := x.X.(*ast.CompositeLit); !lit {
					addWrite(x.X)
				}
			}
		case *ast.CallExpr:
			if id, ok := x.Fun.(*ast.Ident); ok && id.Name == "append" && len(x.Args) > 0 {
				addWrite(x.Args[0])
			}
			if sel, ok := x.Fun.(*ast.SelectorExpr); ok {
				if id, ok := sel.X.(*ast.Ident); ok && id.Name == wf.Recv && !seenC[sel.Sel.Name] {
					seenC[sel.Sel.Name] = true
					wf.RecvCalls = append(wf.RecvCalls, sel.Sel.Name)
				}
			}
		case *ast.ReturnStmt:
			for _, r := range x.Results {
				wf.Returns = append(wf.Returns, types.ExprString(r))
			}
		case *ast.FuncLit:
			// closures are walked too (Inspect descends)
		}
		return true
	})
	sort.Strings(wf.RecvCalls)
	return wf
}

func extractLoggerClone() {
	l := newLean("LoggerClone", "logger/{json_handler,text_handler,nano_handler,logger}.go")
	l.printf("namespace LoggerClone\n\n%s", loggerCloneHeader)
	files := map[string]string{
		"JsonHandler": "logger/json_handler.go",
		"TextHandler": "logger/text_handler.go",
		"NanoHandler": "logger/nano_handler.go",
	}
	short := map[string]string{"JsonHandler": "json", "TextHandler": "text", "NanoHandler": "nano"}
	emitWith := func(name string, wf cloneWithFact) {
		ws := make([]string, len(wf.Writes))
		for i, w := range wf.Writes {
			ws[i] = "(" + cloneLeanStr(w[0]) + ", " + cloneLeanStr(w[1]) + ")"
		}
		l.printf("def %s : WithFact := {\n  handler := %s, method := %s, recv := %s,\n  emptyReturnsRecv := %v,\n  cloneVar := %s,\n  writes := [%s],\n  recvCalls := %s,\n  returns := %s }\n\n",
			name, cloneLeanStr(wf.Handler), cloneLeanStr(wf.Method), cloneLeanStr(wf.Recv), wf.EmptyReturnsRecv, cloneLeanStr(wf.CloneVar),
			strings.Join(ws, ", "), cloneLeanStrList(wf.RecvCalls), cloneLeanStrList(wf.Returns))
		facts["loggerClone."+name] = wf
	}
	for _, typ := range []string{"JsonHandler", "TextHandler", "NanoHandler"} {
		f := parseFile(files[typ])
		cf := cloneFacts(f, typ)
		l.printf("def %sClone : CloneFact := {\n  handler := %s,\n  singleReturn := %v,\n  structFields := %s,\n  verbatim := %s,\n  clipped := %s,\n  other := %s }\n\n",
			short[typ], cloneLeanStr(cf.Handler), cf.SingleReturn, cloneLeanStrList(cf.StructFields), cloneLeanStrList(cf.Verbatim),
			cloneLeanStrList(cf.Clipped), cloneLeanStrList(cf.Other))
		clips := false
		for _, c := range cf.Clipped {
			if c == "preformatted" {
				clips = true
			}
		}
		l.printf("/-- `%s.clone()` hands the child `slices.Clip(h.preformatted)` -/\ndef %sCloneClips : Bool := %v\n\n", typ, short[typ], clips)
		facts["loggerClone."+short[typ]+"Clone"] = cf
		facts["loggerClone."+short[typ]+"CloneClips"] = clips
		emitWith(short[typ]+"WithAttrs", cloneWithFacts(f, typ, "WithAttrs"))
		emitWith(short[typ]+"WithGroup", cloneWithFacts(f, typ, "WithGroup"))
	}
	lf := parseFile("logger/logger.go")
	emitWith("loggerWith", cloneWithFacts(lf, "Logger", "With"))
	emitWith("loggerWithGroup", cloneWithFacts(lf, "Logger", "WithGroup"))
	l.printf("end LoggerClone\n")
	l.write()
}
