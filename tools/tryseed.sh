#!/bin/bash
# tryseed.sh <Cxx> <patch.diff> [tier] — run ./check against a scratch worktree of /repo with the patch applied
# (SEED_VERIF=<copy of /verif> runs the checks from that copy, leaving /verif alone)
pid=$1; patch=$2; tier=${3:-quick}
V=${SEED_VERIF:-/verif}
wt=/tmp/wtx/try-$$
mkdir -p /tmp/wtx
git -C /repo worktree add --detach $wt HEAD -q || exit 3
git -C $wt apply $patch || { git -C /repo worktree remove --force $wt; exit 3; }
cd $V && VERIF_REPO=$wt ./check $pid $tier 2>&1 | grep -A2 "VIOLATION\|^\[check\]" | cut -c1-500
git -C /repo worktree remove --force $wt
./check $pid quick > /dev/null 2>&1   # restore generated files / evidence of the unchanged tree
