#!/bin/bash
# benign_run.sh <Cxx> [tier] — run the check of Cxx against each property-preserving change in /tmp/benign-out/Cxx
pid=$1; tier=${2:-quick}
for k in 1 2 3; do
  d=/tmp/benign-out/$pid/$k
  [ -f $d/patch.diff ] || continue
  /verif/tools/tryseed.sh $pid $d/patch.diff $tier > /tmp/benign-out/$pid/result-$k-$tier.txt 2>&1
  echo "$pid-$k $tier: $(head -c 300 /tmp/benign-out/$pid/result-$k-$tier.txt | tr '\n' ' ')"
done
