#!/bin/bash
# finalpass.sh <logname> <Cxx-round> ... — re-run the checks (machinery as it is now) against seeded changes that were
# confirmed earlier; results replace /tmp/seed-out/<Cxx-round>/result-<k>.json. SEED_VERIF selects the copy of /verif.
cd /verif
export SEED_VERIF=${SEED_VERIF:-/tmp/verif-seed-a}
log=$1; shift
for pr in "$@"; do
  p=${pr%%-*}
  for k in 1 2 3; do
    d=/tmp/seed-out/$pr/$k
    [ -f $d/patch.diff ] || continue
    prev=/tmp/seed-out/$pr/result-$k.json
    SEED_PREV=$prev python3 tools/seedtest.py $p $d > /tmp/seed-out/$pr/result-$k.new 2>/tmp/seed-out/$pr/result-$k.err && mv /tmp/seed-out/$pr/result-$k.new $prev
    python3 - "$pr" "$k" <<'PY'
import json,sys
pr,k=sys.argv[1],sys.argv[2]
try:
    d=json.load(open(f'/tmp/seed-out/{pr}/result-{k}.json'))
    print(d['name'],'confirmed=',d['confirmed'],'detected=',d.get('detected'),'input=',d.get('detected_with_input'),[(r['tier'],r['rc'],r['wall_s']) for r in d.get('checks',[])], flush=True)
except Exception as e:
    print(pr,k,'ERROR',e, flush=True)
PY
  done
done
echo ALLDONE
