#!/usr/bin/env python3
"""benign_collect.py — copies the property-preserving changes from /tmp/benign-out into
/verif/benign/<Cxx>-b<k>/ (patch.diff, meta.json with the latest check result) and rewrites DESIGN.md §10b.
A change's `first_result` is kept when a later run differs (an oracle was corrected in between)."""
import glob, json, os, re, shutil

SRC, DST = "/tmp/benign-out", "/verif/benign"


def classify(text):
    if "[check]" in text and ": ok" in text:
        return "ok"
    m = re.search(r"VIOLATION property=\S+ replay=\S+( no-failing-input-found)?", text)
    if m:
        return "tie broken, nothing found (no-failing-input-found)" if m.group(1) else "CONCRETE INPUT REPORTED"
    return "no result"


def main():
    os.makedirs(DST, exist_ok=True)
    for d in sorted(glob.glob(os.path.join(SRC, "C[0-9][0-9]"))):
        pid = os.path.basename(d)
        for k in ("1", "2", "3"):
            src = os.path.join(d, k)
            res = os.path.join(d, f"result-{k}-quick.txt")
            if not (os.path.exists(os.path.join(src, "patch.diff")) and os.path.exists(res)):
                continue
            text = open(res).read()
            try:
                m = json.load(open(os.path.join(src, "meta.json")))
            except Exception:
                m = {}
            dst = os.path.join(DST, f"{pid}-b{k}")
            os.makedirs(dst, exist_ok=True)
            shutil.copyfile(os.path.join(src, "patch.diff"), os.path.join(dst, "patch.diff"))
            mp = os.path.join(dst, "meta.json")
            old = json.load(open(mp)) if os.path.exists(mp) else {}
            cls = classify(text)
            lines = [l for l in text.strip().split("\n") if l.strip()]
            detail = " ".join(lines[:2])[:400]
            entry = {"keeps_property": pid, "summary": m.get("summary"), "why_property_still_holds": m.get("why_property_still_holds"),
                     "observable_difference": m.get("observable_difference"),
                     "check": f"./check {pid} quick on a scratch worktree with the patch (VERIF_REPO)", "result": cls, "detail": detail,
                     "first_result": old.get("first_result") or cls, "first_detail": old.get("first_detail") or detail,
                     "correction": old.get("correction")}
            json.dump(entry, open(mp, "w"), indent=1)
    table()


def table():
    rows = []
    for mp in sorted(glob.glob(os.path.join(DST, "*", "meta.json"))):
        name = os.path.basename(os.path.dirname(mp))
        m = json.load(open(mp))
        summ = (m.get("summary") or "").replace("|", "/").replace("\n", " ")
        if len(summ) > 200:
            summ = summ[:197] + "..."
        res = m.get("result")
        if m.get("first_result") and m["first_result"] != res:
            res += f" (first run: {m['first_result']}; {m.get('correction') or 'oracle corrected'})"
        rows.append(f"| {name} | {summ} | {res} |")
    n_ok = sum(1 for r in rows if "| ok" in r)
    n_tie = sum(1 for r in rows if "| tie broken" in r)
    n_fa = sum(1 for r in rows if "first run: CONCRETE" in r)
    n_bad = sum(1 for r in rows if "| CONCRETE" in r)
    text = ("## 10b. Property-preserving changes (soundness test of the oracles)\n\n"
            "Written by `tools/benign_collect.py` from `/verif/benign/*/meta.json`. Each change was written by a fresh sub-agent that saw only "
            "the property text and a scratch worktree (`tools/benign_prompt.py`); it keeps the property true, compiles and passes the unedited "
            "suite. `ok` = the check passed; `tie broken …` = a regenerated fact, a theorem about the extracted programs or the "
            "model/implementation correspondence no longer checks, the search (thorough generators, three seeds, direct oracles on the real code) "
            "found no failing input, and the check reports `VIOLATION … no-failing-input-found` as the brief prescribes for a rewrite. "
            "A concrete input reported on such a change is a false alarm of a direct oracle: every one found was corrected (§0.4) and the change re-run.\n\n"
            f"Totals: {len(rows)} changes; {n_ok} ok, {n_tie} tie broken with nothing found, {n_fa} of these first reported a concrete input and led to a correction, "
            f"{n_bad} still report a concrete input.\n\n"
            "| change | what it does | answer of `./check <id> quick` |\n|---|---|---|\n" + "\n".join(rows) + "\n")
    p = "/verif/DESIGN.md"
    s = open(p).read()
    a = s.find("## 10b. Property-preserving changes")
    if a >= 0:
        b = s.find("\n## ", a + 10)
        s = s[:a] + text + "\n" + s[b + 1:]
    else:
        b = s.find("## Appendix A")
        s = s[:b] + text + "\n" + s[b:]
    open(p, "w").write(s)
    print(f"{len(rows)} benign changes: {n_ok} ok, {n_tie} tie, {n_fa} corrected false alarms, {n_bad} open")


if __name__ == "__main__":
    main()
