#!/usr/bin/env python3
"""collect_seeds.py — copies every confirmed seeded change from /tmp/seed-out into
/verif/seeded/<Cxx>-r<round>-<k>/ (patch.diff, the demonstration, meta.json) and rewrites the
table in DESIGN.md §11 from the meta.json files. Safe to run repeatedly.

meta.json keeps the LATEST result of running our checks against the change (field `ran`) and, when a
change was missed at first and the machinery was strengthened afterwards, the history (`history`).
"""
import glob, json, os, re, shutil, sys

FIRST = {}
SRC = "/tmp/seed-out"
DST = "/verif/seeded"
ROUND = {"1": "r1", "2": "r2", "3": "r2b", "4": "r3", "5": "r4", "6": "r5", "7": "r6", "8": "r7", "9": "r8", "10": "r9", "11": "r10"}


def main():
    os.makedirs(DST, exist_ok=True)
    global FIRST
    try:
        FIRST = json.load(open(os.path.join(DST, "first_runs.json")))
    except Exception:
        FIRST = {}
    for d in sorted(glob.glob(os.path.join(SRC, "C*-*"))):
        base = os.path.basename(d)
        m = re.fullmatch(r"(C\d+)-(\d+)", base)
        if not m:
            continue
        pid, rnd = m.group(1), ROUND.get(m.group(2), "r" + m.group(2))
        for k in ("1", "2", "3"):
            src = os.path.join(d, k)
            res_path = os.path.join(d, f"result-{k}.json")
            if not os.path.exists(os.path.join(src, "patch.diff")) or not os.path.exists(res_path):
                continue
            try:
                res = json.load(open(res_path))
                meta_in = json.load(open(os.path.join(src, "meta.json")))
            except Exception:
                continue
            name = f"{pid}-{rnd}-{k}"
            dst = os.path.join(DST, name)
            if not res.get("confirmed"):
                continue
            os.makedirs(dst, exist_ok=True)
            shutil.copyfile(os.path.join(src, "patch.diff"), os.path.join(dst, "patch.diff"))
            if os.path.exists(os.path.join(src, "demo_test.go")):
                shutil.copyfile(os.path.join(src, "demo_test.go"), os.path.join(dst, "demo_test.go.txt"))
            if os.path.isdir(os.path.join(src, "demo")):
                for root, _, fs in os.walk(os.path.join(src, "demo")):
                    for f in fs:
                        rel = os.path.relpath(os.path.join(root, f), src)
                        out = os.path.join(dst, rel + (".txt" if f.endswith(".go") or f == "go.mod" else ""))
                        os.makedirs(os.path.dirname(out), exist_ok=True)
                        shutil.copyfile(os.path.join(root, f), out)
            meta_path = os.path.join(dst, "meta.json")
            old = json.load(open(meta_path)) if os.path.exists(meta_path) else {}
            ran = res.get("checks")
            entry = {
                "breaks_property": pid,
                "summary": meta_in.get("summary"),
                "needs_to_manifest": meta_in.get("needs"),
                "demonstration": meta_in.get("demo"),
                "package_dir": meta_in.get("package_dir"),
                "confirmed_by": "tools/seedtest.py in a scratch worktree: patch applies, go build + go test pass with it (flaky suite tests retried), the demonstration fails with it and passes without it",
                "ran": ran,
                "detected": res.get("detected"),
                "detected_with_concrete_input": res.get("detected_with_input"),
                "history": old.get("history", []),
            }
            if not old.get("history") and not old.get("ran"):
                # first run of this seed, recovered from the batch logs (rounds r4..r7 were collected only at the end)
                fr = FIRST.get(f"{pid}-{m.group(2)}-{k}")
                if fr and [(x["tier"], x["rc"]) for x in fr.get("ran", [])] != [(x["tier"], x["rc"]) for x in (ran or [])]:
                    entry["history"] = [{"ran": fr["ran"], "detected": fr["detected"], "detected_with_concrete_input": fr["detected_with_concrete_input"]}]
            if old.get("ran") and old.get("ran") != ran:
                entry["history"] = old.get("history", []) + [{"ran": old.get("ran"), "detected": old.get("detected"), "detected_with_concrete_input": old.get("detected_with_concrete_input")}]
            json.dump(entry, open(meta_path, "w"), indent=1)
    table()


def table():
    rows = []
    for mp in sorted(glob.glob(os.path.join(DST, "*", "meta.json"))):
        name = os.path.basename(os.path.dirname(mp))
        m = json.load(open(mp))
        ran = m.get("ran") or []
        last = ran[-1] if ran else {}
        how = "MISSED"
        if m.get("detected"):
            tier = last.get("tier", "?")
            how = f"{tier}: " + ("concrete input" if m.get("detected_with_concrete_input") else "tie/correspondence only (no-failing-input-found)")
        hist = ""
        if m.get("history"):
            first = m["history"][0]
            if not first.get("detected"):
                hist = " (missed at first; machinery strengthened)"
            elif not first.get("detected_with_concrete_input") and m.get("detected_with_concrete_input"):
                hist = " (first only via the tie; generator widened)"
        summ = (m.get("summary") or "").replace("|", "/").replace("\n", " ")
        if len(summ) > 170:
            summ = summ[:167] + "..."
        rows.append(f"| {name} | {summ} | {how}{hist} |")
    # per-round summary: how many were caught by the machinery as it was when the round was first run, and now
    rounds = {}
    for mp in sorted(glob.glob(os.path.join(DST, "*", "meta.json"))):
        name = os.path.basename(os.path.dirname(mp))
        m = json.load(open(mp))
        rd = name.split("-")[1]
        first = (m.get("history") or [{"detected": m.get("detected"), "detected_with_concrete_input": m.get("detected_with_concrete_input")}])[0]
        r = rounds.setdefault(rd, {"n": 0, "first": 0, "first_input": 0, "now": 0, "now_input": 0})
        r["n"] += 1
        r["first"] += 1 if first.get("detected") else 0
        r["first_input"] += 1 if first.get("detected_with_concrete_input") else 0
        r["now"] += 1 if m.get("detected") else 0
        r["now_input"] += 1 if m.get("detected_with_concrete_input") else 0
    summ = "| round | seeds | caught when first run (with concrete input) | caught by the final machinery (with concrete input) |\n|---|---|---|---|\n"
    for rd in sorted(rounds, key=lambda x: (len(x), x)):
        r = rounds[rd]
        summ += f"| {rd} | {r['n']} | {r['first']} ({r['first_input']}) | {r['now']} ({r['now_input']}) |\n"
    tot = {k: sum(r[k] for r in rounds.values()) for k in ("n", "first", "first_input", "now", "now_input")}
    summ += f"| all | {tot['n']} | {tot['first']} ({tot['first_input']}) | {tot['now']} ({tot['now_input']}) |\n"
    text = "## 11. Seeded changes and which check catches them\n\n" + "Rounds r1..r9 were written by fresh sub-agents (property text + scratch worktree only); from r5 on the agent was also given one-line summaries of every earlier idea for that property and told to find different ones. After each round the misses were analysed, generators widened or oracles added, and at the end every seed of every round was re-run against the final machinery (`tools/finalpass.sh`).\n\n" + summ + "\n" + ""
    text += "Written by `tools/collect_seeds.py` from `/verif/seeded/*/meta.json`. Every change was written by a fresh sub-agent that saw only the property text and a scratch worktree; it compiles, passes the repository's unedited test suite, and comes with a demonstration that fails with it and passes without it (all re-confirmed by `tools/seedtest.py`). `quick`/`thorough` = the tier of `./check <id>` that reported it.\n\n| seed | change | caught by |\n|---|---|---|\n" + "\n".join(rows) + "\n"
    p = "/verif/DESIGN.md"
    s = open(p).read()
    if "## 11. Seeded changes and which check catches them" in s:
        s = s[:s.index("## 11. Seeded changes and which check catches them")]
    s = s.rstrip("\n") + "\n\n" + text
    open(p, "w").write(s)
    det = sum(1 for r in rows if "MISSED" not in r)
    print(f"{len(rows)} seeds, {det} detected, {len(rows) - det} missed")


if __name__ == "__main__":
    main()
