#!/usr/bin/env python3
"""collect_seeds.py — copies every confirmed seeded change from /tmp/seed-out into
/verif/seeded/<Cxx>-r<round>-<k>/ (patch.diff, the demonstration, meta.json) and rewrites the
table in DESIGN.md §11 from the meta.json files. Safe to run repeatedly.

meta.json keeps the LATEST result of running our checks against the change (field `ran`) and, when a
change was missed at first and the machinery was strengthened afterwards, the history (`history`).
"""
import glob, json, os, re, shutil, sys

SRC = "/tmp/seed-out"
DST = "/verif/seeded"
ROUND = {"1": "r1", "2": "r2", "3": "r2b", "4": "r3", "5": "r4", "6": "r5", "7": "r6", "8": "r7"}


def main():
    os.makedirs(DST, exist_ok=True)
    for d in sorted(glob.glob(os.path.join(SRC, "C*-*"))):
        base = os.path.basename(d)
        m = re.fullmatch(r"(C\d+)-(\d)", base)
        if not m:
            continue
        pid, rnd = m.group(1), ROUND.get(m.group(2), "r" + m.group(2))
        for k in ("1", "2", "3"):
            src = os.path.join(d, k)
            res_path = os.path.join(d, f"result-{k}.json")
            if not os.path.exists(os.path.join(src, "patch.diff")) or not os.path.exists(res_path):
                continue
            try:
                res = json.load(open(res_path))
                meta_in = json.load(open(os.path.join(src, "meta.json")))
            except Exception:
                continue
            name = f"{pid}-{rnd}-{k}"
            dst = os.path.join(DST, name)
            if not res.get("confirmed"):
                continue
            os.makedirs(dst, exist_ok=True)
            shutil.copyfile(os.path.join(src, "patch.diff"), os.path.join(dst, "patch.diff"))
            if os.path.exists(os.path.join(src, "demo_test.go")):
                shutil.copyfile(os.path.join(src, "demo_test.go"), os.path.join(dst, "demo_test.go.txt"))
            if os.path.isdir(os.path.join(src, "demo")):
                for root, _, fs in os.walk(os.path.join(src, "demo")):
                    for f in fs:
                        rel = os.path.relpath(os.path.join(root, f), src)
                        out = os.path.join(dst, rel + (".txt" if f.endswith(".go") or f == "go.mod" else ""))
                        os.makedirs(os.path.dirname(out), exist_ok=True)
                        shutil.copyfile(os.path.join(root, f), out)
            meta_path = os.path.join(dst, "meta.json")
            old = json.load(open(meta_path)) if os.path.exists(meta_path) else {}
            ran = res.get("checks")
            entry = {
                "breaks_property": pid,
                "summary": meta_in.get("summary"),
                "needs_to_manifest": meta_in.get("needs"),
                "demonstration": meta_in.get("demo"),
                "package_dir": meta_in.get("package_dir"),
                "confirmed_by": "tools/seedtest.py in a scratch worktree: patch applies, go build + go test pass with it (flaky suite tests retried), the demonstration fails with it and passes without it",
                "ran": ran,
                "detected": res.get("detected"),
                "detected_with_concrete_input": res.get("detected_with_input"),
                "history": old.get("history", []),
            }
            if old.get("ran") and old.get("ran") != ran:
                entry["history"] = old.get("history", []) + [{"ran": old.get("ran"), "detected": old.get("detected"), "detected_with_concrete_input": old.get("detected_with_concrete_input")}]
            json.dump(entry, open(meta_path, "w"), indent=1)
    table()


def table():
    rows = []
    for mp in sorted(glob.glob(os.path.join(DST, "*", "meta.json"))):
        name = os.path.basename(os.path.dirname(mp))
        m = json.load(open(mp))
        ran = m.get("ran") or []
        last = ran[-1] if ran else {}
        how = "MISSED"
        if m.get("detected"):
            tier = last.get("tier", "?")
            how = f"{tier}: " + ("concrete input" if m.get("detected_with_concrete_input") else "tie/correspondence only (no-failing-input-found)")
        hist = ""
        if m.get("history"):
            first = m["history"][0]
            if not first.get("detected"):
                hist = " (missed at first; machinery strengthened)"
            elif not first.get("detected_with_concrete_input") and m.get("detected_with_concrete_input"):
                hist = " (first only via the tie; generator widened)"
        summ = (m.get("summary") or "").replace("|", "/").replace("\n", " ")
        if len(summ) > 170:
            summ = summ[:167] + "..."
        rows.append(f"| {name} | {summ} | {how}{hist} |")
    text = "## 11. Seeded changes and which check catches them\n\nWritten by `tools/collect_seeds.py` from `/verif/seeded/*/meta.json`. Every change was written by a fresh sub-agent that saw only the property text and a scratch worktree; it compiles, passes the repository's unedited test suite, and comes with a demonstration that fails with it and passes without it (all re-confirmed by `tools/seedtest.py`). `quick`/`thorough` = the tier of `./check <id>` that reported it.\n\n| seed | change | caught by |\n|---|---|---|\n" + "\n".join(rows) + "\n"
    p = "/verif/DESIGN.md"
    s = open(p).read()
    if "## 11. Seeded changes and which check catches them" in s:
        s = s[:s.index("## 11. Seeded changes and which check catches them")]
    s = s.rstrip("\n") + "\n\n" + text
    open(p, "w").write(s)
    det = sum(1 for r in rows if "MISSED" not in r)
    print(f"{len(rows)} seeds, {det} detected, {len(rows) - det} missed")


if __name__ == "__main__":
    main()
