#!/usr/bin/env python3
"""seed_prompt.py <Cxx> <n> — creates a scratch git worktree of /repo for a fresh sub-agent and prints
the prompt to give it (property text only; nothing from /verif)."""
import json, subprocess, sys, os
pid, n = sys.argv[1], sys.argv[2]
p = [json.loads(l) for l in open('/verif/properties.jsonl') if l.strip()]
p = [x for x in p if x['id'] == pid][0]
wt = f"/tmp/seed/{pid}-{n}"
out = f"/tmp/seed-out/{pid}-{n}"
if not os.path.exists(wt):
    subprocess.run(["git", "-C", "/repo", "worktree", "add", "--detach", wt, "HEAD"], check=True, capture_output=True)
os.makedirs(out, exist_ok=True)
print(f"""You are testing how good a verification setup is by planting realistic bugs. You work ONLY in the scratch git worktree {wt} (a checkout of the Go library whoisnian/glb) and write results ONLY to {out}. Do not read or touch /verif or /repo, and do not look for other checkers on this machine: what you write must be independent of them.

Environment for every shell call: `export GOFLAGS=-mod=mod GOPROXY=off GOSUMDB=off GOTOOLCHAIN=local` (no network). Run the existing test suite with `cd {wt} && go test -count=1 ./...` (it passes on the unchanged tree; `TestWaitForInterrupt` in util/osutil is known to be flaky and may be ignored).

The property (a semantic property the library is supposed to satisfy):

  id: {p['id']}
  title: {p['title']}
  statement: {p['statement']}
  quantified over: {p['quantifier']['text']}
  why the tests cannot settle it: {p['why_tests_cant']}
  code anchors: {json.dumps(p['anchors'].get('files'))}; mechanisms: {json.dumps([m['name'] for m in p['anchors'].get('mechanism', [])])}

Your task: produce THREE different, independent source changes to the library (each as its own patch against the unchanged worktree) such that each change
  (a) BREAKS this property (the statement above becomes false for some input / schedule / history),
  (b) still COMPILES and still PASSES the whole existing test suite (unedited),
  (c) looks like a plausible mistake or "optimisation" a maintainer could make (an off-by-one, a dropped case, a reordered statement, a forgotten reset, a cache added, a fast path…), not sabotage that ordinary use would expose at once, and
  (d) needs something SPECIFIC to manifest: a particular interleaving, a multi-step sequence of operations, an unusual input, a boundary size, or two cooperating sites that each look fine alone. Prefer changes whose effect is invisible to simple smoke tests. Do not special-case magic constants like "if input == 12345".
Only edit non-test .go files of the library (no test files, no files with a `//go:build verif` tag, no go.mod).

For each change k = 1, 2, 3 write into {out}/k/:
  * `patch.diff` — `git -C {wt} diff` of that change alone (reset the worktree with `git -C {wt} checkout -- .` between changes);
  * a demonstration: either `demo_test.go` (a Go test file to be dropped into the package directory named in meta.json) or `demo/main.go` (a small program using the module via `replace github.com/whoisnian/glb => <worktree>`), which FAILS (test failure / non-zero exit) with the change applied and PASSES without it — verify both yourself and keep the outputs in `with.txt` / `without.txt`;
  * `meta.json`: {{"property": "{pid}", "summary": "...what was changed...", "needs": "...what it needs in order to manifest...", "demo": "how to run the demonstration", "package_dir": "...", "tests_pass": true}}.
Also confirm for each change that `go build ./... && go test -count=1 ./...` passes in the worktree with the change applied, and say so in meta.json.

Finish by resetting the worktree (`git -C {wt} checkout -- . && git -C {wt} clean -fd`) and reply with a short list of the three changes.""")
