#!/usr/bin/env python3
"""integrate.py <entry.json> — merge a properties_cfg entry (a JSON object {"Cxx": {...}}) into
properties_cfg.json, drop the ids from tools/not_claimed.json and regenerate MANIFEST.json."""
import json, os, subprocess, sys
V = os.path.dirname(os.path.dirname(os.path.abspath(__file__)))
cfg = json.load(open(os.path.join(V, "properties_cfg.json")))
new = json.load(open(sys.argv[1]))
nc = json.load(open(os.path.join(V, "tools", "not_claimed.json")))
for k, v in new.items():
    for req in ("props", "streams", "level_text", "level_note"):
        assert req in v, (k, req)
    cfg[k] = v
    nc.pop(k, None)
json.dump(dict(sorted(cfg.items())), open(os.path.join(V, "properties_cfg.json"), "w"), indent=1)
json.dump(nc, open(os.path.join(V, "tools", "not_claimed.json"), "w"), indent=1)
subprocess.run([sys.executable, os.path.join(V, "tools", "gen_manifest.py")], check=True)
