#!/usr/bin/env python3
"""Regenerates /verif/MANIFEST.json from properties_cfg.json (claimed checks) and
properties.jsonl (everything not claimed goes to not_applicable with its recorded reason)."""
import json, os, subprocess
V = os.path.dirname(os.path.dirname(os.path.abspath(__file__)))
cfg = json.load(open(os.path.join(V, "properties_cfg.json")))
ids = [json.loads(l)["id"] for l in open(os.path.join(V, "properties.jsonl")) if l.strip()]
pending = json.load(open(os.path.join(V, "tools", "not_claimed.json")))
hooks = subprocess.run(["git", "-C", "/repo", "log", "--format=%H %s"], capture_output=True, text=True).stdout.strip().split("\n")
hook_commits = [l.split()[0] for l in hooks if " verif hook" in l]
checks = []
for pid in ids:
    if pid not in cfg:
        continue
    c = cfg[pid]
    checks.append({
        "property_id": pid,
        "quick_cmd": f"./check {pid} quick",
        "thorough_cmd": f"./check {pid} thorough",
        "evidence_file": f"/verif/evidence/{pid}.json",
        "replay_cmd_template": "./check --replay {path}",
        "engine": "lean4-proof",
        "level_claimed": {"category": "proof", "text": c["level_text"], "design_ref": c.get("design_ref", "DESIGN.md §4 " + pid)},
        "level_note": c["level_note"],
        "technique": c.get("technique", "Lean 4 machine-checked proof over an executable model; model tied to the source by regenerated tables/facts and a differential correspondence run"),
    })
m = {
    "version": 1,
    "setup_cmd": "./check --setup",
    "hooks": {
        "guard": "verif",
        "enable": "go build -tags verif (the harness module replaces github.com/whoisnian/glb with /repo)",
        "baseline_off_cmd": "cd /repo && go test -mod=mod -json -vet=off -count=1 -timeout 25m ./...",
        "source_commits": hook_commits,
        "add_only": True,
    },
    "engines": [{"name": "lean4-proof", "path": "/verif/lean", "serves_properties": [c["property_id"] for c in checks],
                 "kind_free_text": "Lean 4.33 theorems over executable models (core Lean only); models tied to /repo by tools/extract (regenerated tables, CFGs, ordering facts re-proved by decide) and by a differential correspondence run (Go harness on the real code vs compiled Lean driver); direct oracles on the real code search for replays"}],
    "checks": checks,
    "not_applicable": [{"property_id": p, "reason": pending.get(p, "not yet claimed")} for p in ids if p not in cfg],
    "notes": "See DESIGN.md. Fix commits and findings: known_findings.json.",
}
json.dump(m, open(os.path.join(V, "MANIFEST.json"), "w"), indent=1)
print("claimed:", [c["property_id"] for c in checks])
