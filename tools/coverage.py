#!/usr/bin/env python3
"""coverage.py — writes /verif/COVERAGE.md: for every function of /repo (non-test, non-hook files) how it
is tied to the Lean development:
  T  translated by tools/extract/golean.go on every run + tie theorem `translated = model` (DESIGN §0.7)
  P  compiled by the older extractor into a program the model interprets (TaskLane select programs)
  M  hand model with theorems; tied by regenerated facts (tables, statement order, lock discipline) and
     by the correspondence stream of its area
  n  not modelled (thin wrappers over the standard library, terminal codes, accessors)
Regenerate after changing the unit table: python3 tools/coverage.py"""
import re, glob, json, os
V = os.path.dirname(os.path.dirname(os.path.abspath(__file__)))
facts = json.load(open(os.path.join(V, "lean/Glb/Generated/facts.json")))
translated = {}
for k, v in facts.items():
    if k.startswith("golean.") and isinstance(v, list) and k != "golean.TrSelfTest":
        for n in v:
            translated.setdefault(n, []).append(k[7:])
AMB = {"WithGroup", "WithAttrs", "Handle"}

def is_tr(rel, recv, name):
    if name not in translated: return False
    if name in AMB: return rel in ("logger/json_handler.go", "logger/text_handler.go", "logger/nano_handler.go")
    if name == "Get": return "Params" in recv
    if name in ("Add", "Remove", "Contains"): return "IPv4Filter" in recv
    return True

# hand classification of what is not translated: (file, name or *) -> (class, note)
HAND = [
    ("tasklane/tasklane.go", "startQueue|startWorker|PushTask", "P", "select programs compiled from the AST, Tie/TaskLane (C06-08, C14)"),
    ("tasklane/tasklane.go", "*", "M", "Model/TaskLane: New/Wait/Status shape facts, trace inclusion (C06-08, C14)"),
    ("logger/logger.go", "argsToAttrs", "M", "Model/AuxLogger + Props/AuxFns (support)"),
    ("logger/logger.go", "*", "M", "Model/DeriveSlices, Model/LogSys: With/WithGroup clone-and-append, level gate, one Handle per record (C02, C03)"),
    ("logger/json_handler.go", "NewJsonHandler", "M", "Model/JsonHandler.H.init"),
    ("logger/text_handler.go", "NewTextHandler", "M", "Model/TextHandler.Handler default"),
    ("logger/json_handler.go", "clone", "M", "Tie/LoggerClone: Clip + write-through-the-clone facts (C03)"),
    ("logger/text_handler.go", "clone|prefix|freePrefix", "M", "Tie/LoggerClone, Model/TextHandler (C03, C13)"),
    ("logger/nano_handler.go", "clone", "M", "Tie/LoggerClone (C03)"),
    ("logger/json_handler.go", "appendJsonValue|appendJsonMarshal", "M", "Model/JsonHandler.appendJsonValue: standard-library results are payloads with a contract; stream json compares bytes and decoded trees (C01)"),
    ("logger/text_handler.go", "appendTextValue", "M", "Model/TextHandler.appendTextValue: payloads; stream text (C13)"),
    ("logger/nano_handler.go", "*", "M", "Model/NanoHandler + Props/C03b; stream nano"),
    ("logger/buffer.go", "newBuffer|freeBuffer", "M", "Model/LogSys pool (any pool), Tie/LoggerHandle freeBuffer shape (C02)"),
    ("logger/httpd.go", "Relay", "M", "Model/Relay interprets the extracted statement order with a defer stack, Tie/Relay (C15)"),
    ("logger/handler.go", "Enabled", "M", "Model/LogSys level gate, Tie/LoggerHandle: gate first (C02)"),
    ("logger/handler.go", "*", "n", "Options constructor / accessors"),
    ("httpd/httpd.go", "ServeHTTP|newStoreWith|NewMux", "M", "Model/Store, Model/StoreConc (pooled Stores over Go slices), Tie/Httpd id counter shape (C05); dispatch in Model/Router (C04)"),
    ("httpd/httpd.go", "*", "M", "Model/Router registration history (C04)"),
    ("httpd/store.go", "Write|WriteHeader|Flush|markFlushed|FlushError|Header", "M", "Model/Relay ResponseWriter status (C15)"),
    ("httpd/store.go", "CookieValue", "M", "Model/AuxHttpd (support)"),
    ("httpd/store.go", "GetID|RouteParam|RouteParamAny", "M", "Model/Store ids, Model/Router paramsGet (C04, C05)"),
    ("httpd/store.go", "*", "n", "thin wrappers over net/http (Respond200, RespondJson, Redirect, Error404/500, CreateHandler)"),
    ("httpd/tree.go", "nextNodeOrNew", "M", "Glb/Go/LibRouter.ensureAt = Model/Router.modifyAt (pointer walk; rewrite rule of parseRoute)"),
    ("httpd/tree.go", "*", "n", "nameOfFunc / newRouteInfo (reflection for logs)"),
    ("config/config.go", "NewFlagSet|parseStructFields|Parse|envParse|parseConfigJson|FromCommandLine", "M", "Model/Config: flag table from a struct description, Parse step order from Tie/Config, priority theorem (C09)"),
    ("config/config.go", "*", "n", "Lookup/Args/ShowUsage accessors, PrintUsage"),
    ("config/value.go", "*", "M", "Model/Config.World: strconv / time / base64 parsers are a parameter (parseText); empty text = zero value proved (C09)"),
    ("config/json.go", "*", "M", "encoding/json is a parameter of Model/Config (C09)"),
    ("daemon/daemon.go", "*", "M", "Model/Daemon: 3 processes, statement order from Tie/Daemon (C20)"),
    ("util/ioutil/progress.go", "*", "M", "Model/Progress + trace acceptor, Tie/Ioutil (C19)"),
    ("util/ioutil/ioutil.go", "*", "n", "SeekAndReadAll, ReadRand"),
    ("util/osutil/file.go", "*", "M", "Model/Files (POSIX names/inodes/symlinks/devices), call order from Tie/Osutil (C18)"),
    ("util/osutil/osutil.go", "*", "n", "signal waiting"),
    ("util/netutil/ip.go", "FirstIP", "M", "Model/AuxNetutil (support)"),
    ("util/netutil/filter.go", "NewIPv4Filter", "M", "Tie/TrFilter.cinit = the zero value"),
    ("util/netutil/netutil.go", "*", "n", "GetOutBoundIP (dials)"),
    ("util/strutil/strutil.go", "UnsafeStringToBytes|UnsafeBytesToString", "n", "identity on bytes (unsafe casts)"),
    ("ansi/", "*", "n", "terminal detection, colour constants, SetCursorPos (fmt)"),
]

def classify(rel, recv, name):
    if is_tr(rel, recv, name):
        return "T", "Generated/" + ", ".join(sorted(set(translated[name])))
    for f, pat, cls, note in HAND:
        if rel.startswith(f) and (pat == "*" or re.fullmatch(pat, name)):
            return cls, note
    return "n", ""

rows = []
for f in sorted(glob.glob("/repo/**/*.go", recursive=True)):
    if f.endswith("_test.go") or "verif_" in os.path.basename(f):
        continue
    src = open(f).read().split("\n")
    i = 0
    while i < len(src):
        m = re.match(r"^func (\([^)]*\) )?([A-Za-z_0-9]+)\(", src[i])
        if m:
            j = i
            if not (src[i].rstrip().endswith("}") and "{" in src[i]):
                while j < len(src) and src[j] != "}":
                    j += 1
            rel = os.path.relpath(f, "/repo")
            cls, note = classify(rel, (m.group(1) or "").strip(), m.group(2))
            rows.append((rel, (m.group(1) or "").strip(), m.group(2), j - i + 1, cls, note))
            i = j + 1
        else:
            i += 1
tot = sum(r[3] for r in rows)
by = {}
for r in rows:
    by[r[4]] = by.get(r[4], 0) + r[3]
out = ["# Coverage of /repo by the Lean development (generated by tools/coverage.py)", "",
       f"{len(rows)} functions, {tot} lines of function bodies (non-test, non-hook files).", "",
       "| class | meaning | lines | share |", "|---|---|---|---|"]
names = {"T": "translated from the source on every run (golean) and proved equal to the model",
         "P": "compiled from the AST into a program the model interprets (TaskLane)",
         "M": "hand model + theorems; tied by regenerated facts and the correspondence stream",
         "n": "not modelled"}
for c in "TPMn":
    out.append(f"| {c} | {names[c]} | {by.get(c, 0)} | {100 * by.get(c, 0) / tot:.1f}% |")
out += ["", "| file | function | lines | class | where |", "|---|---|---|---|---|"]
for rel, recv, name, n, cls, note in rows:
    out.append(f"| {rel} | {(recv + ' ') if recv else ''}{name} | {n} | {cls} | {note} |")
open(os.path.join(V, "COVERAGE.md"), "w").write("\n".join(out) + "\n")
print("\n".join(out[:12]))
