package main

// Stream "daemon" (C20): REAL processes. The harness binary re-executes itself the way the
// repository's test binary does: at the very top of main() (before argument handling)
// runEarlyHooks() registers the handler "verifd" and calls daemon.Run(); in a launcher or daemon
// process that call does the work and the process exits.
//
// Daemon handler (env controlled): optional delay, write <dir>/<pid>.marker ("pid ppid"),
// daemon.Done(), write <dir>/<pid>.after, stay alive for a while, exit.
//
// Scenarios: immediate Done, delayed Done, launcher paused at the verif pause point
// "launch.afterStart" until the daemon has returned from Done() (so Done() precedes the launcher's
// wait), several concurrent Launch calls (plain and paused), Launch from a caller process that
// exits afterwards.
//
// Direct oracle per Launch: nil error; the returned pid is the process that ran the handler; its
// marker exists when Launch returns (Launch returned after Done() was reached); the launcher is
// gone; the daemon's parent is neither the caller nor the launcher; the daemon is alive after
// Launch returned (and after the caller exited). Every wait is bounded; stray processes are
// killed at the end.
//
// Correspondence: the observed event order and outcome go to the Lean model for acceptance
// (lean/Glb/Driver/Daemon.lean).

import (
	"bytes"
	"fmt"
	"os"
	"os/exec"
	"path/filepath"
	"strconv"
	"strings"
	"sync"
	"syscall"
	"time"

	"github.com/whoisnian/glb/daemon"
)

func init() { streams["daemon"] = runDaemon }

// ---- early hook (called at the top of main) -----------------------------------------------------

var earlyHooks = []func(){dmEarly}

func runEarlyHooks() {
	for _, h := range earlyHooks {
		h()
	}
}

const (
	dmName      = "verifd"
	dmEnvDir    = "GLB_VERIF_DM_DIR"
	dmEnvDelay  = "GLB_VERIF_DM_DELAY_MS"
	dmEnvJitter = "GLB_VERIF_DM_JITTER"
	dmEnvLife   = "GLB_VERIF_DM_LIFE_MS"
	dmEnvRole   = "GLB_VERIF_ROLE"
	dmEnvDetach = "GLB_VERIF_DM_DETACH" // the handler makes itself a session leader (setsid) before Done(), as classic daemons do
	dmEnvScrub  = "GLB_VERIF_DM_SCRUB"  // the handler clears the daemon package's own env vars before Done()
	dmEnvDie    = "GLB_VERIF_DM_DIE"    // the handler exits with status 3 before reaching Done()
	dmEnvNested = "GLB_VERIF_DM_NESTED" // after Done() the daemon itself launches a second daemon (a supervisor starting a worker)
	dmWorker    = "verifw"
)

// dmWorkerHandler: the daemon a supervising daemon launches.
func dmWorkerHandler() {
	dir := os.Getenv(dmEnvDir)
	if dir == "" {
		return
	}
	pid, ppid := os.Getpid(), os.Getppid()
	dmWriteAtomic(filepath.Join(dir, strconv.Itoa(pid)+".worker"), fmt.Sprintf("%d %d", pid, ppid))
	if os.Getppid() == ppid {
		daemon.Done()
	}
	time.Sleep(1500 * time.Millisecond)
}

func dmEarly() {
	daemon.Register(dmWorker, dmWorkerHandler)
	daemon.Register(dmName, dmHandler)
	daemon.Register("", dmHandler) // registered under the empty name as well
	if daemon.Run() {
		os.Exit(0)
	}
	if os.Getenv(dmEnvRole) == "caller" {
		pid, err := daemon.Launch(dmName)
		fmt.Printf("pid=%d err=%v\n", pid, err)
		os.Exit(0)
	}
}

func dmWriteAtomic(path, content string) {
	tmp := path + ".tmp"
	if os.WriteFile(tmp, []byte(content), 0o644) == nil {
		os.Rename(tmp, path)
	}
}

// dmHandler runs in the daemon process.
func dmHandler() {
	dir := os.Getenv(dmEnvDir)
	if dir == "" {
		return
	}
	pid, ppid := os.Getpid(), os.Getppid()
	delay, _ := strconv.Atoi(os.Getenv(dmEnvDelay))
	if os.Getenv(dmEnvJitter) == "1" {
		delay += (pid % 7) * 5
	}
	life, _ := strconv.Atoi(os.Getenv(dmEnvLife))
	time.Sleep(time.Duration(delay) * time.Millisecond)
	if os.Getenv(dmEnvDie) == "1" {
		os.Exit(3) // a daemon that fails during start-up: Launch must report an error
	}
	if os.Getenv(dmEnvDetach) == "1" || pid%3 == 0 {
		// a daemon that logs while it starts up, BEFORE Done(): what it writes is not a failure of the launch
		fmt.Fprintln(os.Stderr, "daemon", pid, "starting up")
		fmt.Fprintln(os.Stdout, "daemon", pid, "says hello")
	}
	if os.Getenv(dmEnvDetach) == "1" {
		syscall.Setsid() // own session and process group: a Ctrl-C on the caller's terminal no longer reaches the daemon
	}
	if os.Getenv(dmEnvScrub) == "1" {
		// a daemon that cleans its environment (so that helpers it starts do not become daemons)
		os.Unsetenv("ENV_DAEMON_NAME")
		os.Unsetenv("ENV_DAEMON_FLAG")
	}
	dmWriteAtomic(filepath.Join(dir, strconv.Itoa(pid)+".marker"), fmt.Sprintf("%d %d", pid, ppid))
	res := "skipped:parent-changed"
	if os.Getppid() == ppid { // never signal anybody but the launcher
		res = fmt.Sprint(daemon.Done())
	}
	dmWriteAtomic(filepath.Join(dir, strconv.Itoa(pid)+".after"), fmt.Sprintf("%d %d %s", pid, os.Getppid(), res))
	if os.Getenv(dmEnvNested) == "1" {
		// a daemon may itself launch daemons: Launch(name) must start THAT handler, whatever the
		// calling process's own role variables say
		os.Unsetenv(dmEnvNested)
		wpid, werr := daemon.Launch(dmWorker)
		dmWriteAtomic(filepath.Join(dir, strconv.Itoa(pid)+".nested"), fmt.Sprintf("%d %v", wpid, werr))
	}
	// a daemon that logs: once the launcher is gone it writes to its standard error and output (a
	// daemon whose descriptors 1/2 lead to the launcher would be killed by SIGPIPE here)
	for i := 0; i < 200 && os.Getppid() == ppid; i++ {
		time.Sleep(5 * time.Millisecond)
	}
	time.Sleep(10 * time.Millisecond)
	_, e2 := fmt.Fprintln(os.Stderr, "daemon", pid, "log line")
	_, e1 := fmt.Fprintln(os.Stdout, "daemon", pid, "output line")
	dmWriteAtomic(filepath.Join(dir, strconv.Itoa(pid)+".logged"), fmt.Sprintf("%v %v", e1 == nil, e2 == nil))
	time.Sleep(time.Duration(life) * time.Millisecond)
}

// ---- /proc ----------------------------------------------------------------------------------------

// dmProc returns (state, ppid, ok) of a process.
func dmProc(pid int) (byte, int, bool) {
	data, err := os.ReadFile("/proc/" + strconv.Itoa(pid) + "/stat")
	if err != nil {
		return 0, 0, false
	}
	i := bytes.LastIndexByte(data, ')')
	f := strings.Fields(string(data[i+1:]))
	if i < 0 || len(f) < 2 {
		return 0, 0, false
	}
	pp, _ := strconv.Atoi(f[1])
	return f[0][0], pp, true
}

func dmAlive(pid int) bool {
	st, _, ok := dmProc(pid)
	return ok && st != 'Z' && st != 'X'
}

func dmIsOurs(pid int) bool {
	self, err1 := os.Readlink("/proc/self/exe")
	exe, err2 := os.Readlink("/proc/" + strconv.Itoa(pid) + "/exe")
	return err1 == nil && err2 == nil && self == exe
}

// ---- one Launch --------------------------------------------------------------------------------

type dmCase struct {
	Scenario string `json:"scenario"`
	DelayMs  int    `json:"delay_ms"`
	Paused   bool   `json:"launcher_paused_after_start"`
	Parallel int    `json:"parallel_launches"`
	Index    int    `json:"index"`
	// observations
	Pid         int    `json:"returned_pid"`
	Err         string `json:"error"`
	LauncherPid int    `json:"launcher_pid"`
	MarkerAtRet bool   `json:"marker_existed_when_launch_returned"`
	DoneResult  string `json:"done_result"`
	DaemonPpid  int    `json:"daemon_ppid_after_return"`
	Obs         string `json:"observed_events"`
	Outcome     string `json:"observed_outcome"`
}

type dmRun struct {
	s       *Stream
	mu      sync.Mutex
	toKill  map[int]bool
	base    string
	n       int
	selfPid int
}

func (d *dmRun) remember(pids ...int) {
	d.mu.Lock()
	for _, p := range pids {
		if p > 1 {
			d.toKill[p] = true
		}
	}
	d.mu.Unlock()
}

func (d *dmRun) newDir() string {
	d.n++
	dir := filepath.Join(d.base, "d"+strconv.Itoa(d.n))
	if err := os.MkdirAll(dir, 0o755); err != nil {
		fatal(err)
	}
	return dir
}

type dmLaunchResult struct {
	pid    int
	err    error
	marker []byte // content of <dir>/<pid>.marker read right after Launch returned (nil = absent)
	hang   bool
}

// dmLaunch calls the real daemon.Launch with a watchdog.
// dmLaunchName is the handler name the scenarios launch: normally dmName; the empty name is a name like any other.
var dmLaunchName = dmName

func dmLaunch(dir string) dmLaunchResult {
	ch := make(chan dmLaunchResult, 1)
	go func() {
		pid, err := daemon.Launch(dmLaunchName)
		var m []byte
		if err == nil {
			m, _ = os.ReadFile(filepath.Join(dir, strconv.Itoa(pid)+".marker"))
		}
		ch <- dmLaunchResult{pid: pid, err: err, marker: m}
	}()
	select {
	case r := <-ch:
		return r
	case <-time.After(40 * time.Second):
		return dmLaunchResult{hang: true}
	}
}

func dmWaitFile(path string, d time.Duration) ([]byte, bool) {
	deadline := time.Now().Add(d)
	for {
		if b, err := os.ReadFile(path); err == nil {
			return b, true
		}
		if time.Now().After(deadline) {
			return nil, false
		}
		time.Sleep(2 * time.Millisecond)
	}
}

func dmGlob(dir, suffix string) []string {
	m, _ := filepath.Glob(filepath.Join(dir, "*"+suffix))
	return m
}

// judge evaluates the property on one finished Launch and emits the correspondence line.
// callerPid: the process that called Launch (the harness itself, or the exited caller process).
func (d *dmRun) judge(c dmCase, dir string, r dmLaunchResult, callerPid int, callerExited bool) {
	s := d.s
	s.Evaluations++
	s.Count("scenario." + c.Scenario)
	fail := func(kind, detail string) {
		s.Violate(kind, detail, c)
	}
	if r.hang {
		c.Err = "Launch did not return within 40 s"
		fail("launch-hang", c.Err)
		return
	}
	c.Pid = r.pid
	if r.err != nil {
		c.Err = r.err.Error()
	}
	// every daemon of this directory must be cleaned up, whatever Launch said
	for _, m := range dmGlob(dir, ".marker") {
		if b, err := os.ReadFile(m); err == nil {
			var p, pp int
			fmt.Sscanf(string(b), "%d %d", &p, &pp)
			d.remember(p)
		}
	}
	d.remember(r.pid)

	c.MarkerAtRet = r.marker != nil
	var mpid int
	if r.marker != nil {
		fmt.Sscanf(string(r.marker), "%d %d", &mpid, &c.LauncherPid)
	}
	// outcome as observed
	res := "ok"
	launcher := "exited"
	if r.err != nil {
		res = "err"
		launcher = "failed"
		if strings.Contains(c.Err, "signal: interrupt") {
			launcher = "killed"
		}
	}
	if c.LauncherPid > 1 && dmAlive(c.LauncherPid) && dmIsOurs(c.LauncherPid) {
		launcher = "running"
		d.remember(c.LauncherPid)
	}
	dstate, parent := "none", "child"
	if r.err == nil {
		if dmAlive(r.pid) {
			dstate = "alive"
		} else {
			dstate = "dead"
		}
		_, c.DaemonPpid, _ = dmProc(r.pid)
		if c.DaemonPpid != callerPid && c.DaemonPpid != d.selfPid && c.DaemonPpid != c.LauncherPid && c.DaemonPpid != 0 {
			parent = "orphan"
		}
	} else if ms := dmGlob(dir, ".marker"); len(ms) > 0 && c.Parallel == 1 {
		// Launch failed although a daemon ran: look at that daemon
		b, _ := os.ReadFile(ms[0])
		var p, pp int
		fmt.Sscanf(string(b), "%d %d", &p, &pp)
		if dmAlive(p) {
			dstate = "alive"
		} else {
			dstate = "dead"
		}
		_, c.DaemonPpid, _ = dmProc(p)
		if c.DaemonPpid != callerPid && c.DaemonPpid != d.selfPid && (c.DaemonPpid != pp || !dmAlive(pp)) && c.DaemonPpid != 0 {
			parent = "orphan"
		}
		c.MarkerAtRet = true
	}
	c.Outcome = res + ":" + launcher + ":" + dstate + ":" + parent
	obs := []string{}
	if c.MarkerAtRet {
		obs = append(obs, "done")
	}
	if c.Paused {
		obs = append(obs, "release")
	}
	obs = append(obs, "ret")
	c.Obs = strings.Join(obs, ",")
	paused := "0"
	if c.Paused {
		paused = "1"
	}
	s.Line(fmt.Sprintf("launch now %s %s %s", paused, c.Obs, c.Outcome), "accepted "+c.Outcome)
	s.Traces++

	// ---- direct oracle ----
	if r.err != nil {
		fail("launch-error", "Launch returned error: "+c.Err+" (outcome "+c.Outcome+")")
		return
	}
	if r.marker == nil {
		fail("returned-before-done", fmt.Sprintf("Launch returned pid %d but %d.marker (written just before Done()) does not exist yet", r.pid, r.pid))
		return
	}
	if mpid != r.pid {
		fail("wrong-pid", fmt.Sprintf("marker of pid %d says the handler ran in pid %d", r.pid, mpid))
		return
	}
	if launcher != "exited" {
		fail("launcher-alive", fmt.Sprintf("launcher %d is still running after Launch returned", c.LauncherPid))
	}
	if dstate != "alive" {
		fail("daemon-dead", fmt.Sprintf("daemon %d is not alive right after Launch returned", r.pid))
		return
	}
	if parent != "orphan" {
		fail("daemon-not-orphaned", fmt.Sprintf("daemon %d has parent %d (caller %d, harness %d, launcher %d)", r.pid, c.DaemonPpid, callerPid, d.selfPid, c.LauncherPid))
	}
	// Done() really was called and succeeded; the daemon is still there a little later
	after, ok := dmWaitFile(filepath.Join(dir, strconv.Itoa(r.pid)+".after"), 5*time.Second)
	if !ok {
		fail("done-not-finished", fmt.Sprintf("daemon %d never reported the end of Done()", r.pid))
		return
	}
	var ap, app int
	fmt.Sscanf(string(after), "%d %d %s", &ap, &app, &c.DoneResult)
	if c.DoneResult != "<nil>" {
		fail("done-error", "Done() = "+c.DoneResult)
	}
	time.Sleep(20 * time.Millisecond)
	if !dmAlive(r.pid) {
		fail("daemon-dead", fmt.Sprintf("daemon %d died within 20 ms after Launch returned (caller exited: %v)", r.pid, callerExited))
	}
	// ... and it survives using its standard error / output once the launcher has gone
	if _, ok := dmWaitFile(filepath.Join(dir, strconv.Itoa(r.pid)+".logged"), 6*time.Second); !ok {
		fail("daemon-dead", fmt.Sprintf("daemon %d did not get past writing a line to its standard error and output after the launcher exited (alive now: %v)", r.pid, dmAlive(r.pid)))
	}
	if c.Paused || c.DelayMs > 0 {
		s.Nontrivial(fmt.Sprintf("%s/%d/%d", c.Scenario, c.DelayMs, c.Parallel))
	}
	s.Sample(c)
}

func dmSetenv(kv map[string]string) func() {
	for k, v := range kv {
		os.Setenv(k, v)
	}
	return func() {
		for k := range kv {
			os.Unsetenv(k)
		}
	}
}

// scenario: n parallel Launch calls from this process.
func (d *dmRun) scenario(name string, n, delayMs int, paused, jitter bool) {
	dir := d.newDir()
	env := map[string]string{dmEnvDir: dir, dmEnvDelay: strconv.Itoa(delayMs), dmEnvLife: "4000"}
	if jitter {
		env[dmEnvJitter] = "1"
	}
	goFile := filepath.Join(dir, "go")
	if paused {
		env["GLB_VERIF_PAUSE"] = "launch.afterStart"
		env["GLB_VERIF_PAUSE_FILE"] = goFile
	}
	restore := dmSetenv(env)
	results := make([]dmLaunchResult, n)
	var wg sync.WaitGroup
	for i := 0; i < n; i++ {
		wg.Add(1)
		go func(i int) {
			defer wg.Done()
			results[i] = dmLaunch(dir)
		}(i)
	}
	if paused {
		// release the launchers only after every daemon has RETURNED from Done()
		deadline := time.Now().Add(8 * time.Second)
		for len(dmGlob(dir, ".after")) < n && time.Now().Before(deadline) {
			time.Sleep(2 * time.Millisecond)
		}
		if got := len(dmGlob(dir, ".after")); got < n {
			d.s.Notes = append(d.s.Notes, fmt.Sprintf("%s: only %d of %d daemons reported Done() before the pause was released", name, got, n))
		}
		dmWriteAtomic(goFile, "go")
	}
	wg.Wait()
	restore()
	for i, r := range results {
		d.judge(dmCase{Scenario: name, DelayMs: delayMs, Paused: paused, Parallel: n, Index: i}, dir, r, d.selfPid, false)
	}
}

// nested: the launched daemon launches a second daemon itself after Done().
func (d *dmRun) nested() {
	dir := d.newDir()
	restore := dmSetenv(map[string]string{dmEnvDir: dir, dmEnvDelay: "0", dmEnvLife: "3000", dmEnvNested: "1"})
	r := dmLaunch(dir)
	restore()
	sc := dmCase{Scenario: "nested-launch", Parallel: 1}
	d.s.Evaluations++
	if r.hang || r.err != nil {
		d.s.Violate("launch-error", fmt.Sprintf("outer Launch failed: hang=%v err=%v", r.hang, r.err), sc)
		return
	}
	d.remember(r.pid)
	data, ok := dmWaitFile(filepath.Join(dir, strconv.Itoa(r.pid)+".nested"), 20*time.Second)
	if !ok {
		d.s.Violate("nested-launch", "the daemon's own Launch(worker) did not return within 20 s", sc)
		return
	}
	var wpid int
	var werr string
	fmt.Sscanf(string(data), "%d %s", &wpid, &werr)
	if werr != "<nil>" {
		d.s.Violate("nested-launch", fmt.Sprintf("Launch(%q) called from inside a daemon returned %q", dmWorker, string(data)), sc)
		return
	}
	d.remember(wpid)
	if _, ok := dmWaitFile(filepath.Join(dir, strconv.Itoa(wpid)+".worker"), 2*time.Second); !ok {
		d.s.Violate("nested-launch", fmt.Sprintf("Launch(%q) from inside a daemon returned pid %d, but that process never ran the %q handler", dmWorker, wpid, dmWorker), sc)
	}
	d.s.Nontrivial("nested-launch")
}

// failThenHealthy: a Launch whose daemon dies before Done() must return an error; a healthy Launch
// right afterwards in the same process must not be affected by it.
func (d *dmRun) failThenHealthy() {
	dir := d.newDir()
	restore := dmSetenv(map[string]string{dmEnvDir: dir, dmEnvDelay: "0", dmEnvLife: "4000", dmEnvDie: "1"})
	r := dmLaunch(dir)
	restore()
	sc := dmCase{Scenario: "daemon-dies-before-done", Parallel: 1}
	switch {
	case r.hang:
		d.s.Violate("launch-hangs", "Launch did not return although the daemon exited before Done()", sc)
	case r.err == nil:
		d.s.Violate("launch-ok-for-dead-daemon", fmt.Sprintf("Launch returned pid %d and nil although the daemon exited with status 3 before calling Done()", r.pid), sc)
	}
	d.s.Evaluations++
	d.scenario("healthy-after-failed", 1, 0, false, false)
}

// callerExits: Launch is called by a separate caller process that exits afterwards.
func (d *dmRun) callerExits(delayMs int) {
	dir := d.newDir()
	cmd := exec.Command(os.Args[0])
	cmd.Env = append(os.Environ(), dmEnvRole+"=caller", dmEnvDir+"="+dir, dmEnvDelay+"="+strconv.Itoa(delayMs), dmEnvLife+"=4000")
	var out bytes.Buffer
	cmd.Stdout = &out
	done := make(chan error, 1)
	if err := cmd.Start(); err != nil {
		fatal(err)
	}
	go func() { done <- cmd.Wait() }()
	c := dmCase{Scenario: "caller-exits", DelayMs: delayMs, Parallel: 1}
	select {
	case <-done:
	case <-time.After(40 * time.Second):
		cmd.Process.Kill()
		d.judge(c, dir, dmLaunchResult{hang: true}, cmd.Process.Pid, true)
		return
	}
	var pid int
	var errText string
	line := strings.TrimSpace(out.String())
	if i := strings.Index(line, " err="); strings.HasPrefix(line, "pid=") && i > 0 {
		pid, _ = strconv.Atoi(line[4:i])
		errText = line[i+5:]
	} else {
		errText = "caller printed: " + line
	}
	r := dmLaunchResult{pid: pid}
	if errText != "<nil>" {
		r.err = fmt.Errorf("%s", errText)
	} else {
		// the caller is gone; the marker must exist (it was written before Done())
		r.marker, _ = os.ReadFile(filepath.Join(dir, strconv.Itoa(pid)+".marker"))
	}
	d.judge(c, dir, r, cmd.Process.Pid, true)
}

func runDaemon(cfg Cfg) {
	s := NewStream(cfg.Out, "daemon")
	defer s.Close()
	s.Rule = "real processes: the harness binary re-executed as launcher and daemon through daemon.Launch/Run/Done; scenarios immediate Done, delayed Done (PRNG delays), launcher paused at launch.afterStart until the daemon has returned from Done(), parallel Launch calls (plain, jittered, paused), Launch from a caller process that exits; evaluation = the C20 checks on one Launch call; non-trivial = a launch with delayed Done or with Done() preceding the launcher's wait (paused), distinct by (scenario, delay, parallelism)"
	base, err := os.MkdirTemp("", "glb-verif-daemon-")
	if err != nil {
		fatal(err)
	}
	d := &dmRun{s: s, toKill: map[int]bool{}, base: base, selfPid: os.Getpid()}
	defer func() {
		for p := range d.toKill {
			if dmAlive(p) && dmIsOurs(p) && p != d.selfPid {
				syscall.Kill(p, syscall.SIGKILL)
			}
		}
		os.RemoveAll(base)
	}()
	rng := NewRng(cfg.Seed)
	rounds := cfg.N(12, 60)
	for i := 0; i < rounds; i++ {
		d.scenario("immediate", 1, 0, false, false)
		d.scenario("delayed", 1, 10+rng.Intn(cfg.N(120, 300)), false, false)
		d.scenario("paused", 1, rng.Intn(30), true, false)
		if i%2 == 0 {
			d.callerExits(rng.Intn(40))
		}
		if i%4 == 1 {
			d.failThenHealthy()
		}
		if i%6 == 2 {
			d.nested()
		}
		if i%4 == 3 {
			restore := dmSetenv(map[string]string{dmEnvScrub: "1"})
			d.scenario("scrub-env", 1, rng.Intn(20), false, false)
			restore()
		}
		if i%4 == 2 {
			restore := dmSetenv(map[string]string{dmEnvDetach: "1"})
			d.scenario("daemon-calls-setsid", 1, rng.Intn(20), i%8 == 2, false)
			restore()
		}
		if i%6 == 4 {
			dmLaunchName = ""
			d.scenario("handler-registered-under-the-empty-name", 1, rng.Intn(10), false, false)
			dmLaunchName = dmName
		}
		if i%3 == 0 {
			d.scenario("parallel", cfg.N(6, 16), rng.Intn(20), false, true)
		}
		if i%5 == 0 {
			d.scenario("parallel-paused", cfg.N(4, 8), 0, true, true)
		}
		// do not let daemons pile up
		for p := range d.toKill {
			if dmAlive(p) && dmIsOurs(p) && p != d.selfPid {
				syscall.Kill(p, syscall.SIGKILL)
			}
			delete(d.toKill, p)
		}
	}
	d.scenario("slow", 1, 2300, false, false) // a daemon that needs a good two seconds before Done()
	if cfg.Thorough() {
		// a daemon that needs several seconds before Done(): Launch must still wait for it
		d.scenario("very-slow", 1, 6500, false, false)
	}
	s.Notes = append(s.Notes, "daemon survives the caller's exit: checked in scenario caller-exits (the caller process has exited when the daemon is inspected)")
}
