package main

// Stream `store` (C05): histories of requests and registrations on ONE real httpd.Mux, every
// handler (relay, route handlers, no-route handler) probing every parameter name that exists
// anywhere in the table (plus names that exist nowhere), RouteParamAny, W.Status and GetID.
//   * correspondence: every observation is compared with the Lean model of the pooled Store
//     (`req` lines; the model is told an arbitrary pool choice — its answer must not depend on it);
//   * direct oracle: every observation equals that of the same request on a FRESH Mux with the
//     same routes (ids modulo the 9-byte prefix: unique within the Mux, constant within a request).
// Mode 1: one goroutine, GC switched off (maximal reuse of pooled Stores; reuse is measured by
// pointer identity, never assumed). Mode 2: 8 goroutines on one Mux.

import (
	"context"
	"fmt"
	"net/http"
	"net/http/httptest"
	"net/url"
	"runtime"
	"runtime/debug"
	"strconv"
	"strings"
	"sync"
	"time"
	"unsafe"

	"github.com/whoisnian/glb/httpd"
)

func init() { streams["store"] = runStore }

type storeObs struct {
	id      int // route id, -1 no-route
	ipath   string
	imethod string
	gets    []string
	any     string
	status  int
	rid     string // GetID(), copied
	ptr     uintptr
	nV      int
}

func (a *storeObs) sameModuloID(b *storeObs) bool {
	if a.id != b.id || a.ipath != b.ipath || a.imethod != b.imethod || a.any != b.any || a.status != b.status || len(a.gets) != len(b.gets) {
		return false
	}
	for i := range a.gets {
		if a.gets[i] != b.gets[i] {
			return false
		}
	}
	return true
}

func (a *storeObs) String() string {
	return fmt.Sprintf("{route %d I=(%q,%q) gets=%q any=%q status=%d id=%q}", a.id, a.ipath, a.imethod, a.gets, a.any, a.status, a.rid)
}

// storeRec is what one request collects; it travels in the request context so that handlers
// shared by several goroutines know where to write.
type storeRec struct {
	names  []string
	relay  *storeObs
	handle *storeObs
	code   int
	panics bool
	calls  int
	// mode 3 only
	sub     int        // 1: the handler re-dispatches through the Mux with its own s.W; 2: it serves a sub-request with a private recorder
	lazy    bool       // nobody asks for the id before the handler does (then from three goroutines at once, and through a copy of the Store)
	mux     *httpd.Mux // for the sub-request
	changed string     // something this request observes changed while it was being served
	nrGen   int        // which installation of the no-route handler served this request (0 = a route handler)
}

type storeCtxKey struct{}

func storeProbe(s *httpd.Store, id int, names []string) *storeObs {
	return storeProbeID(s, id, names, true)
}

func storeProbeID(s *httpd.Store, id int, names []string, withID bool) *storeObs {
	o := &storeObs{id: id, ipath: s.I.Path, imethod: s.I.Method, status: s.W.Status}
	for _, n := range names {
		o.gets = append(o.gets, s.RouteParam(n))
	}
	o.any = s.RouteParamAny()
	if withID {
		o.rid = strings.Clone(s.GetID()) // GetID aliases the pooled buffer
	}
	o.ptr = uintptr(unsafe.Pointer(s))
	o.nV = len(s.P.V)
	return o
}

func storeHandler(id int) httpd.HandlerFunc {
	return func(s *httpd.Store) {
		rec := s.R.Context().Value(storeCtxKey{}).(*storeRec)
		rec.calls++
		if rec.lazy {
			// first use of the id: through a by-value copy of the Store and from three goroutines at once -
			// "the id of the request" is one value whoever asks, however, whenever
			view := *s
			got := make([]string, 4)
			got[0] = strings.Clone(view.GetID())
			var wg sync.WaitGroup
			for g := 1; g < 4; g++ {
				wg.Add(1)
				go func(g int) { defer wg.Done(); got[g] = strings.Clone(s.GetID()) }(g)
			}
			wg.Wait()
			for g := 1; g < 4; g++ {
				if got[g] != got[0] {
					rec.changed = fmt.Sprintf("GetID() of one request gave %q (through a copy of the Store, first use) and %q (goroutine %d)", got[0], got[g], g)
				}
			}
		}
		rec.handle = storeProbe(s, id, rec.names)
		if rec.code != 0 {
			s.W.WriteHeader(rec.code)
		}
		if rec.sub == 3 && rec.mux != nil {
			// lazy registration: the handler adds a route to the Mux it is being served by
			storeLazySeq++
			func() {
				defer func() { recover() }() // a refused registration panics by contract: not this request's business
				rec.mux.Handle("/lazy/"+strconv.Itoa(storeLazySeq)+"/:v", "GET", storeHandler(-3))
			}()
		} else if rec.sub != 0 && rec.mux != nil {
			before := storeProbe(s, id, rec.names)
			inner := &storeRec{names: rec.names}
			req := (&http.Request{Method: "GET", URL: &url.URL{Path: Pick2(rec.sub, "/u/sub/x", "/a/sub")}, Header: http.Header{}}).
				WithContext(context.WithValue(context.Background(), storeCtxKey{}, inner))
			var w http.ResponseWriter = s.W
			if rec.sub == 2 {
				w = httptest.NewRecorder()
				inner.code = 202
			}
			rec.mux.ServeHTTP(w, req)
			after := storeProbe(s, id, rec.names)
			if !after.sameModuloID(before) || after.rid != before.rid {
				rec.changed = fmt.Sprintf("before a nested request through the same Mux the handler observed %v, after it %v", before, after)
			}
			if inner.handle == nil || inner.calls != 1 {
				rec.changed = "the nested request did not run exactly one handler"
			} else if inner.handle.rid == before.rid {
				rec.changed = fmt.Sprintf("the nested request has the id of the outer one (%q)", before.rid)
			} else if rec.sub == 2 && inner.handle.status != 0 {
				rec.changed = fmt.Sprintf("the nested request (own recorder) started with status %d", inner.handle.status)
			}
		}
		if rec.panics {
			panic("verif: handler panics on purpose")
		}
	}
}

func storeRelay(s *httpd.Store) {
	rec := s.R.Context().Value(storeCtxKey{}).(*storeRec)
	rec.relay = storeProbeID(s, -2, rec.names, !rec.lazy)
	s.I.HandlerFunc(s)
}

// storeMux is a real Mux together with the harness' bookkeeping of what has been registered.
type storeMux struct {
	nrGen int // how often HandleNoRoute has been called
	mux   *httpd.Mux
	regs  []routerReg     // every attempted registration, in order
	ok    []routerSpRoute // accepted ones (id = position)
	names []string        // every :name of the accepted routes, plus two that exist nowhere
}

func storeNewMux() *storeMux {
	m := &storeMux{mux: httpd.NewMux(), names: []string{"nowhere", "/:any"}}
	m.mux.HandleRelay(storeRelay)
	m.installNoRoute()
	return m
}

// installNoRoute (re)installs the no-route handler; every installation carries its number.
func (m *storeMux) installNoRoute() {
	m.nrGen++
	gen := m.nrGen
	inner := storeHandler(-1)
	m.mux.HandleNoRoute(func(s *httpd.Store) {
		s.R.Context().Value(storeCtxKey{}).(*storeRec).nrGen = gen
		inner(s)
	})
}

// register returns the error class ("" = accepted) and the number of captures.
func (m *storeMux) register(r routerReg) (string, int) {
	cls := routerHandleClass(m.mux, r, storeHandler(len(m.ok)))
	m.regs = append(m.regs, r)
	caps := 0
	if cls == "" {
		es := routerSpPattern(r.Pattern)
		m.ok = append(m.ok, routerSpRoute{r, es})
		for _, e := range es {
			if e.kind != 'l' {
				caps++
			}
			if e.kind == 'p' {
				found := false
				for _, n := range m.names {
					found = found || n == e.s
				}
				if !found {
					m.names = append(m.names, e.s)
				}
			}
		}
	}
	return cls, caps
}

type storeReq struct {
	Path   string `json:"path"`
	Method string `json:"method"`
	Code   int    `json:"write_status,omitempty"`
	Panics bool   `json:"handler_panics,omitempty"`
	Sub    int    `json:"nested_request,omitempty"` // mode 3: 1 = re-dispatch with s.W, 2 = sub-request with its own recorder
	Lazy   bool   `json:"id_first_asked_in_handler,omitempty"`
}

var storeReqSeq int
var storeLazySeq int

func Pick2(k int, a, b string) string {
	if k%2 == 1 {
		return a
	}
	return b
}

// do serves one request; the panic of a panicking handler is recovered here.
func (m *storeMux) do(q storeReq, names []string) (rec *storeRec, panicked string) {
	rec = &storeRec{names: names, code: q.Code, panics: q.Panics, sub: q.Sub, lazy: q.Lazy, mux: m.mux}
	req := (&http.Request{Method: q.Method, URL: &url.URL{Path: q.Path}, Header: http.Header{}}).
		WithContext(context.WithValue(context.Background(), storeCtxKey{}, rec))
	// some requests carry the headers proxies and clients commonly add: what a request carries must
	// never influence what a LATER request observes
	storeReqSeq++
	if storeReqSeq%7 == 3 {
		req.Header.Set("X-Request-Id", "trace-"+strconv.Itoa(storeReqSeq%97))
		req.Header.Set("X-Client-IP", "203.0.113.9")
		req.Header.Set("X-Forwarded-For", "198.51.100.1, 10.0.0.1")
		req.Header.Set("Cookie", "sid=abc")
	}
	if q.Sub == 3 {
		// a request that may hang (a handler calling back into the Mux): served under a watchdog
		done := make(chan string, 1)
		go func() {
			defer func() {
				if r := recover(); r != nil {
					done <- fmt.Sprint(r)
					return
				}
				done <- ""
			}()
			m.mux.ServeHTTP(httptest.NewRecorder(), req)
		}()
		select {
		case p := <-done:
			return rec, p
		case <-time.After(10 * time.Second):
			return rec, "request-does-not-return: ServeHTTP has not returned after 10 s (the handler registers a route on its own Mux)"
		}
	}
	defer func() {
		if r := recover(); r != nil {
			panicked = fmt.Sprint(r)
		}
	}()
	m.mux.ServeHTTP(httptest.NewRecorder(), req)
	return rec, ""
}

// fresh observation: the same request on a fresh Mux with the same routes.
func storeFreshObs(regs []routerReg, q storeReq, names []string) (*storeRec, string) {
	f := storeNewMux()
	for _, r := range regs {
		f.register(r)
	}
	return f.do(storeReq{Path: q.Path, Method: q.Method}, names)
}

type storeOp struct {
	Reg *routerReg `json:"handle,omitempty"`
	Req *storeReq  `json:"request,omitempty"`
	GC  bool       `json:"gc,omitempty"`
}

func storeTarget(o *storeObs) string {
	if o.id >= 0 {
		return fmt.Sprintf("route %d", o.id)
	}
	return "noroute"
}

// storeLine renders an observation exactly as the Lean driver renders `req`.
func storeLine(rec *storeRec, panicked string, withID bool) string {
	if rec.handle == nil || rec.relay == nil {
		if panicked != "" {
			return routerPanicClass(panicked)
		}
		return "no-handler-ran"
	}
	o := rec.handle
	id := "*"
	if withID {
		id = "-"
		if len(o.rid) > 9 {
			id = hxs(o.rid[9:])
		}
	}
	return fmt.Sprintf("%s any=%s get=%s status=%d id=%s", storeTarget(o), hxs(o.any), routerHexList(o.gets), o.status, id)
}

// storeCheck is the direct oracle for one served request. prefix: the Mux's id prefix learnt
// from its first request ("" = not yet known); ids: all ids handed out by this Mux so far.
func storeCheck(s *Stream, m *storeMux, q storeReq, rec *storeRec, panicked string, prefix *string, ids map[string]bool, mu *sync.Mutex, replay func() any) {
	if rec.handle == nil || rec.relay == nil || rec.calls != 1 {
		s.Violate("handler-count", fmt.Sprintf("%+v: relay ran %v, handlers ran %d, panic %q", q, rec.relay != nil, rec.calls, panicked), replay())
		return
	}
	if strings.HasPrefix(panicked, "request-does-not-return") {
		s.Violate("request-does-not-return", fmt.Sprintf("%+v: %s", q, panicked), replay())
		return
	}
	if (panicked != "") != q.Panics {
		s.Violate("panic", fmt.Sprintf("%+v: ServeHTTP panicked with %q", q, panicked), replay())
	}
	fr, fp := storeFreshObs(m.regs, q, rec.names)
	if fr.handle == nil || fp != "" {
		s.Violate("fresh-mux", fmt.Sprintf("%+v on a fresh Mux: panic %q", q, fp), replay())
		return
	}
	// every observation equals that on a fresh Mux with the same routes
	if !rec.handle.sameModuloID(fr.handle) {
		s.Violate("leak", fmt.Sprintf("%+v: handler observed %v, on a fresh Mux with the same routes %v", q, rec.handle, fr.handle), replay())
	}
	relayAsHandler := *rec.relay
	relayAsHandler.id = rec.handle.id
	if !relayAsHandler.sameModuloID(fr.handle) {
		s.Violate("leak-relay", fmt.Sprintf("%+v: relay observed %v, on a fresh Mux with the same routes %v", q, rec.relay, fr.handle), replay())
	}
	// what the fresh Mux shows must itself be what the table says (selected route, RouteInfo)
	if rec.handle.id >= 0 {
		rt := m.ok[rec.handle.id].reg
		if rec.handle.ipath != rt.Pattern || rec.handle.imethod != rt.Method {
			s.Violate("route-info", fmt.Sprintf("%+v: I=(%q,%q) but route %d is (%q,%q)", q, rec.handle.ipath, rec.handle.imethod, rec.handle.id, rt.Pattern, rt.Method), replay())
		}
	}
	// ids: constant within the request, prefix constant within the Mux, unique within the Mux
	if rec.handle.id == -1 && rec.nrGen != m.nrGen && q.Sub == 0 {
		s.Violate("leak", fmt.Sprintf("%+v: served by the no-route handler installed by call %d of HandleNoRoute; the one in force is that of call %d (a Store remembered the earlier one)", q, rec.nrGen, m.nrGen), replay())
	}
	if rec.changed != "" {
		s.Violate("state-changed-during-request", fmt.Sprintf("%+v: %s", q, rec.changed), replay())
	}
	id := rec.handle.rid
	if rec.relay.rid != id && !q.Lazy {
		s.Violate("id-not-constant", fmt.Sprintf("%+v: relay saw id %q, handler %q", q, rec.relay.rid, id), replay())
	}
	mu.Lock()
	defer mu.Unlock()
	if len(id) < 10 || id[8] != '-' {
		s.Violate("id-format", fmt.Sprintf("%+v: id %q", q, id), replay())
		return
	}
	if *prefix == "" {
		*prefix = id[:9]
	} else if id[:9] != *prefix {
		s.Violate("id-prefix", fmt.Sprintf("%+v: id %q, prefix of this Mux %q", q, id, *prefix), replay())
	}
	if ids[id] {
		s.Violate("id-not-unique", fmt.Sprintf("%+v: id %q handed out twice by one Mux", q, id), replay())
	}
	ids[id] = true
}

// ---------------------------------------------------------------------------------------------
// generators

var storeDirected = [][]routerReg{
	{{"/u/:a/:b", "GET"}, {"/s", "GET"}},
	{{"/a/:x", "GET"}, {"/b/:x/:y", "GET"}},
	{{"/f/*", "*"}, {"/f/:n", "GET"}, {"/", "GET"}},
	{{"/p/:a/:b/:c/*", "*"}, {"/p/:c", "POST"}, {"/:id", "GET"}},
}

func storeRandReg(r *Rng, depthBias int) routerReg {
	lits := []string{"a", "b", "u", "s"}
	params := []string{":a", ":b", ":c", ":x", ":y", ":id"}
	var sb strings.Builder
	k := r.Intn(4 + depthBias)
	used := map[string]bool{}
	for j := 0; j < k; j++ {
		sb.WriteByte('/')
		switch c := r.Intn(100); {
		case c < 40:
			sb.WriteString(Pick(r, lits))
		case c < 88:
			pn := Pick(r, params)
			for tries := 0; used[pn] && tries < 5 && !r.Chance(5); tries++ {
				pn = Pick(r, params)
			}
			used[pn] = true
			sb.WriteString(pn)
		case c < 97:
			sb.WriteString("*")
		default:
			sb.WriteString(":") // refused
		}
	}
	if k == 0 || r.Chance(10) {
		sb.WriteByte('/')
	}
	m := Pick(r, []string{"GET", "GET", "POST", "*"})
	if r.Chance(3) {
		m = "FOO"
	}
	return routerReg{sb.String(), m}
}

func storeRandReq(r *Rng, m *storeMux) storeReq {
	var q storeReq
	if len(m.ok) > 0 && r.Chance(70) {
		rt := Pick(r, m.ok)
		var segs []string
		for _, e := range rt.elems {
			switch e.kind {
			case 'l':
				segs = append(segs, e.s)
			case 'p':
				segs = append(segs, Pick(r, []string{"1", "22", "a", "b", "", ":x", "*", "v" + fmt.Sprint(r.Intn(50)), ".", "..", "%41", "a%2Fb"}))
			case 's':
				for k := r.Intn(3); k >= 0; k-- {
					segs = append(segs, Pick(r, []string{"r", "s", "", "t" + fmt.Sprint(r.Intn(9))}))
				}
			}
		}
		switch r.Intn(10) {
		case 0:
			if len(segs) > 0 {
				segs = segs[:r.Intn(len(segs))] // partial walk: values captured, then no route
			}
		case 1:
			segs = append(segs, "zz")
		case 2:
			if len(segs) > 0 {
				segs[len(segs)-1] = "nope"
			}
		}
		q.Path = "/" + strings.Join(segs, "/")
		if r.Chance(8) {
			q.Path = strings.Join(segs, "/")
		}
		q.Method = rt.reg.Method
		if q.Method == "*" || r.Chance(10) {
			q.Method = Pick(r, []string{"GET", "POST", "PUT", "*", "", "FOO"})
		}
	} else {
		q.Path = Pick(r, []string{"", "/", "//", "/nope", "/a", "/a/b/c/d/e", "/u/1", "*", "/b/1", "/p/1/2"})
		q.Method = Pick(r, []string{"GET", "POST", "DELETE", "", "*"})
	}
	if r.Chance(30) {
		q.Code = Pick(r, []int{200, 201, 204, 301, 404, 500, 599})
	}
	q.Panics = r.Chance(12)
	return q
}

// ---------------------------------------------------------------------------------------------

func storeSig(m *storeMux, rec *storeRec, q storeReq) string {
	o := rec.handle
	pat := "noroute"
	if o.id >= 0 {
		pat = m.ok[o.id].reg.Pattern + " " + m.ok[o.id].reg.Method
	}
	return fmt.Sprintf("%s nV=%d code=%d panic=%v", pat, o.nV, q.Code, q.Panics)
}

// storeHistoryFails replays a history on a new Mux and says whether the direct oracle fires
// (used for shrinking).
func storeHistoryFails(ops []storeOp) bool {
	tmp := &Stream{Distinct: map[string]int{}, Dist: map[string]int{}}
	m := storeNewMux()
	prefix, ids := "", map[string]bool{}
	var mu sync.Mutex
	for _, op := range ops {
		switch {
		case op.Reg != nil:
			m.register(*op.Reg)
		case op.GC:
			runtime.GC()
			runtime.GC()
		case op.Req != nil:
			rec, p := m.do(*op.Req, m.names)
			storeCheck(tmp, m, *op.Req, rec, p, &prefix, ids, &mu, func() any { return nil })
		}
	}
	return len(tmp.Violations) > 0
}

func runStore(cfg Cfg) {
	s := NewStream(cfg.Out, "store")
	defer s.Close()
	s.Rule = "non-trivial = a request served by a Store that had served an earlier request of the same Mux (reuse observed by pointer identity, never assumed), distinct by (what the previous request on that Store was, what this request is): route, number of captured values, status written, handler panicked"
	rng := NewRng(cfg.Seed)
	old := debug.SetGCPercent(-1) // drive GC-free: sync.Pool keeps what is Put
	defer debug.SetGCPercent(old)

	nHist := cfg.N(500, 5000)
	reused, notReused := 0, 0
	for h := 0; h < nHist; h++ {
		r := rng.Fork()
		m := storeNewMux()
		s.Line("reset", "ok")
		var hist []storeOp
		prefix, ids := "", map[string]bool{}
		var mu sync.Mutex
		lastOn := map[uintptr]string{}
		emitReg := func(reg routerReg) {
			cls, caps := m.register(reg)
			out := "err " + cls
			if cls == "" {
				out = fmt.Sprintf("ok %d", caps)
			}
			s.Line("handle "+hxs(reg.Pattern)+" "+hxs(reg.Method), out)
			s.Count("handle." + map[bool]string{true: "ok", false: cls}[cls == ""])
			hist = append(hist, storeOp{Reg: &reg})
		}
		// initial table: sometimes empty, sometimes a directed one, sometimes random
		switch c := r.Intn(10); {
		case c < 1:
		case c < 4:
			for _, reg := range Pick(r, storeDirected) {
				emitReg(reg)
			}
		default:
			for k := 1 + r.Intn(5); k > 0; k-- {
				emitReg(storeRandReg(r, 0))
			}
		}
		nReq := 1 + r.Intn(200)
		if r.Chance(40) {
			nReq = 1 + r.Intn(30)
		}
		for i := 0; i < nReq; i++ {
			switch c := r.Intn(100); {
			case c < 9:
				// a registration between requests: deeper patterns later, so that maxParams grows
				// after Stores have been pooled
				emitReg(storeRandReg(r, 1+i/20))
				continue
			case c < 10:
				// let the pool forget (two GCs empty sync.Pool's victim cache too)
				runtime.GC()
				runtime.GC()
				s.Line("dropall", "ok")
				s.Count("gc")
				hist = append(hist, storeOp{GC: true})
				continue
			}
			q := storeRandReq(r, m)
			names := append([]string{}, m.names...)
			rec, p := m.do(q, names)
			hist = append(hist, storeOp{Req: &q})
			op := fmt.Sprintf("req %d %s %s %d %d", r.Intn(5), hxs(q.Path), hxs(q.Method), q.Code, map[bool]int{false: 0, true: 1}[q.Panics])
			for _, n := range names {
				op += " " + hxs(n)
			}
			s.Line(op, storeLine(rec, p, true))
			s.Evaluations++
			nv := len(s.Violations)
			storeCheck(s, m, q, rec, p, &prefix, ids, &mu, func() any {
				cp := append([]storeOp{}, hist...)
				if nv < 2 {
					cp = ddmin(cp, storeHistoryFails)
				}
				return cp
			})
			if rec.handle != nil {
				switch {
				case rec.handle.id < 0:
					s.Count("request.noroute")
				default:
					s.Count("request.matched")
				}
				if q.Panics {
					s.Count("request.handler-panics")
				}
				sig := storeSig(m, rec, q)
				if prev, ok := lastOn[rec.handle.ptr]; ok {
					reused++
					s.Nontrivial(prev + " -> " + sig)
				} else {
					notReused++
				}
				lastOn[rec.handle.ptr] = sig
			}
		}
		if h < 2 && len(hist) > 4 {
			s.Sample(hist[:4])
		}
		if h%50 == 49 {
			runtime.GC() // memory hygiene between histories (each history has its own Mux)
		}
	}
	s.Dist["request.on-reused-store"] = reused
	s.Dist["request.on-new-store"] = notReused
	s.Traces = nHist

	// ---- mode 2: 8 goroutines on one Mux, registrations between the bursts
	nConc := cfg.N(40, 600)
	for h := 0; h < nConc; h++ {
		r := rng.Fork()
		m := storeNewMux()
		s.Line("reset", "ok")
		prefix, ids := "", map[string]bool{}
		var mu sync.Mutex
		for burst := 0; burst < 3; burst++ {
			for k := 1 + r.Intn(4); k > 0; k-- {
				reg := storeRandReg(r, burst)
				cls, caps := m.register(reg)
				out := "err " + cls
				if cls == "" {
					out = fmt.Sprintf("ok %d", caps)
				}
				s.Line("handle "+hxs(reg.Pattern)+" "+hxs(reg.Method), out)
			}
			const G = 8
			perG := 10 + r.Intn(30)
			plan := make([][]storeReq, G)
			for g := range plan {
				for i := 0; i < perG; i++ {
					plan[g] = append(plan[g], storeRandReq(r, m))
				}
			}
			type res struct {
				rec *storeRec
				p   string
			}
			results := make([][]res, G)
			names := append([]string{}, m.names...)
			var wg sync.WaitGroup
			start := make(chan struct{})
			for g := 0; g < G; g++ {
				wg.Add(1)
				go func(g int) {
					defer wg.Done()
					<-start
					for _, q := range plan[g] {
						rec, p := m.do(q, names)
						results[g] = append(results[g], res{rec, p})
					}
				}(g)
			}
			close(start)
			wg.Wait()
			for g := 0; g < G; g++ {
				for i, q := range plan[g] {
					rs := results[g][i]
					op := fmt.Sprintf("reqx %d %s %s %d %d", r.Intn(5), hxs(q.Path), hxs(q.Method), q.Code, map[bool]int{false: 0, true: 1}[q.Panics])
					for _, n := range names {
						op += " " + hxs(n)
					}
					s.Line(op, storeLine(rs.rec, rs.p, false))
					s.Evaluations++
					s.Count("request.concurrent")
					q := q
					storeCheck(s, m, q, rs.rec, rs.p, &prefix, ids, &mu, func() any {
						return map[string]any{"mode": "8 goroutines", "table": m.regs, "request": q, "burst": burst}
					})
				}
			}
		}
		runtime.GC()
	}
	// ---- mode 3 (direct oracle only): handlers that serve a nested request through the same Mux (with the
	// outer request's own writer, or with a private recorder), ids first asked for inside the handler, and
	// bursts of overlapping requests afterwards
	nNest := cfg.N(150, 1500)
	for h := 0; h < nNest; h++ {
		r := rng.Fork()
		m := storeNewMux()
		prefix, ids := "", map[string]bool{}
		var mu sync.Mutex
		var hist []storeReq
		if h%3 == 0 {
			// the table starts without any parameter route; Stores are created (nested, so several at once),
			// pooled, and only then the routes with parameters are registered
			m.register(routerReg{"/s", "GET"})
			m.register(routerReg{"/static/a", "*"})
			for i := 0; i < 4; i++ {
				q := storeReq{Path: Pick(r, []string{"/s", "/static/a", "/none"}), Method: "GET", Sub: 1 + i%2}
				hist = append(hist, q)
				rec, p := m.do(q, append([]string{}, m.names...))
				storeCheck(s, m, q, rec, p, &prefix, ids, &mu, func() any {
					return map[string]any{"mode": "nested requests on a table without parameters", "table": m.regs, "request": q}
				})
			}
			s.Count("table.static-first")
		}
		for _, reg := range Pick(r, storeDirected) {
			m.register(reg)
		}
		for k := r.Intn(3); k > 0; k-- {
			m.register(storeRandReg(r, 1))
		}
		names := append([]string{}, m.names...)
		for i, n := 0, 3+r.Intn(20); i < n; i++ {
			q := storeRandReq(r, m)
			q.Panics = false
			// (Sub = 3, a handler registering a route on its own Mux, is implemented but not generated: C05 assumes
			// registrations between requests, and a Mux that locks itself against its handlers breaks no clause of it)
			q.Sub, q.Lazy = Pick(r, []int{0, 0, 1, 2}), r.Chance(30)
			if i%5 == 3 {
				m.installNoRoute() // the no-route handler is replaced while Stores that served earlier requests are pooled
			}
			hist = append(hist, q)
			rec, p := m.do(q, names)
			hcopy := append([]storeReq{}, hist...)
			storeCheck(s, m, q, rec, p, &prefix, ids, &mu, func() any {
				return map[string]any{"mode": "nested requests, one goroutine", "table": m.regs, "requests": hcopy}
			})
			s.Evaluations++
			s.Count(fmt.Sprintf("request.nested-%d", q.Sub))
			if strings.HasPrefix(p, "request-does-not-return") {
				return // the Mux is wedged: every later request would only wait for the watchdog again
			}
		}
		const G = 12
		var wg sync.WaitGroup
		plans := make([][]storeReq, G)
		type nres struct {
			rec *storeRec
			p   string
		}
		results := make([][]nres, G)
		for g := range plans {
			for i := 0; i < 30; i++ {
				q := storeRandReq(r, m)
				q.Panics = false
				q.Sub, q.Lazy = Pick(r, []int{0, 2, 2, 1}), r.Chance(30)
				plans[g] = append(plans[g], q)
			}
		}
		for g := 0; g < G; g++ {
			wg.Add(1)
			go func(g int) {
				defer wg.Done()
				for _, q := range plans[g] {
					rec, p := m.do(q, names)
					results[g] = append(results[g], nres{rec, p})
				}
			}(g)
		}
		wg.Wait()
		for g := 0; g < G; g++ {
			for i, q := range plans[g] {
				q := q
				storeCheck(s, m, q, results[g][i].rec, results[g][i].p, &prefix, ids, &mu, func() any {
					return map[string]any{"mode": "nested requests, 12 goroutines after a sequential warm-up", "table": m.regs, "warm_up": hist, "request": q}
				})
				s.Evaluations++
				s.Count("request.nested-concurrent")
			}
		}
		s.Nontrivial(fmt.Sprintf("nested/%d", h))
		if h%50 == 49 {
			runtime.GC()
		}
	}
	// ---- mode 4 (direct oracle only): one Mux with a long life - thousands of requests, ids stay unique and
	// keep the Mux's prefix
	for h := 0; h < cfg.N(2, 8); h++ {
		r := rng.Fork()
		m := storeNewMux()
		for _, reg := range Pick(r, storeDirected) {
			m.register(reg)
		}
		names := append([]string{}, m.names...)
		seen := map[string]int{}
		prefix := ""
		n := cfg.N(3000, 60000)
		for i := 0; i < n; i++ {
			q := storeReq{Path: Pick(r, []string{"/s", "/u/1/2", "/a/7", "/nope", "/f/x/y"}), Method: "GET"}
			rec, p := m.do(q, names)
			if rec.handle == nil || p != "" {
				s.Violate("handler-count", fmt.Sprintf("request %d of a long-lived Mux: no handler ran (panic %q)", i, p), map[string]any{"mode": "long life", "request_number": i})
				break
			}
			id := rec.handle.rid
			if j, dup := seen[id]; dup {
				s.Violate("id-not-unique", fmt.Sprintf("one Mux handed out id %q to request %d and again to request %d", id, j+1, i+1), map[string]any{"mode": "long life", "table": m.regs, "requests": i + 1})
				break
			}
			seen[id] = i
			if len(id) < 10 || id[8] != '-' || (prefix != "" && id[:9] != prefix) {
				s.Violate("id-format", fmt.Sprintf("request %d: id %q (prefix of this Mux %q)", i+1, id, prefix), map[string]any{"mode": "long life"})
				break
			}
			prefix = id[:9]
		}
		s.Evaluations += n
		s.Count("mux.long-life")
		s.Nontrivial(fmt.Sprintf("long-life/%d", h))
		runtime.GC()
	}
	s.Notes = append(s.Notes,
		"mode 4 (no model side): one Mux serving 3 000 (thorough: 60 000) requests: ids unique, one prefix",
		"mode 3 (no model side): handlers serving a nested request through the same Mux - re-dispatch with the outer request's own s.W, or a sub-request with a private recorder -, ids first asked for inside the handler (through a by-value copy of the Store and from three goroutines at once), then 12 goroutines of such requests; oracle: nothing the outer request observes changes while it is served, the nested request has its own id and starts with status 0, every observation equals that on a fresh Mux",
		"mode 1: one goroutine, GC off (debug.SetGCPercent(-1)); reuse of pooled Stores is measured by pointer identity (distribution: request.on-reused-store / request.on-new-store), never assumed by the oracle; `dropall` = two runtime.GC() calls, after which sync.Pool has forgotten everything",
		"mode 2: 8 goroutines x 3 bursts on one Mux, registrations between the bursts; `reqx` lines are compared with the model without the id (the order in which the goroutines draw ids is not determined), ids are checked for uniqueness and constant prefix by the direct oracle",
		"the `req` operation carries an arbitrary pool choice for the model (0 = new Store, k = the k-th pooled Store); the implementation's own choice is not observable — the model's answer must not, and by theorem request_isolated does not, depend on it",
		"`handle` answers `ok <paramsCnt>` with the count of the harness' own route-list reading (not observable through the public API)",
		"race detector: run with VERIF_RACE=1 (the runner then builds the harness with -race)")
}
