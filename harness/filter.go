package main

import (
	"encoding/binary"
	"encoding/hex"
	"fmt"
	"net"
	"sort"
	"strings"

	"github.com/whoisnian/glb/util/netutil"
)

func init() { streams["filter"] = runFilter }

// ---- direct oracle: a brute-force set of prefixes -------------------------------------------

type pfx struct {
	net  uint32
	ones int
}

type prefixSet map[pfx]bool

func maskN(n int) uint32 {
	if n == 0 {
		return 0
	}
	return ^uint32(0) << (32 - n)
}

func (ps prefixSet) mem(ip uint32) bool {
	for p := range ps {
		if ip&maskN(p.ones) == p.net {
			return true
		}
	}
	return false
}

func filterBrief(f *netutil.IPv4Filter) string {
	st := f.VerifState()
	live := 0
	for _, e := range st.List {
		if e[1] > 0 {
			live++
		}
	}
	return fmt.Sprintf("all=%v maps=%v idx=%d live=%d nmaps=%d", st.MatchAll, st.MapsMode, st.Index, live, len(st.Maps))
}

func filterDump(f *netutil.IPv4Filter) string {
	st := f.VerifState()
	l := make([]string, len(st.List))
	for i, e := range st.List {
		l[i] = fmt.Sprintf("%d/%d", e[0], e[1])
	}
	sort.Slice(st.Maps, func(i, j int) bool {
		if st.Maps[i][0] != st.Maps[j][0] {
			return st.Maps[i][0] < st.Maps[j][0]
		}
		return st.Maps[i][1] < st.Maps[j][1]
	})
	m := make([]string, len(st.Maps))
	for i, e := range st.Maps {
		m[i] = fmt.Sprintf("%d:%d", e[0], e[1])
	}
	return fmt.Sprintf("all=%v maps=%v idx=%d list=[%s] maps=[%s]", st.MatchAll, st.MapsMode, st.Index, strings.Join(l, ","), strings.Join(m, ","))
}

func errName(err error) string {
	switch err {
	case nil:
		return "nil"
	case netutil.ErrInvalidIPv4CIDR:
		return "ErrInvalidIPv4CIDR"
	}
	return "other:" + err.Error()
}

func ip4(a uint32) net.IP {
	b := make([]byte, 4)
	binary.BigEndian.PutUint32(b, a)
	return b
}

func ip16(a uint32) net.IP { return net.IP(ip4(a)).To16() }

// specCIDR: the specification's own reading of "is an IPv4 CIDR": a 4-byte address and a 4-byte
// mask of the form 1^n 0^(32-n).
func specCIDR(ip, mask []byte) (pfx, bool) {
	if len(ip) != 4 || len(mask) != 4 {
		return pfx{}, false
	}
	m := binary.BigEndian.Uint32(mask)
	for n := 0; n <= 32; n++ {
		if m == maskN(n) {
			return pfx{binary.BigEndian.Uint32(ip) & m, n}, true
		}
	}
	return pfx{}, false
}

type filterOp struct {
	Op   string `json:"op"`
	IP   string `json:"ip"`
	Mask string `json:"mask,omitempty"`
}

func runFilter(cfg Cfg) {
	s := NewStream(cfg.Out, "filter")
	defer s.Close()
	s.Rule = "random Add/Remove/Contains histories crossing the list->maps switch (listSize from the code), prefix lengths 0..32, non-canonical networks, duplicates, absent removals, invalid arguments, draining to empty and a second growth past the list size, re-probes of recent hits after removals, probes at first/last address of ranges and their outside neighbours in 4- and 16-byte form; non-trivial = a Contains probe whose answer is decided by a stored range (distinct by (state digest, probe))"
	rng := NewRng(cfg.Seed)
	ls := netutil.VerifListSize()
	nHist := cfg.N(120, 1500)
	for h := 0; h < nHist; h++ {
		r := rng.Fork()
		f := netutil.NewIPv4Filter()
		spec := prefixSet{}
		s.Line("reset", "ok")
		var hist []filterOp
		// pool of prefixes this history works with: sized to stay below, land on, or cross the switch
		var target int
		switch r.Intn(5) {
		case 0:
			target = 5 + r.Intn(40)
		case 1:
			target = ls - 3 + r.Intn(7)
		default:
			target = ls + r.Intn(ls)
		}
		minOnes := []int{1, 9, 17, 24}[r.Intn(4)]
		pool := make([]pfx, 0, target)
		for len(pool) < target {
			// minOnes: histories with only long prefixes keep the covered space sparse, so that exact
			// boundary probes are decided by ONE range; histories with short prefixes exercise nesting
			ones := minOnes + r.Intn(33-minOnes)
			switch c := r.Intn(100); {
			case c < 3 && minOnes == 1:
				ones = 0
			case c < 13:
				ones = 32 // host routes: the last map / the all-ones mask
			case c < 18:
				ones = 31
			case c < 24 && minOnes == 1:
				ones = 1 + r.Intn(8) // very short prefixes
			}
			var a uint32
			if r.Chance(70) {
				// clustered addresses so that ranges nest and neighbour each other
				a = uint32(10+r.Intn(3))<<24 | uint32(r.Intn(4))<<16 | uint32(r.Intn(256))<<8 | uint32(r.Intn(256))
			} else {
				a = uint32(r.U64())
			}
			pool = append(pool, pfx{a, ones}) // deliberately not canonical
		}
		nOps := target*2 + r.Intn(100)
		if nOps > cfg.N(700, 1200) {
			nOps = cfg.N(700, 1200)
		}
		// probeAt asks the filter and the prefix set about one address; an address answered true is
		// remembered, and asked again right after later removals (an answer must not outlive its range)
		var lastHit []uint32
		probeAt := func(a uint32, sixteen bool) {
			var ipb net.IP
			form := "4"
			if sixteen {
				ipb, form = ip16(a), "16"
			} else {
				ipb = ip4(a)
			}
			got := f.Contains(ipb)
			want := spec.mem(a)
			s.Line("has "+hx(ipb), fmt.Sprint(got))
			s.Evaluations++
			s.Count("probe." + form + "." + fmt.Sprint(want))
			if got != want {
				hist2 := append(append([]filterOp{}, hist...), filterOp{"has", hx(ipb), ""})
				if len(s.Violations) < 3 {
					hist2 = ddmin(hist2, filterHistoryFails)
				}
				s.Violate("membership", fmt.Sprintf("Contains(%v) = %v, prefix-set says %v", ipb, got, want), hist2)
			}
			if want {
				lastHit = append(lastHit, a)
				if len(lastHit) > 3 {
					lastHit = lastHit[1:]
				}
			}
			if want && !spec[pfx{0, 0}] {
				st := f.VerifState()
				s.Nontrivial(fmt.Sprintf("%v/%d/%d/%d/%s", st.MapsMode, st.Index, len(st.Maps), a, form))
			}
		}
		added := 0
		for i := 0; i < nOps; i++ {
			c := r.Intn(100)
			switch {
			case c < 50: // add
				p := Pick(r, pool)
				if added < len(pool) && r.Chance(80) {
					p = pool[added]
					added++
				}
				ipb, mb := []byte(ip4(p.net)), []byte(net.CIDRMask(p.ones, 32))
				if r.Chance(4) {
					ipb, mb = mutateCIDR(r, ipb, mb)
				}
				err := f.Add(&net.IPNet{IP: ipb, Mask: mb})
				s.Line("add "+hx(ipb)+" "+hx(mb), errName(err)+" "+filterBrief(f))
				hist = append(hist, filterOp{"add", hx(ipb), hx(mb)})
				if sp, ok := specCIDR(ipb, mb); ok {
					spec[sp] = true
					if err != nil {
						s.Violate("valid-cidr-rejected", fmt.Sprintf("Add(%v/%v) = %v", ipb, mb, err), hist)
					}
					s.Count("add.valid")
				} else {
					if err != netutil.ErrInvalidIPv4CIDR {
						s.Violate("invalid-cidr-accepted", fmt.Sprintf("Add(%v/%v) = %v", ipb, mb, err), hist)
					}
					s.Count("add.invalid")
				}
			case c < 72: // remove
				p := Pick(r, pool)
				if r.Chance(15) {
					p = pfx{uint32(r.U64()), 1 + r.Intn(32)} // most likely absent
				}
				ipb, mb := []byte(ip4(p.net)), []byte(net.CIDRMask(p.ones, 32))
				if r.Chance(4) {
					ipb, mb = mutateCIDR(r, ipb, mb)
				}
				if len(lastHit) > 0 && r.Chance(30) {
					// remove a stored range that covers a recent hit, named by that very address (host bits set)
					hit := lastHit[len(lastHit)-1]
					for sp := range spec {
						if hit&maskN(sp.ones) == sp.net && (sp.ones < 32 || r.Chance(50)) {
							ipb, mb = []byte(ip4(hit)), []byte(net.CIDRMask(sp.ones, 32))
							s.Count("rem.covering-last-hit")
							break
						}
					}
				}
				err := f.Remove(&net.IPNet{IP: ipb, Mask: mb})
				s.Line("rem "+hx(ipb)+" "+hx(mb), errName(err)+" "+filterBrief(f))
				hist = append(hist, filterOp{"rem", hx(ipb), hx(mb)})
				if sp, ok := specCIDR(ipb, mb); ok {
					delete(spec, sp)
					if err != nil {
						s.Violate("valid-cidr-rejected", fmt.Sprintf("Remove(%v/%v) = %v", ipb, mb, err), hist)
					}
					s.Count("rem.valid")
					if len(lastHit) > 0 && r.Chance(60) {
						probeAt(lastHit[len(lastHit)-1], r.Chance(35))
						s.Count("probe.again-after-remove")
					}
				} else {
					if err != netutil.ErrInvalidIPv4CIDR {
						s.Violate("invalid-cidr-accepted", fmt.Sprintf("Remove(%v/%v) = %v", ipb, mb, err), hist)
					}
					s.Count("rem.invalid")
				}
			case c < 98: // probe
				p := Pick(r, pool)
				first := p.net & maskN(p.ones)
				last := first | ^maskN(p.ones)
				var a uint32
				switch r.Intn(6) {
				case 0:
					a = first
				case 1:
					a = last
				case 2:
					a = first - 1
				case 3:
					a = last + 1
				case 4:
					a = first + uint32(r.U64())&^maskN(p.ones)
				default:
					a = uint32(r.U64())
				}
				probeAt(a, r.Chance(35))
			default:
				s.Line("dump", filterDump(f))
				s.Count("dump")
			}
		}
		if h%4 == 3 {
			// drain: remove every range that is still present, then probe again - an emptied filter
			// (in either mode) contains nothing, and later additions start from there
			var left []pfx
			for p := range spec {
				left = append(left, p)
			}
			sort.Slice(left, func(i, j int) bool {
				if left[i].ones != left[j].ones {
					return left[i].ones < left[j].ones
				}
				return left[i].net < left[j].net
			})
			for _, p := range left {
				ipb, mb := []byte(ip4(p.net)), []byte(net.CIDRMask(p.ones, 32))
				err := f.Remove(&net.IPNet{IP: ipb, Mask: mb})
				s.Line("rem "+hx(ipb)+" "+hx(mb), errName(err)+" "+filterBrief(f))
				hist = append(hist, filterOp{"rem", hx(ipb), hx(mb)})
				delete(spec, p)
			}
			s.Count("history.drained")
			for i := 0; i < 40 && len(pool) > 0; i++ {
				p := Pick(r, pool)
				a := p.net&maskN(p.ones) + uint32(r.U64())&^maskN(p.ones)
				if i%10 == 9 { // re-add one range and look it up
					ipb, mb := []byte(ip4(p.net)), []byte(net.CIDRMask(p.ones, 32))
					f.Add(&net.IPNet{IP: ipb, Mask: mb})
					s.Line("add "+hx(ipb)+" "+hx(mb), "nil "+filterBrief(f))
					hist = append(hist, filterOp{"add", hx(ipb), hx(mb)})
					spec[pfx{p.net & maskN(p.ones), p.ones}] = true
				}
				got, want := f.Contains(ip4(a)), spec.mem(a)
				s.Line("has "+hx(ip4(a)), fmt.Sprint(got))
				s.Evaluations++
				if got != want {
					hist2 := append(append([]filterOp{}, hist...), filterOp{"has", hx(ip4(a)), ""})
					if len(s.Violations) < 3 {
						hist2 = ddmin(hist2, filterHistoryFails)
					}
					s.Violate("membership", fmt.Sprintf("after draining the filter Contains(%v) = %v, prefix-set says %v", ip4(a), got, want), hist2)
				}
			}
		}
		if h%8 == 7 {
			// second life: after the drain the filter grows past the list size once more (fresh ranges),
			// and the ranges of its first life - all removed - are probed again
			for i := 0; i < ls+30; i++ {
				p := pfx{uint32(40+r.Intn(3))<<24 | uint32(r.Intn(1<<16))<<8, 17 + r.Intn(8)}
				ipb, mb := []byte(ip4(p.net)), []byte(net.CIDRMask(p.ones, 32))
				err := f.Add(&net.IPNet{IP: ipb, Mask: mb})
				s.Line("add "+hx(ipb)+" "+hx(mb), errName(err)+" "+filterBrief(f))
				hist = append(hist, filterOp{"add", hx(ipb), hx(mb)})
				spec[pfx{p.net & maskN(p.ones), p.ones}] = true
				if i%8 == 7 && len(pool) > 0 {
					q := Pick(r, pool)
					probeAt(q.net&maskN(q.ones)+uint32(r.U64())&^maskN(q.ones), r.Chance(35))
				}
			}
			for i := 0; i < 60 && len(pool) > 0; i++ {
				q := Pick(r, pool)
				probeAt(q.net&maskN(q.ones)+uint32(r.U64())&^maskN(q.ones), r.Chance(35))
			}
			// prefix lengths that were not in use when the filter switched representation
			for ones := 1; ones <= 32; ones++ {
				if ones >= 17 && ones <= 24 {
					continue
				}
				p := pfx{uint32(60+ones)<<24 | uint32(r.Intn(1<<24)), ones}
				ipb, mb := []byte(ip4(p.net)), []byte(net.CIDRMask(p.ones, 32))
				err := f.Add(&net.IPNet{IP: ipb, Mask: mb})
				s.Line("add "+hx(ipb)+" "+hx(mb), errName(err)+" "+filterBrief(f))
				hist = append(hist, filterOp{"add", hx(ipb), hx(mb)})
				spec[pfx{p.net & maskN(p.ones), p.ones}] = true
				probeAt(p.net, r.Chance(35))
				probeAt(p.net&maskN(ones)-1, false)
			}
			s.Count("history.second-life")
		}
		s.Line("dump", filterDump(f))
		st := f.VerifState()
		if st.MapsMode {
			s.Count("history.crossed-switch")
		} else {
			s.Count("history.list-only")
		}
		if h < 2 && len(hist) > 6 {
			s.Sample(hist[:6])
		}
	}
	s.Traces = nHist
}

// mutateCIDR produces arguments that are not IPv4 CIDRs (or, rarely, still are).
func mutateCIDR(r *Rng, ip, mask []byte) ([]byte, []byte) {
	switch r.Intn(7) {
	case 0:
		return net.IP(ip).To16(), mask // 16-byte address with 4-byte mask
	case 1:
		return ip, net.CIDRMask(96+r.Intn(33), 128) // 16-byte mask
	case 2:
		return ip, []byte{255, 0, 255, 0} // non-canonical mask
	case 3:
		return ip[:3], mask
	case 4:
		return ip, mask[:r.Intn(4)]
	case 5:
		return net.IP(ip).To16(), net.CIDRMask(96+r.Intn(33), 128) // a genuine IPv6-form CIDR
	default:
		m := r.Bytes(4)
		return ip, m // random mask, almost surely non-canonical
	}
}

// filterHistoryFails replays a history on a fresh filter against the brute-force prefix set and
// reports whether any probe disagrees (used for shrinking and for --replay).
func filterHistoryFails(hist []filterOp) bool {
	f := netutil.NewIPv4Filter()
	spec := prefixSet{}
	for _, o := range hist {
		ipb, _ := hex.DecodeString(strings.TrimPrefix(o.IP, "-"))
		mb, _ := hex.DecodeString(strings.TrimPrefix(o.Mask, "-"))
		switch o.Op {
		case "add":
			f.Add(&net.IPNet{IP: ipb, Mask: mb})
			if sp, ok := specCIDR(ipb, mb); ok {
				spec[sp] = true
			}
		case "rem":
			f.Remove(&net.IPNet{IP: ipb, Mask: mb})
			if sp, ok := specCIDR(ipb, mb); ok {
				delete(spec, sp)
			}
		case "has":
			ip := net.IP(ipb).To4()
			if ip == nil {
				continue
			}
			if f.Contains(ipb) != spec.mem(binary.BigEndian.Uint32(ip)) {
				return true
			}
		}
	}
	return false
}
