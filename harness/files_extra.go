package main

import (
	"bytes"
	"fmt"
	"os"
	"path/filepath"
	"sync"
	"syscall"

	"github.com/whoisnian/glb/util/osutil"
)

// Stream files_extra (C18, direct oracle only): cases the file-system model of Glb/Model/Files.lean
// does not express — a destination whose writes fail half-way (/dev/full), and paths that go through
// "<symlink to a directory>/..", where lexical cleaning and the kernel's resolution differ.

func init() { streams["files_extra"] = runFilesExtra }

func fxRead(p string) ([]byte, bool) {
	b, err := os.ReadFile(p)
	return b, err == nil
}

func runFilesExtra(cfg Cfg) {
	s := NewStream(cfg.Out, "files_extra")
	defer s.Close()
	s.Rule = "CopyFile/MoveFile onto a private character device 1:7 (what /dev/full is: every write fails with ENOSPC), beside the source and on another device: either an error is returned and the source keeps its content, or the destination name holds the bytes afterwards; CopyFile/MoveFile with source or destination spelled through '<dir symlink>/..': the file the kernel resolves must be the one copied/moved; the destination is the directory that contains the source; an existing destination of exactly the source's length; six CopyFile calls at the same time after a copy that failed to create its destination; sizes 1 B .. 1 MiB; non-trivial = each (call, scenario, size)"
	rng := NewRng(cfg.Seed)
	root, err := os.MkdirTemp(cfg.Out, "fx")
	if err != nil {
		fatal(err)
	}
	defer os.RemoveAll(root)
	shmDir := ""
	if d, err := os.MkdirTemp("/dev/shm", "glbverif-fx"); err == nil {
		shmDir = d
		defer os.RemoveAll(d)
	}
	sizes := []int{1, 4096, 70000}
	if cfg.Thorough() {
		sizes = append(sizes, 1<<20)
	}
	for round := 0; round < cfg.N(3, 20); round++ {
		for _, size := range sizes {
			content := rng.Bytes(size)
			// ---- A: destination that cannot be written: a PRIVATE character device 1:7 (what /dev/full is),
			// made in a scratch directory on another device (so that a move has to copy) and beside the
			// source. The system's /dev/full itself is never used: an implementation is free to replace the
			// destination name by a new file (write aside + rename), and that must not hit a system node.
			for _, where := range []string{"other-device", "same-device"} {
				dir := root
				if where == "other-device" {
					dir = shmDir
				}
				if dir == "" {
					continue
				}
				for _, call := range []string{"copy", "move"} {
					if call == "move" && where == "same-device" {
						continue // a plain rename onto the node: nothing is written at all
					}
					node := filepath.Join(dir, "full")
					os.Remove(node)
					if err := syscall.Mknod(node, syscall.S_IFCHR|0o666, 1<<8|7); err != nil {
						if round == 0 && size == sizes[0] {
							s.Notes = append(s.Notes, "mknod of a private full device failed ("+err.Error()+"): failing-destination cases skipped")
						}
						continue
					}
					src := filepath.Join(root, fmt.Sprintf("a%d_%d_%s", round, size, call))
					os.WriteFile(src, content, 0o644)
					var cerr error
					if call == "copy" {
						_, cerr = osutil.CopyFile(src, node)
					} else {
						cerr = osutil.MoveFile(src, node)
					}
					got, ok := fxRead(src)
					sc := map[string]any{"call": call, "src_size": size, "dst": "a character device 1:7 (like /dev/full), " + where}
					if cerr == nil {
						// success is only truthful if the destination NAME now holds the bytes (the node was replaced)
						st, serr := os.Lstat(node)
						var dgot []byte
						if serr == nil && st.Mode().IsRegular() {
							dgot, _ = fxRead(node)
						}
						if !bytes.Equal(dgot, content) || len(content) == 0 {
							s.Violate(call+"-ok-destination-wrong", fmt.Sprintf("%s(src, <full device>) returned nil although the destination does not hold the %d bytes (every write to it fails; source still present: %v)", call, size, ok), sc)
						} else {
							s.Count("devfull.node-replaced-by-file")
						}
					}
					if (cerr != nil || call == "copy") && (!ok || !bytes.Equal(got, content)) {
						s.Violate(call+"-error-source-lost", fmt.Sprintf("%s(src, <full device>) = %v: the source no longer holds its %d bytes (present=%v, len=%d)", call, cerr, size, ok, len(got)), sc)
					}
					os.Remove(src)
					os.Remove(node)
					s.Evaluations++
					s.Nontrivial(fmt.Sprintf("devfull/%s/%s/%d", where, call, size))
				}
			}
			// ---- B: "<dir symlink>/.." in the path
			for _, call := range []string{"copy-src", "copy-dst", "move-src", "move-dst"} {
				d := filepath.Join(root, fmt.Sprintf("b%d_%d_%s", round, size, call))
				os.MkdirAll(filepath.Join(d, "real", "sub"), 0o755)
				os.Symlink(filepath.Join("real", "sub"), filepath.Join(d, "link")) // d/link -> d/real/sub, so d/link/.. is d/real
				other := bytes.Repeat([]byte{'o'}, size)
				inReal, inTop := filepath.Join(d, "real", "f"), filepath.Join(d, "f")
				viaLink := filepath.Join(d, "link") + "/../f" // resolves to d/real/f; lexically cleaned it would be d/f
				plain := filepath.Join(d, "plain")
				sc := map[string]any{"call": call, "size": size, "path": "<dir>/link/../f with link -> real/sub"}
				switch call {
				case "copy-src", "move-src":
					os.WriteFile(inReal, content, 0o644)
					os.WriteFile(inTop, other, 0o644)
					var cerr error
					if call == "copy-src" {
						_, cerr = osutil.CopyFile(viaLink, plain)
					} else {
						cerr = osutil.MoveFile(viaLink, plain)
					}
					got, _ := fxRead(plain)
					top, _ := fxRead(inTop)
					if cerr != nil {
						s.Violate("unexpected-error", fmt.Sprintf("%s: %v", call, cerr), sc)
					} else if !bytes.Equal(got, content) {
						s.Violate(call[:4]+"-ok-destination-wrong", fmt.Sprintf("%s: the destination does not hold the bytes of the file the source path resolves to (got %d bytes, first %q)", call, len(got), string(got[:min(len(got), 1)])), sc)
					}
					if !bytes.Equal(top, other) {
						s.Violate("unrelated-file-touched", fmt.Sprintf("%s: the unrelated file <dir>/f was changed or removed", call), sc)
					}
				case "copy-dst", "move-dst":
					os.WriteFile(plain, content, 0o644)
					os.WriteFile(inTop, other, 0o644)
					var cerr error
					if call == "copy-dst" {
						_, cerr = osutil.CopyFile(plain, viaLink)
					} else {
						cerr = osutil.MoveFile(plain, viaLink)
					}
					got, _ := fxRead(inReal)
					top, _ := fxRead(inTop)
					if cerr != nil {
						s.Violate("unexpected-error", fmt.Sprintf("%s: %v", call, cerr), sc)
					} else if !bytes.Equal(got, content) {
						s.Violate(call[:4]+"-ok-destination-wrong", fmt.Sprintf("%s returned nil but the file the destination path resolves to does not hold the source's bytes", call), sc)
					}
					if !bytes.Equal(top, other) {
						s.Violate("unrelated-file-touched", fmt.Sprintf("%s: the unrelated file <dir>/f was overwritten", call), sc)
					}
				}
				os.RemoveAll(d)
				s.Evaluations++
				s.Nontrivial(fmt.Sprintf("dirlink/%s/%d", call, size))
			}
		}
	}
	// ---- C: the destination is the directory that contains the source (directly, or through a symlink)
	for round := 0; round < cfg.N(2, 6); round++ {
		for _, call := range []string{"copy", "move"} {
			for _, via := range []string{"dir", "symlink-to-dir", "dir-slash"} {
				d := filepath.Join(root, fmt.Sprintf("c%d_%s_%s", round, call, via))
				os.MkdirAll(filepath.Join(d, "in"), 0o755)
				content := rng.Bytes(1 + rng.Intn(9000))
				src := filepath.Join(d, "in", "f")
				os.WriteFile(src, content, 0o644)
				dst := filepath.Join(d, "in")
				switch via {
				case "symlink-to-dir":
					os.Symlink("in", filepath.Join(d, "ln"))
					dst = filepath.Join(d, "ln")
				case "dir-slash":
					dst += "/"
				}
				var cerr error
				if call == "copy" {
					_, cerr = osutil.CopyFile(src, dst)
				} else {
					cerr = osutil.MoveFile(src, dst)
				}
				got, _ := fxRead(src)
				if atDst, ok := fxRead(dst); call == "move" && cerr == nil && ok && bytes.Equal(atDst, content) {
					got = atDst // the destination name itself now is the file (rename replaced the symlink)
				}
				if !bytes.Equal(got, content) {
					s.Violate(call+"-content-lost", fmt.Sprintf("%s(<dir>/f, <dir> via %s) = %v: <dir>/f no longer holds its %d bytes (it holds %d) and they are nowhere else", call, via, cerr, len(content), len(got)), map[string]any{"call": call, "dst": via, "size": len(content)})
				}
				os.RemoveAll(d)
				s.Evaluations++
				s.Nontrivial(fmt.Sprintf("containing-dir/%s/%s", call, via))
			}
		}
	}
	// ---- D: an existing destination of exactly the source's length (other content), and one that is
	// already identical
	for _, size := range append([]int{33000, 200000}, sizes...) {
		for _, same := range []bool{false, true} {
			content := rng.Bytes(size)
			other := append([]byte{}, content...)
			if !same {
				other[rng.Intn(size)] ^= 0x5a // differs in one byte somewhere
				if size > 40000 {
					other[0] ^= 1 // ... and in the first block
				}
			}
			src, dst := filepath.Join(root, "d_src"), filepath.Join(root, "d_dst")
			os.WriteFile(src, content, 0o644)
			os.WriteFile(dst, other, 0o644)
			n, cerr := osutil.CopyFile(src, dst)
			got, _ := fxRead(dst)
			srcNow, _ := fxRead(src)
			sc := map[string]any{"call": "copy", "size": size, "destination": "exists, same length", "already_identical": same}
			if cerr != nil {
				s.Violate("unexpected-error", fmt.Sprintf("CopyFile onto an existing file of the same length: %v", cerr), sc)
			} else if !bytes.Equal(got, content) {
				s.Violate("copy-ok-destination-wrong", fmt.Sprintf("CopyFile returned (%d, nil) but the destination (same length as the source before the call) does not hold the source's bytes (len %d)", n, len(got)), sc)
			}
			if !bytes.Equal(srcNow, content) {
				s.Violate("copy-error-source-lost", "CopyFile changed its source", sc)
			}
			os.Remove(src)
			os.Remove(dst)
			s.Evaluations++
			s.Nontrivial(fmt.Sprintf("same-length/%d/%v", size, same))
		}
	}
	// ---- E: copies running at the same time (after one that failed while creating its destination):
	// every destination must hold its own source
	for round := 0; round < cfg.N(6, 40); round++ {
		d := filepath.Join(root, fmt.Sprintf("e%d", round))
		os.MkdirAll(d, 0o755)
		bad := filepath.Join(d, "bad_src")
		os.WriteFile(bad, []byte("x"), 0o644)
		osutil.CopyFile(bad, filepath.Join(d, "no-such-dir", "x")) // fails: parent missing
		osutil.CopyFile(bad, d)                                    // fails: destination is a directory
		const G = 6
		contents := make([][]byte, G)
		for g := range contents {
			blk := rng.Bytes(4096)
			b := make([]byte, 300000+g*70001)
			for off := 0; off < len(b); off += len(blk) {
				copy(b[off:], blk)
				b[off] = byte(off >> 12)
			}
			b[0] = byte(g + 1)
			contents[g] = b
			os.WriteFile(filepath.Join(d, fmt.Sprintf("s%d", g)), b, 0o644)
		}
		errs := make([]error, G)
		var wg sync.WaitGroup
		for g := 0; g < G; g++ {
			wg.Add(1)
			go func(g int) {
				defer wg.Done()
				_, errs[g] = osutil.CopyFile(filepath.Join(d, fmt.Sprintf("s%d", g)), filepath.Join(d, fmt.Sprintf("t%d", g)))
			}(g)
		}
		wg.Wait()
		for g := 0; g < G; g++ {
			got, _ := fxRead(filepath.Join(d, fmt.Sprintf("t%d", g)))
			sc := map[string]any{"call": "copy", "concurrent_copies": G, "size": len(contents[g]), "round": round}
			if errs[g] != nil {
				s.Violate("unexpected-error", fmt.Sprintf("concurrent CopyFile %d: %v", g, errs[g]), sc)
			} else if !bytes.Equal(got, contents[g]) {
				s.Violate("copy-ok-destination-wrong", fmt.Sprintf("%d CopyFile calls ran at the same time (distinct sources and destinations); destination %d does not hold its source's %d bytes", G, g, len(contents[g])), sc)
			}
			s.Evaluations++
		}
		os.RemoveAll(d)
		s.Nontrivial(fmt.Sprintf("concurrent-copies/%d", round))
	}
	s.Sample(map[string]any{"A": "CopyFile(src, <private full device>) / MoveFile(src, <private full device on another device>)", "B": "CopyFile(<dir>/link/../f, plain) with link -> real/sub"})
}
