package main

import (
	"context"
	"errors"
	"fmt"
	"reflect"
	"runtime"
	"strings"
	"sync"
	"sync/atomic"
	"time"

	"github.com/whoisnian/glb/tasklane"
)

// Streams for the TaskLane properties. They have no line-protocol model side: the model is tied to
// the source by the regenerated select-programs (Glb.Tie.TaskLane). These streams are the direct
// oracles (property statements evaluated on the real code under stress and directed schedules).

func init() {
	streams["tl_exact"] = func(c Cfg) { runTL(c, "tl_exact") }
	streams["tl_cancel"] = func(c Cfg) { runTL(c, "tl_cancel") }
	streams["tl_share"] = func(c Cfg) { runTL(c, "tl_share") }
	streams["tl_status"] = func(c Cfg) { runTL(c, "tl_status") }
}

const tlDeadline = 8 * time.Second // generous watchdog: only enabledness-style facts are asserted

// ---- instrumentation of one lane --------------------------------------------------------------

type tlRun struct {
	mu            sync.Mutex
	starts        map[int]int
	finished      map[int]bool
	running       int
	maxRunning    int
	waitDone      bool
	runningAtWait int
	afterWait     []int
	panicked      []any // panic values that were actually raised
}

func newTLRun() *tlRun { return &tlRun{starts: map[int]int{}, finished: map[int]bool{}} }

type tlTask struct {
	id    int
	r     *tlRun
	block chan struct{} // nil = return at once
	work  time.Duration
	pv    any  // panic value, nil = none
	exit  bool // end the worker goroutine with runtime.Goexit (what t.FailNow does inside a task)
}

func (t *tlTask) Start() {
	t.r.mu.Lock()
	t.r.starts[t.id]++
	t.r.running++
	if t.r.running > t.r.maxRunning {
		t.r.maxRunning = t.r.running
	}
	if t.r.waitDone {
		t.r.afterWait = append(t.r.afterWait, t.id)
	}
	t.r.mu.Unlock()
	defer func() {
		t.r.mu.Lock()
		t.r.running--
		t.r.finished[t.id] = true
		t.r.mu.Unlock()
	}()
	if t.block != nil {
		<-t.block
	}
	if t.work > 0 {
		time.Sleep(t.work)
	} else {
		runtime.Gosched()
	}
	if t.exit {
		runtime.Goexit()
	}
	if t.pv != nil {
		t.r.mu.Lock()
		t.r.panicked = append(t.r.panicked, t.pv)
		t.r.mu.Unlock()
		panic(t.pv)
	}
}

func (r *tlRun) snapshot() (starts map[int]int, finished int, maxRunning int, afterWait []int) {
	r.mu.Lock()
	defer r.mu.Unlock()
	starts = make(map[int]int, len(r.starts))
	for k, v := range r.starts {
		starts[k] = v
	}
	return starts, len(r.finished), r.maxRunning, append([]int{}, r.afterWait...)
}

func (r *tlRun) startedCount() int {
	r.mu.Lock()
	defer r.mu.Unlock()
	return len(r.starts)
}

func (r *tlRun) isStarted(id int) bool {
	r.mu.Lock()
	defer r.mu.Unlock()
	return r.starts[id] > 0
}

func waitUntil(d time.Duration, cond func() bool) bool {
	end := time.Now().Add(d)
	for {
		if cond() {
			return true
		}
		if time.Now().After(end) {
			return false
		}
		time.Sleep(200 * time.Microsecond)
	}
}

// waitLane calls Wait with a watchdog; false = Wait did not return in time.
func waitLane(tl *tasklane.TaskLane, r *tlRun) bool {
	done := make(chan struct{})
	go func() {
		tl.Wait()
		r.mu.Lock()
		r.waitDone = true
		r.runningAtWait = r.running // tasks inside Start() at the moment Wait() returned: must be none
		r.mu.Unlock()
		close(done)
	}()
	select {
	case <-done:
		return true
	case <-time.After(tlDeadline):
		return false
	}
}

func laneGoroutinesGone() (bool, string) {
	buf := make([]byte, 1<<20)
	var dump string
	ok := waitUntil(2*time.Second, func() bool {
		n := runtime.Stack(buf, true)
		dump = string(buf[:n])
		return !strings.Contains(dump, "tasklane.(*TaskLane).startQueue") && !strings.Contains(dump, "tasklane.(*TaskLane).startWorker")
	})
	if ok {
		return true, ""
	}
	var keep []string
	for _, g := range strings.Split(dump, "\n\n") {
		if strings.Contains(g, "tasklane.(*TaskLane).start") {
			keep = append(keep, g)
		}
	}
	return false, strings.Join(keep, "\n\n")
}

type tlPush struct {
	id   int
	lane int
	err  error
}

type tlScenario struct {
	Kind    string `json:"kind"`
	L       int    `json:"lanes"`
	Q       int    `json:"queue"`
	Seed    uint64 `json:"seed"`
	Detail  string `json:"detail,omitempty"`
	Point   string `json:"point,omitempty"`
	Base    string `json:"base,omitempty"`
	Ctx     string `json:"ctx,omitempty"`
	Pinned  []int  `json:"pinned,omitempty"`
	NTasks  int    `json:"tasks,omitempty"`
	Timeout string `json:"timeout,omitempty"`
}

// finalChecks: properties that must hold after every run, whatever the scenario. The context must
// already be cancelled and all blocking tasks released.
// runs whose lane has been waited for: nothing of theirs may start later, whatever lanes are built afterwards
var tlOldRuns []tlOldRun

type tlOldRun struct {
	r  *tlRun
	sc tlScenario
}

// tlRecheckOldRuns: at the end of a stream, no task of an earlier, finished lane has been started since.
func tlRecheckOldRuns(s *Stream) {
	for _, o := range tlOldRuns {
		_, _, _, afterWait := o.r.snapshot()
		if len(afterWait) > 0 {
			s.Violate("start-after-wait", fmt.Sprintf("tasks %v of a lane were started after its Wait() had returned (by a lane built later?)", afterWait), o.sc)
			break
		}
	}
	tlOldRuns = nil
}

func tlFinalChecks(s *Stream, sc tlScenario, tl *tasklane.TaskLane, r *tlRun, pushes []tlPush, cancelled context.Context) {
	defer func() {
		if len(tlOldRuns) < 400 {
			tlOldRuns = append(tlOldRuns, tlOldRun{r, sc})
		}
	}()
	if !waitLane(tl, r) {
		_, dump := laneGoroutinesGone()
		s.Violate("wait-does-not-return", "Wait() did not return within the watchdog after cancel with no task running", map[string]any{"scenario": sc, "goroutines": dump})
		return
	}
	r.mu.Lock()
	raw := r.runningAtWait
	r.mu.Unlock()
	if raw > 0 {
		s.Violate("wait-returned-early", fmt.Sprintf("Wait() returned while %d started task(s) had not returned yet", raw), sc)
	}
	// a PushTask that begins after cancel returns the context error and its task never starts
	late := &tlTask{id: -1, r: r}
	for lane := 0; lane < sc.L; lane++ {
		err := tl.PushTask(late, lane)
		if err == nil || err != cancelled.Err() {
			s.Violate("push-after-cancel", fmt.Sprintf("PushTask after cancel returned %v, want %v", err, cancelled.Err()), sc)
		}
	}
	time.Sleep(2 * time.Millisecond)
	if ok, dump := laneGoroutinesGone(); !ok {
		s.Violate("goroutine-leak", "lane goroutines still alive after Wait returned", map[string]any{"scenario": sc, "goroutines": dump})
	}
	starts, _, maxRunning, afterWait := r.snapshot()
	if len(afterWait) > 0 || starts[-1] > 0 {
		s.Violate("start-after-wait", fmt.Sprintf("tasks %v started after Wait returned (late task started: %d)", afterWait, starts[-1]), sc)
	}
	if maxRunning > sc.L {
		s.Violate("too-many-running", fmt.Sprintf("%d tasks ran at once with laneSize %d", maxRunning, sc.L), sc)
	}
	for id, n := range starts {
		if n > 1 {
			s.Violate("started-twice", fmt.Sprintf("task %d started %d times", id, n), sc)
		}
	}
	acceptedID := map[int]bool{}
	for _, p := range pushes {
		if p.err == nil {
			acceptedID[p.id] = true
		}
	}
	for _, p := range pushes {
		if p.err != nil && !acceptedID[p.id] && starts[p.id] > 0 {
			s.Violate("rejected-task-started", fmt.Sprintf("task %d was started although PushTask returned %v", p.id, p.err), sc)
		}
	}
	st := tl.Status()
	if st.PendingTask < 0 || st.PendingTask > sc.L*(sc.Q+1) {
		s.Violate("pending-out-of-bounds", fmt.Sprintf("PendingTask=%d outside [0,%d]", st.PendingTask, sc.L*(sc.Q+1)), sc)
	}
}

// ---- scenario: randomized stress (C06, C14) ------------------------------------------------------

type customErr struct{ n int }

func (e customErr) Error() string { return fmt.Sprintf("custom %d", e.n) }

type customSliceErr []string

func (e customSliceErr) Error() string { return fmt.Sprint([]string(e)) }

func tlPanicValue(r *Rng, id int) any {
	switch r.Intn(9) {
	case 6:
		return []int{id, id} // uncomparable dynamic types: == on two such interface values panics
	case 7:
		return map[string]int{"id": id}
	case 8:
		return customSliceErr{fmt.Sprintf("field-%d", id)}
	case 0:
		return fmt.Sprintf("panic-%d", id)
	case 1:
		return errors.New(fmt.Sprintf("err-%d", id))
	case 2:
		return id + 1000
	case 3:
		return customErr{id}
	case 4:
		return struct{ A, B int }{id, id}
	default:
		return [2]int{id, id}
	}
}

func tlStress(s *Stream, rng *Rng, withCancel bool, statusFocus bool) {
	L, Q := 1+rng.Intn(4), rng.Intn(4)
	timeouts := []time.Duration{0, time.Millisecond, 30 * time.Millisecond}
	to := Pick(rng, timeouts)
	sc := tlScenario{Kind: "stress", L: L, Q: Q, Seed: rng.s, Timeout: to.String()}
	ctx, cancel := context.WithCancel(context.Background())
	defer cancel()
	tl := tasklane.New(ctx, L, Q)
	tl.SetTimeout(to)
	r := newTLRun()
	nProd, per := 3, 5+rng.Intn(30)
	sc.NTasks = nProd * per
	cancelAfter := -1
	if withCancel {
		cancelAfter = rng.Intn(nProd*per + 1)
		sc.Detail = fmt.Sprintf("cancel after %d pushes", cancelAfter)
	}
	var pushed atomic.Int64
	var nilPushedA atomic.Bool
	var mu sync.Mutex
	var pushes []tlPush
	// now and then a nil Task is pushed first: the worker's call of Start() on it panics (recovered),
	// which must affect nothing else; its panic value is a runtime error we do not try to predict
	if statusFocus && rng.Chance(25) {
		nilPushedA.Store(tl.PushTask(nil, rng.Intn(L)) == nil)
		sc.Detail += " nil-task-pushed"
	}
	nilPushed := nilPushedA.Load()

	panicVals := map[int]any{}
	var wg sync.WaitGroup
	stopPoll := make(chan struct{})
	var pollWg sync.WaitGroup
	var boundViol atomic.Int64
	pollWg.Add(1)
	go func() { // a second, simple poller: two goroutines inside Status() at once
		defer pollWg.Done()
		for {
			select {
			case <-stopPoll:
				return
			default:
			}
			if st := tl.Status(); st.PendingTask < 0 || st.PendingTask > L*(Q+1) {
				boundViol.Store(int64(st.PendingTask) + 1)
			}
			runtime.Gosched()
		}
	}()
	pollWg.Add(1)
	go func() {
		defer pollWg.Done()
		for {
			select {
			case <-stopPoll:
				return
			default:
			}
			st := tl.Status()
			if st.PendingTask < 0 || st.PendingTask > L*(Q+1) {
				boundViol.Store(int64(st.PendingTask) + 1)
			}
			if st.LastPanic != nil && !nilPushedA.Load() {
				mu.Lock()
				found := false
				for _, v := range panicVals {
					if reflect.DeepEqual(v, st.LastPanic) {
						found = true
					}
				}
				mu.Unlock()
				if !found {
					s.Violate("last-panic-unknown", fmt.Sprintf("Status().LastPanic = %v is not a value any task panicked with", st.LastPanic), sc)
				}
			}
			runtime.Gosched()
		}
	}()
	for p := 0; p < nProd; p++ {
		pr := rng.Fork()
		wg.Add(1)
		go func(p int) {
			defer wg.Done()
			for i := 0; i < per; i++ {
				id := p*1000 + i
				t := &tlTask{id: id, r: r}
				switch pr.Intn(4) {
				case 0:
					t.work = time.Duration(pr.Intn(300)) * time.Microsecond
				case 1:
					if statusFocus || pr.Chance(60) {
						t.pv = tlPanicValue(pr, id)
						mu.Lock()
						panicVals[id] = t.pv
						mu.Unlock()
					}
				}
				lane := pr.Intn(L)
				if pr.Chance(30) {
					lane = 0 // pile up on one lane
				}
				err := tl.PushTask(t, lane)
				mu.Lock()
				pushes = append(pushes, tlPush{id, lane, err})
				mu.Unlock()
				// a caller that gets ErrTimeout typically tries again with the SAME task object
				for retry := 0; retry < 2 && errors.Is(err, tasklane.ErrTimeout) && pr.Chance(30); retry++ {
					runtime.Gosched()
					err = tl.PushTask(t, lane)
					mu.Lock()
					pushes = append(pushes, tlPush{id, lane, err})
					mu.Unlock()
				}
				if int(pushed.Add(1)) == cancelAfter {
					cancel()
				}
			}
		}(p)
	}
	// every PushTask returns within its timeout (30 ms at most here), cancelled or not
	prodDone := make(chan struct{})
	go func() { wg.Wait(); close(prodDone) }()
	select {
	case <-prodDone:
	case <-time.After(tlDeadline):
		s.Violate("push-does-not-return", fmt.Sprintf("a PushTask call (timeout %v) has not returned %v after it was made (context cancelled: %v)", to, tlDeadline, ctx.Err() != nil), sc)
		cancel()
		close(stopPoll)
		pollWg.Wait()
		return // the lane is wedged: nothing more can be checked on it
	}
	accepted := 0
	mu.Lock()
	pushes = append([]tlPush{}, pushes...)
	mu.Unlock()
	for _, p := range pushes {
		if p.err == nil {
			accepted++ // a task object is pushed again only after an error, so at most one nil per id
		} else if !errors.Is(p.err, tasklane.ErrTimeout) && !errors.Is(p.err, context.Canceled) {
			s.Violate("push-error-kind", fmt.Sprintf("PushTask returned unexpected error %v", p.err), sc)
		}
	}
	if !withCancel {
		// live context, tasks return: every accepted task is eventually started, exactly once
		ok := waitUntil(tlDeadline, func() bool {
			starts, fin, _, _ := r.snapshot()
			return len(starts) == accepted && fin == accepted
		})
		if !ok {
			starts, fin, _, _ := r.snapshot()
			var missing []int
			for _, p := range pushes {
				if p.err == nil && starts[p.id] == 0 {
					missing = append(missing, p.id)
				}
			}
			s.Violate("accepted-task-not-started", fmt.Sprintf("accepted=%d started=%d finished=%d, never started: %v", accepted, len(starts), fin, missing), sc)
		}
		// at rest: pending count is exactly 0 = accepted - started
		if ok && !waitUntil(2*time.Second, func() bool { return tl.Status().PendingTask == 0 }) {
			s.Violate("pending-not-exact", fmt.Sprintf("lane at rest with everything finished but PendingTask=%d", tl.Status().PendingTask), sc)
		}
		r.mu.Lock()
		raised := append([]any{}, r.panicked...)
		r.mu.Unlock()
		// a task counts as finished when its Start() unwinds, which is BEFORE the worker's deferred
		// recover stores the value: give the last store a moment before judging LastPanic
		if len(raised) > 0 {
			waitUntil(2*time.Second, func() bool {
				lp := tl.Status().LastPanic
				for _, v := range raised {
					if reflect.DeepEqual(v, lp) {
						return true
					}
				}
				return false
			})
		}
		st := tl.Status()
		if len(raised) > 0 && ok && !nilPushed {
			found := false
			for _, v := range raised {
				if reflect.DeepEqual(v, st.LastPanic) { // same dynamic type and value, not just the same text
					found = true
				}
			}
			if !found {
				s.Violate("last-panic-wrong", fmt.Sprintf("LastPanic=%#v (%T) after %d panics, not one of the panic values (compared with type)", st.LastPanic, st.LastPanic, len(raised)), sc)
			}
		}
		if len(raised) == 0 && st.LastPanic != nil && !nilPushed {
			s.Violate("last-panic-wrong", fmt.Sprintf("LastPanic=%v although no task panicked", st.LastPanic), sc)
		}
	}
	cancel()
	close(stopPoll)
	pollWg.Wait()
	if v := boundViol.Load(); v != 0 {
		s.Violate("pending-out-of-bounds", fmt.Sprintf("PendingTask=%d outside [0,%d] during the run", v-1, L*(Q+1)), sc)
	}
	tlFinalChecks(s, sc, tl, r, pushes, ctx)
	s.Evaluations++
	s.Count(fmt.Sprintf("stress.L%d.Q%d", L, Q))
	s.Nontrivial(fmt.Sprintf("stress/%d/%d/%v/%v/%d/%d", L, Q, to, withCancel, accepted, len(panicVals)))
	s.Sample(sc)
}

// ---- scenario: pinned workers, everything pushed to one lane (C08) ------------------------------

func tlPinned(s *Stream, rng *Rng, L, Q, nPinned int) {
	sc := tlScenario{Kind: "pinned", L: L, Q: Q, Seed: rng.s}
	ctx, cancel := context.WithCancel(context.Background())
	defer cancel()
	// every fifth lane is built while the process has a single P (a container with one CPU at
	// start-up): the number of workers must not depend on that
	oneP := rng.Intn(5) == 0
	var oldProcs int
	if oneP {
		oldProcs = runtime.GOMAXPROCS(1)
		sc.Detail = "lane built with GOMAXPROCS=1; "
	}
	tl := tasklane.New(ctx, L, Q)
	if oneP {
		runtime.GOMAXPROCS(oldProcs)
	}
	tl.SetTimeout(tlDeadline)
	r := newTLRun()
	release := make(chan struct{})
	var pushes []tlPush
	// pin nPinned workers: push a blocking task to lanes 0..nPinned-1 and wait until each started.
	// (a blocking task may be picked up by any idle worker; what matters is that nPinned workers are busy)
	for i := 0; i < nPinned; i++ {
		t := &tlTask{id: 9000 + i, r: r, block: release}
		err := tl.PushTask(t, i%L)
		pushes = append(pushes, tlPush{t.id, i % L, err})
		sc.Pinned = append(sc.Pinned, i%L)
	}
	if !waitUntil(tlDeadline, func() bool { return r.startedCount() == nPinned }) {
		s.Violate("accepted-task-not-started", fmt.Sprintf("only %d of %d pinning tasks started with all workers idle", r.startedCount(), nPinned), sc)
	}
	// now push everything to lane 0, whose own worker may well be one of the pinned ones
	m := 3 + rng.Intn(3*(Q+2))
	sc.NTasks = m
	target := rng.Intn(L)
	sc.Detail += fmt.Sprintf("%d short tasks pushed to lane %d while %d of %d workers are pinned", m, target, nPinned, L)
	for i := 0; i < m; i++ {
		t := &tlTask{id: i, r: r}
		err := tl.PushTask(t, target)
		pushes = append(pushes, tlPush{i, target, err})
		if err != nil {
			s.Violate("head-of-line-blocking", fmt.Sprintf("PushTask to lane %d timed out (%v) although %d workers are idle", target, err, L-nPinned), sc)
			break
		}
	}
	ok := waitUntil(tlDeadline, func() bool {
		_, fin, _, _ := r.snapshot()
		return fin == m
	})
	if !ok {
		_, fin, _, _ := r.snapshot()
		s.Violate("head-of-line-blocking", fmt.Sprintf("only %d of %d tasks pushed to lane %d completed while %d of %d workers were idle", fin, m, target, L-nPinned, L), sc)
	}
	close(release)
	waitUntil(tlDeadline, func() bool { _, fin, _, _ := r.snapshot(); return fin == m+nPinned })
	if !tlEnough(s) && rng.Intn(2) == 0 {
		// the same lane once more (it now has a history of shared hand-overs): other workers pinned this time,
		// short tasks to another lane
		release2 := make(chan struct{})
		for i := 0; i < nPinned; i++ {
			lane := (target + 1 + i) % L
			t := &tlTask{id: 19000 + i, r: r, block: release2}
			pushes = append(pushes, tlPush{t.id, lane, tl.PushTask(t, lane)})
		}
		waitUntil(tlDeadline, func() bool { return r.isStarted(19000 + nPinned - 1) })
		target2 := (target + 1) % L
		m2 := 2 + rng.Intn(2*(Q+1))
		for i := 0; i < m2; i++ {
			t := &tlTask{id: 20000 + i, r: r}
			pushes = append(pushes, tlPush{t.id, target2, tl.PushTask(t, target2)})
		}
		ok2 := waitUntil(tlDeadline, func() bool {
			starts, _, _, _ := r.snapshot()
			for i := 0; i < m2; i++ {
				if starts[20000+i] == 0 {
					return false
				}
			}
			return true
		})
		if !ok2 {
			s.Violate("head-of-line-blocking", fmt.Sprintf("second phase on the same lane: %d short tasks pushed to lane %d did not all start while %d of %d workers were idle (first phase: %s)", m2, target2, L-nPinned, L, sc.Detail), sc)
		}
		close(release2)
		waitUntil(tlDeadline, func() bool { return r.runningNow() == 0 && tl.Status().PendingTask == 0 })
	}
	cancel()
	tlFinalChecks(s, sc, tl, r, pushes, ctx)
	s.Evaluations++
	s.Count(fmt.Sprintf("pinned.L%d.Q%d.B%d", L, Q, nPinned))
	s.Nontrivial(fmt.Sprintf("pinned/%d/%d/%d/%d/%d", L, Q, nPinned, target, m))
	s.Sample(sc)
}

// ---- scenario: all workers pinned, k tasks queued, exact pending count (C14) ---------------------

func tlExactPending(s *Stream, rng *Rng, L, Q int) {
	sc := tlScenario{Kind: "exact-pending", L: L, Q: Q, Seed: rng.s}
	ctx, cancel := context.WithCancel(context.Background())
	defer cancel()
	tl := tasklane.New(ctx, L, Q)
	tl.SetTimeout(tlDeadline)
	r := newTLRun()
	release := make(chan struct{})
	var pushes []tlPush
	for i := 0; i < L; i++ {
		t := &tlTask{id: 9000 + i, r: r, block: release}
		pushes = append(pushes, tlPush{t.id, i, tl.PushTask(t, i)})
	}
	if !waitUntil(tlDeadline, func() bool { return r.startedCount() == L }) {
		s.Violate("accepted-task-not-started", "pinning tasks did not all start", sc)
	}
	// each lane can now absorb exactly Q+1 tasks (one in the queue goroutine's hand, Q buffered)
	k := 0
	for lane := 0; lane < L; lane++ {
		n := rng.Intn(Q + 2)
		for j := 0; j < n; j++ {
			t := &tlTask{id: lane*100 + j, r: r}
			err := tl.PushTask(t, lane)
			pushes = append(pushes, tlPush{t.id, lane, err})
			if err != nil {
				s.Violate("push-rejected-with-room", fmt.Sprintf("lane %d rejected task %d of %d although it holds at most Q+1=%d", lane, j+1, n, Q+1), sc)
			} else {
				k++
			}
		}
	}
	first := tl.Status() // must stay what it was: a later Status() call may not rewrite an earlier result
	firstPending, firstPanic := first.PendingTask, first.LastPanic
	sc.NTasks = k
	sc.Detail = fmt.Sprintf("all %d workers pinned, %d tasks accepted and not started", L, k)
	if !waitUntil(2*time.Second, func() bool { return tl.Status().PendingTask == k }) {
		s.Violate("pending-not-exact", fmt.Sprintf("stable state with %d accepted-but-not-started tasks, PendingTask=%d", k, tl.Status().PendingTask), sc)
	} else {
		// it must stay there
		for i := 0; i < 20; i++ {
			if p := tl.Status().PendingTask; p != k {
				s.Violate("pending-not-exact", fmt.Sprintf("PendingTask moved from %d to %d in a stable state", k, p), sc)
				break
			}
			time.Sleep(100 * time.Microsecond)
		}
	}
	if rng.Intn(2) == 0 {
		// the other way to come to rest: the context is cancelled while the k tasks are still waiting.
		// Afterwards the lane is at rest again, and what was accepted and never started is still pending.
		cancel()
		close(release)
		if !waitLane(tl, r) {
			s.Violate("wait-does-not-return", "Wait() did not return after cancel in the exact-pending scenario", sc)
			return
		}
		starts, _, _, _ := r.snapshot()
		notStarted := 0
		for _, p := range pushes {
			if p.err == nil && p.id < 9000 && starts[p.id] == 0 {
				notStarted++
			}
		}
		time.Sleep(time.Millisecond)
		if p := tl.Status().PendingTask; p != notStarted {
			s.Violate("pending-not-exact", fmt.Sprintf("at rest after cancel and Wait: %d accepted tasks were never started, PendingTask=%d (%s, then cancelled)", notStarted, p, sc.Detail), sc)
		}
		tlFinalChecks(s, sc, tl, r, pushes, ctx)
		s.Evaluations++
		s.Count(fmt.Sprintf("exact-after-cancel.L%d.Q%d", L, Q))
		s.Nontrivial(fmt.Sprintf("exact-after-cancel/%d/%d/%d", L, Q, k))
		return
	}
	close(release)
	waitUntil(tlDeadline, func() bool { _, fin, _, _ := r.snapshot(); return fin == k+L })
	if !waitUntil(2*time.Second, func() bool { return tl.Status().PendingTask == 0 }) {
		s.Violate("pending-not-exact", fmt.Sprintf("everything finished but PendingTask=%d", tl.Status().PendingTask), sc)
	}
	if first.PendingTask != firstPending || fmt.Sprint(first.LastPanic) != fmt.Sprint(firstPanic) {
		s.Violate("status-snapshot-changed", fmt.Sprintf("a LaneStatus returned earlier changed from PendingTask=%d to %d after later Status() calls", firstPending, first.PendingTask), sc)
	}
	cancel()
	tlFinalChecks(s, sc, tl, r, pushes, ctx)
	s.Evaluations++
	s.Count(fmt.Sprintf("exact.L%d.Q%d", L, Q))
	s.Nontrivial(fmt.Sprintf("exact/%d/%d/%d", L, Q, k))
	s.Sample(sc)
}

// ---- scenario: cancellation at a chosen protocol point in a chosen base state (C07) --------------

var tlPoints = []string{"q.took", "q.counted", "q.blocking", "q.handed", "w.got", "p.enter", "p.inner"}
var tlBases = []string{"idle", "full", "producers-blocked", "mid-task"}

func tlCancelAt(s *Stream, rng *Rng, L, Q int, point, base, ctxKind string) {
	sc := tlScenario{Kind: "cancel-at", L: L, Q: Q, Seed: rng.s, Point: point, Base: base, Ctx: ctxKind}
	var ctx context.Context
	var cancel context.CancelFunc
	var fire func()
	if ctxKind == "deadline" {
		// a context whose deadline "passes" when we say so: Err() == DeadlineExceeded
		parent, pcancel := context.WithCancel(context.Background())
		ec := newExpiringContext(parent)
		ctx, cancel, fire = ec, pcancel, ec.expire
	} else {
		ctx, cancel = context.WithCancel(context.Background())
		fire = cancel
	}
	defer cancel()
	r := newTLRun()
	release := make(chan struct{})
	var released atomic.Bool
	doRelease := func() {
		if released.CompareAndSwap(false, true) {
			close(release)
		}
	}
	defer doRelease()

	// hook: the first goroutine reaching `point` after arming is held there until `resume`
	var armed atomic.Bool
	hit := make(chan struct{})
	resume := make(chan struct{})
	var once sync.Once
	hook := func(p string, lane int) {
		if p == point && armed.Load() {
			held := false
			once.Do(func() { held = true; close(hit) })
			if held {
				<-resume
			}
		}
	}
	tasklane.VerifHook.Store(&hook)
	defer tasklane.VerifHook.Store(nil)

	tl := tasklane.New(ctx, L, Q)
	tl.SetTimeout(tlDeadline)
	var mu sync.Mutex
	var pushes []tlPush
	push := func(t *tlTask, lane int) error {
		err := tl.PushTask(t, lane)
		mu.Lock()
		pushes = append(pushes, tlPush{t.id, lane, err})
		mu.Unlock()
		return err
	}
	var bg sync.WaitGroup
	nextID := 0
	newTask := func(block bool) *tlTask {
		nextID++
		t := &tlTask{id: nextID, r: r}
		if block {
			t.block = release
		}
		return t
	}
	// base state
	switch base {
	case "idle":
	case "mid-task", "full", "producers-blocked":
		for i := 0; i < L; i++ {
			push(newTask(true), i)
		}
		waitUntil(tlDeadline, func() bool { return r.startedCount() == L })
		if base != "mid-task" {
			for lane := 0; lane < L; lane++ {
				for j := 0; j < Q+1; j++ {
					push(newTask(false), lane)
				}
			}
			waitUntil(2*time.Second, func() bool { return tl.Status().PendingTask == L*(Q+1) })
		}
		if base == "producers-blocked" {
			perLane := 1 + rng.Intn(3) // up to three producers stuck on the same full lane
			for lane := 0; lane < L; lane++ {
				for k := 0; k < perLane; k++ {
					bg.Add(1)
					t := newTask(false)
					go func(lane int) { defer bg.Done(); push(t, lane) }(lane)
				}
			}
			time.Sleep(2 * time.Millisecond)
		}
	}
	// arm the hook and provoke activity that reaches the point
	armed.Store(true)
	bg.Add(1)
	go func() {
		defer bg.Done()
		switch base {
		case "idle":
			push(newTask(false), rng.Intn(L))
			push(newTask(false), rng.Intn(L))
		default:
			// freeing the workers makes queue goroutines and workers move through every point
			doRelease()
			push(newTask(false), rng.Intn(L))
		}
	}()
	reached := false
	select {
	case <-hit:
		reached = true
	case <-time.After(300 * time.Millisecond):
	}
	// cancel while a goroutine is held at the point (or, if the point was not reached in this base
	// state, cancel anyway: still a valid schedule)
	fire()
	if ctxKind == "deadline" {
		waitUntil(time.Second, func() bool { return ctx.Err() != nil })
	}
	blockedReleased := true
	if base == "producers-blocked" && !reached {
		// producers blocked in PushTask must be released by the cancellation alone
		doneCh := make(chan struct{})
		go func() { bg.Wait(); close(doneCh) }()
		select {
		case <-doneCh:
		case <-time.After(tlDeadline):
			blockedReleased = false
		}
	}
	close(resume)
	doRelease()
	bgDone := make(chan struct{})
	go func() { bg.Wait(); close(bgDone) }()
	select {
	case <-bgDone:
	case <-time.After(tlDeadline):
		blockedReleased = false
	}
	if !blockedReleased {
		s.Violate("blocked-producer-not-released", "a producer blocked in PushTask did not return after the context was cancelled", sc)
	}
	mu.Lock()
	ps := append([]tlPush{}, pushes...)
	mu.Unlock()
	tlFinalChecks(s, sc, tl, r, ps, ctx)
	s.Evaluations++
	s.Count("cancel-at." + point + "." + base + "." + ctxKind + fmt.Sprintf(".reached=%v", reached))
	s.Nontrivial(fmt.Sprintf("cancel/%d/%d/%s/%s/%s/%v", L, Q, point, base, ctxKind, reached))
	s.Sample(sc)
}

// expiringContext: a context whose deadline passes when expire() is called (Err = DeadlineExceeded).
type expiringContext struct {
	context.Context
	mu   sync.Mutex
	done chan struct{}
	err  error
}

func newExpiringContext(parent context.Context) *expiringContext {
	c := &expiringContext{Context: parent, done: make(chan struct{})}
	go func() {
		select {
		case <-parent.Done():
			c.mu.Lock()
			if c.err == nil {
				c.err = parent.Err()
				close(c.done)
			}
			c.mu.Unlock()
		case <-c.done:
		}
	}()
	return c
}
func (c *expiringContext) expire() {
	c.mu.Lock()
	if c.err == nil {
		c.err = context.DeadlineExceeded
		close(c.done)
	}
	c.mu.Unlock()
}
func (c *expiringContext) Done() <-chan struct{} { return c.done }
func (c *expiringContext) Err() error {
	c.mu.Lock()
	defer c.mu.Unlock()
	return c.err
}
func (c *expiringContext) Deadline() (time.Time, bool) { return time.Time{}, false }

// ---- scenario: Wait() right after New() on a live context (C07) ------------------------------------

// Wait must not return while the context is live, however early it is called: the 2L goroutines are
// counted before they are started. Run on one P so that the waiter is scheduled before the lane's
// goroutines had a chance to run.
func tlWaitEarly(s *Stream, L, Q int, oneP bool) {
	sc := tlScenario{Kind: "wait-early", L: L, Q: Q, Detail: fmt.Sprintf("oneP=%v", oneP)}
	if oneP {
		old := runtime.GOMAXPROCS(1)
		defer runtime.GOMAXPROCS(old)
	}
	ctx, cancel := context.WithCancel(context.Background())
	defer cancel()
	tl := tasklane.New(ctx, L, Q)
	r := newTLRun()
	returned := make(chan struct{})
	go func() { tl.Wait(); close(returned) }()
	select {
	case <-returned:
		s.Violate("wait-returned-on-live-context", "Wait() returned although the context is live and the lane's goroutines are running", sc)
	case <-time.After(15 * time.Millisecond):
	}
	// the lane must still work and shut down normally
	t := &tlTask{id: 1, r: r}
	err := tl.PushTask(t, 0)
	if err == nil && !waitUntil(tlDeadline, func() bool { return r.isStarted(1) }) {
		s.Violate("accepted-task-not-started", "task pushed after an early Wait() call never started", sc)
	}
	cancel()
	select {
	case <-returned:
	case <-time.After(tlDeadline):
		s.Violate("wait-does-not-return", "Wait() did not return after cancel", sc)
	}
	s.Evaluations++
	s.Nontrivial(fmt.Sprintf("wait-early/%d/%d/%v", L, Q, oneP))
}

// ---- scenario: a backlog held for a long time (C06) --------------------------------------------------

// tlLongHold: all workers pinned for `hold` while every lane is full (queue goroutines sit in their
// blocking hand-over with a task in hand, buffers full); after the release every accepted task must
// start exactly once. Anything time-driven in the hand-over path (polling, retries) gets time to act.
func tlLongHold(s *Stream, L, Q int, hold time.Duration) {
	sc := tlScenario{Kind: "long-hold", L: L, Q: Q, Detail: hold.String()}
	ctx, cancel := context.WithCancel(context.Background())
	defer cancel()
	tl := tasklane.New(ctx, L, Q)
	tl.SetTimeout(tlDeadline)
	r := newTLRun()
	release := make(chan struct{})
	var pushes []tlPush
	for i := 0; i < L; i++ {
		t := &tlTask{id: 9000 + i, r: r, block: release}
		pushes = append(pushes, tlPush{t.id, i, tl.PushTask(t, i)})
	}
	waitUntil(tlDeadline, func() bool { return r.startedCount() == L })
	k := 0
	for lane := 0; lane < L; lane++ {
		for j := 0; j < Q+1; j++ {
			t := &tlTask{id: lane*100 + j, r: r}
			err := tl.PushTask(t, lane)
			pushes = append(pushes, tlPush{t.id, lane, err})
			if err == nil {
				k++
			}
		}
	}
	time.Sleep(hold)
	close(release)
	if !waitUntil(tlDeadline, func() bool { _, fin, _, _ := r.snapshot(); return fin == k+L }) {
		starts, fin, _, _ := r.snapshot()
		var missing []int
		for _, p := range pushes {
			if p.err == nil && starts[p.id] == 0 {
				missing = append(missing, p.id)
			}
		}
		s.Violate("accepted-task-not-started", fmt.Sprintf("backlog held for %v: accepted=%d finished=%d, never started: %v", hold, k+L, fin, missing), sc)
	}
	if !waitUntil(2*time.Second, func() bool { return tl.Status().PendingTask == 0 }) {
		s.Violate("pending-not-exact", fmt.Sprintf("everything finished but PendingTask=%d", tl.Status().PendingTask), sc)
	}
	cancel()
	tlFinalChecks(s, sc, tl, r, pushes, ctx)
	s.Evaluations++
	s.Nontrivial(fmt.Sprintf("long-hold/%d/%d/%v", L, Q, hold))
}

// ---- scenario: tasks of unusual dynamic types (C06) ----------------------------------------------------------

// a task is whatever has a Start method: a func adapter, a struct value holding a slice (neither can be a map
// key), a value that carries its own - already finished - context. The lane only ever calls Start.
type tlFuncTask func()

func (f tlFuncTask) Start() { f() }

type tlBatchTask struct {
	ids  []int
	hits *atomic.Int32
}

func (b tlBatchTask) Start() { b.hits.Add(int32(len(b.ids))) }

type tlCtxTask struct {
	context.Context
	hits *atomic.Int32
}

func (c tlCtxTask) Start() { c.hits.Add(1) }

func tlOddTaskTypes(s *Stream, rng *Rng, L, Q int) {
	sc := tlScenario{Kind: "odd-task-types", L: L, Q: Q, Seed: rng.s}
	ctx, cancel := context.WithCancel(context.Background())
	defer cancel()
	tl := tasklane.New(ctx, L, Q)
	tl.SetTimeout(tlDeadline)
	dead, kill := context.WithCancel(context.Background())
	kill()
	var funcs, batch, own atomic.Int32
	wantFuncs, wantBatch, wantOwn := 0, 0, 0
	for i := 0; i < 12; i++ {
		lane := rng.Intn(L)
		switch i % 3 {
		case 0:
			if tl.PushTask(tlFuncTask(func() { funcs.Add(1) }), lane) == nil {
				wantFuncs++
			}
		case 1:
			if tl.PushTask(tlBatchTask{ids: []int{i, i + 1, i + 2}, hits: &batch}, lane) == nil {
				wantBatch += 3
			}
		default:
			if tl.PushTask(tlCtxTask{Context: dead, hits: &own}, lane) == nil {
				wantOwn++
			}
		}
	}
	ok := waitUntil(tlDeadline, func() bool {
		return int(funcs.Load()) == wantFuncs && int(batch.Load()) == wantBatch && int(own.Load()) == wantOwn
	})
	if !ok {
		sc.Detail = fmt.Sprintf("accepted: %d func tasks, %d slice-holding struct tasks, %d tasks carrying a finished context of their own; started: %d, %d, %d", wantFuncs, wantBatch/3, wantOwn, funcs.Load(), batch.Load()/3, own.Load())
		s.Violate("accepted-task-not-started", "tasks of unusual dynamic types were accepted but not all started exactly once: "+sc.Detail, sc)
	}
	cancel()
	tl.Wait()
	s.Evaluations++
	s.Nontrivial(fmt.Sprintf("odd-task-types/%d/%d", L, Q))
}

// ---- scenario: a lane with a long life (C06) -------------------------------------------------------------

// countTask counts its starts in a slot of a shared array (no lock: tens of thousands of tiny tasks).
type countTask struct {
	slot *atomic.Int32
}

func (t *countTask) Start() { t.slot.Add(1) }

// tlLongLife: producers push many tiny tasks (more than any per-worker or per-lane counter a lane might keep
// is likely to be sized for); every accepted task is started exactly once.
func tlLongLife(s *Stream, rng *Rng, L, Q, producers, perProducer int) {
	sc := tlScenario{Kind: "long-life", L: L, Q: Q, Seed: rng.s, NTasks: producers * perProducer,
		Detail: fmt.Sprintf("%d producers x %d tiny tasks", producers, perProducer)}
	ctx, cancel := context.WithCancel(context.Background())
	defer cancel()
	tl := tasklane.New(ctx, L, Q)
	tl.SetTimeout(tlDeadline)
	slots := make([]atomic.Int32, producers*perProducer)
	accepted := make([]bool, producers*perProducer)
	var wg sync.WaitGroup
	for p := 0; p < producers; p++ {
		wg.Add(1)
		go func(p int) {
			defer wg.Done()
			for i := 0; i < perProducer; i++ {
				id := p*perProducer + i
				lane := (p + i%3) % L
				accepted[id] = tl.PushTask(&countTask{&slots[id]}, lane) == nil
			}
		}(p)
	}
	done := make(chan struct{})
	go func() { wg.Wait(); close(done) }()
	select {
	case <-done:
	case <-time.After(90 * time.Second):
		s.Violate("push-does-not-return", "producers of tiny tasks did not finish within 90 s", sc)
		return
	}
	waitUntil(tlDeadline, func() bool { return tl.Status().PendingTask == 0 })
	time.Sleep(5 * time.Millisecond)
	var never, twice []int
	nAcc := 0
	for id := range slots {
		n := int(slots[id].Load())
		if accepted[id] {
			nAcc++
		}
		switch {
		case accepted[id] && n == 0:
			never = append(never, id)
		case n > 1:
			twice = append(twice, id)
		case !accepted[id] && n > 0:
			s.Violate("rejected-task-started", fmt.Sprintf("task %d was started although PushTask returned an error", id), sc)
		}
	}
	if len(never) > 0 {
		// give stragglers the full deadline before judging
		waitUntil(tlDeadline, func() bool {
			for _, id := range never {
				if slots[id].Load() == 0 {
					return false
				}
			}
			return true
		})
		var still []int
		for _, id := range never {
			if slots[id].Load() == 0 {
				still = append(still, id)
			}
		}
		if len(still) > 0 {
			s.Violate("accepted-task-not-started", fmt.Sprintf("%d of %d accepted tiny tasks were never started (context live, nothing running), first: task %d = push number %d of its producer", len(still), nAcc, still[0], still[0]%perProducer+1), sc)
		}
	}
	if len(twice) > 0 {
		s.Violate("started-twice", fmt.Sprintf("%d tasks were started more than once, first: task %d (%d starts)", len(twice), twice[0], slots[twice[0]].Load()), sc)
	}
	cancel()
	tl.Wait()
	s.Evaluations++
	s.Count(fmt.Sprintf("long-life.L%d.Q%d", L, Q))
	s.Nontrivial(fmt.Sprintf("long-life/%d/%d/%d", L, Q, producers))
}

// tlIdleThenPush: a lane whose workers have had nothing to do for a while takes the next task like any other.
func tlIdleThenPush(s *Stream, L, Q int, idle time.Duration) {
	sc := tlScenario{Kind: "idle-then-push", L: L, Q: Q, Detail: idle.String()}
	ctx, cancel := context.WithCancel(context.Background())
	defer cancel()
	tl := tasklane.New(ctx, L, Q)
	tl.SetTimeout(tlDeadline)
	r := newTLRun()
	var pushes []tlPush
	for i := 0; i < L; i++ {
		pushes = append(pushes, tlPush{i, i, tl.PushTask(&tlTask{id: i, r: r}, i)})
	}
	waitUntil(tlDeadline, func() bool { _, fin, _, _ := r.snapshot(); return fin == L })
	time.Sleep(idle)
	for i := 0; i < L; i++ {
		pushes = append(pushes, tlPush{100 + i, i, tl.PushTask(&tlTask{id: 100 + i, r: r}, i)})
	}
	if !waitUntil(tlDeadline, func() bool { _, fin, _, _ := r.snapshot(); return fin == 2*L }) {
		_, fin, _, _ := r.snapshot()
		s.Violate("accepted-task-not-started", fmt.Sprintf("after %v without work, %d of %d newly accepted tasks were not started", idle, 2*L-fin, L), sc)
	}
	cancel()
	tlFinalChecks(s, sc, tl, r, pushes, ctx)
	s.Evaluations++
	s.Nontrivial(fmt.Sprintf("idle-then-push/%d/%d/%v", L, Q, idle))
}

// ---- scenario: odd lifetimes (C07) -----------------------------------------------------------------

// tlOddLifetimes: (a) a lane built on an already cancelled / expired context: PushTask returns the
// context error, nothing starts, Wait returns; (b) PushTask on the same goroutine right after
// cancel() returned must already see the cancellation; (c) a task that ends its goroutine with
// runtime.Goexit (t.FailNow inside a task): after cancel Wait still returns (wg.Done is deferred).
func tlOddLifetimes(s *Stream, rng *Rng, L, Q int) {
	// (a)
	{
		sc := tlScenario{Kind: "dead-context", L: L, Q: Q}
		ctx, cancel := context.WithCancel(context.Background())
		cancel()
		tl := tasklane.New(ctx, L, Q)
		r := newTLRun()
		tlFinalChecks(s, sc, tl, r, nil, ctx)
		s.Evaluations++
		s.Nontrivial(fmt.Sprintf("dead-context/%d/%d", L, Q))
	}
	// (b)
	for rep := 0; rep < 20 && !tlEnough(s); rep++ {
		sc := tlScenario{Kind: "push-right-after-cancel", L: L, Q: Q}
		ctx, cancel := context.WithCancel(context.Background())
		tl := tasklane.New(ctx, L, Q)
		tl.SetTimeout(tlDeadline)
		r := newTLRun()
		if rep%2 == 0 {
			runtime.Gosched()
		}
		cancel()
		t := &tlTask{id: 1, r: r}
		err := tl.PushTask(t, rng.Intn(L))
		if err == nil || !errors.Is(err, context.Canceled) {
			s.Violate("push-after-cancel", fmt.Sprintf("PushTask called right after cancel() returned gave %v, want %v", err, context.Canceled), sc)
		}
		tlFinalChecks(s, sc, tl, r, []tlPush{{1, 0, err}}, ctx)
		s.Evaluations++
	}
	s.Nontrivial(fmt.Sprintf("push-right-after-cancel/%d/%d", L, Q))
	// (d) cancel lands mid-task: Wait returns once the started task has returned - not before
	{
		sc := tlScenario{Kind: "cancel-mid-task", L: L, Q: Q}
		ctx, cancel := context.WithCancel(context.Background())
		tl := tasklane.New(ctx, L, Q)
		tl.SetTimeout(tlDeadline)
		r := newTLRun()
		release := make(chan struct{})
		t := &tlTask{id: 1, r: r, block: release}
		err := tl.PushTask(t, rng.Intn(L))
		waitUntil(tlDeadline, func() bool { return r.isStarted(1) })
		cancel()
		returned := make(chan struct{})
		go func() { tl.Wait(); close(returned) }()
		select {
		case <-returned:
			s.Violate("wait-returned-while-task-running", "Wait() returned after cancel although a started task has not returned yet", sc)
		case <-time.After(25 * time.Millisecond):
		}
		close(release)
		tlFinalChecks(s, sc, tl, r, []tlPush{{1, 0, err}}, ctx)
		s.Evaluations++
		s.Nontrivial(fmt.Sprintf("cancel-mid-task/%d/%d", L, Q))
	}
	// (e) several goroutines call Wait() while tasks are still queued at cancel: all of them return
	{
		sc := tlScenario{Kind: "concurrent-wait", L: L, Q: Q}
		ctx, cancel := context.WithCancel(context.Background())
		tl := tasklane.New(ctx, L, Q)
		tl.SetTimeout(time.Millisecond)
		r := newTLRun()
		release := make(chan struct{})
		var pushes []tlPush
		for i := 0; i < L*(Q+2); i++ { // pin the workers, fill the lanes
			t := &tlTask{id: i, r: r, block: release}
			pushes = append(pushes, tlPush{i, i % L, tl.PushTask(t, i%L)})
		}
		cancel()
		close(release)
		var wwg sync.WaitGroup
		for w := 0; w < 4; w++ {
			wwg.Add(1)
			go func() { defer wwg.Done(); tl.Wait() }()
		}
		allBack := make(chan struct{})
		go func() { wwg.Wait(); close(allBack) }()
		select {
		case <-allBack:
		case <-time.After(tlDeadline):
			s.Violate("wait-does-not-return", "one of 4 concurrent Wait() callers did not return after cancel with no task running", sc)
		}
		tlFinalChecks(s, sc, tl, r, pushes, ctx)
		s.Evaluations++
		s.Nontrivial(fmt.Sprintf("concurrent-wait/%d/%d", L, Q))
	}
	// (f) a context cancelled with a custom cause: PushTask reports the context's Err(), not the cause
	{
		sc := tlScenario{Kind: "cancel-cause", L: L, Q: Q}
		ctx, cancel := context.WithCancelCause(context.Background())
		tl := tasklane.New(ctx, L, Q)
		tl.SetTimeout(tlDeadline)
		r := newTLRun()
		cancel(errors.New("operator pulled the plug"))
		tlFinalChecks(s, sc, tl, r, nil, ctx)
		s.Evaluations++
		s.Nontrivial(fmt.Sprintf("cancel-cause/%d/%d", L, Q))
	}
	// (g) a context WITH a deadline that is cancelled long before it: also after the original deadline
	// has passed the lane answers with the context's error (Canceled), not with a deadline error
	{
		sc := tlScenario{Kind: "deadline-context-cancelled-early", L: L, Q: Q}
		ctx, cancel := context.WithDeadline(context.Background(), time.Now().Add(40*time.Millisecond))
		tl := tasklane.New(ctx, L, Q)
		tl.SetTimeout(tlDeadline)
		r := newTLRun()
		err := tl.PushTask(&tlTask{id: 1, r: r}, 0)
		waitUntil(25*time.Millisecond, func() bool { _, fin, _, _ := r.snapshot(); return fin == 1 || err != nil })
		cancel()
		time.Sleep(50 * time.Millisecond) // the original deadline is in the past now
		tlFinalChecks(s, sc, tl, r, []tlPush{{1, 0, err}}, ctx)
		s.Evaluations++
		s.Nontrivial(fmt.Sprintf("deadline-cancelled-early/%d/%d", L, Q))
	}
	tlPanicAfterCancel(s, rng, L, Q)
	// (i) a lane that has recovered many panics (nobody ever asked about them) shuts down like any other
	if Q == 1 {
		sc := tlScenario{Kind: "many-panics-then-cancel", L: L, Q: Q}
		ctx, cancel := context.WithCancel(context.Background())
		tl := tasklane.New(ctx, L, Q)
		tl.SetTimeout(tlDeadline)
		r := newTLRun()
		var pushes []tlPush
		for i := 0; i < 60; i++ {
			t := &tlTask{id: i, r: r, pv: fmt.Sprintf("panic %d", i)}
			pushes = append(pushes, tlPush{i, i % L, tl.PushTask(t, i%L)})
			if i%8 == 7 {
				waitUntil(tlDeadline, func() bool { _, fin, _, _ := r.snapshot(); return fin >= i-L })
			}
		}
		waitUntil(3*time.Second, func() bool { _, fin, _, _ := r.snapshot(); return fin == 60 })
		cancel()
		tlFinalChecks(s, sc, tl, r, pushes, ctx)
		s.Evaluations++
		s.Nontrivial(fmt.Sprintf("many-panics-then-cancel/%d", L))
	}
	// (c)
	{
		sc := tlScenario{Kind: "goexit-task", L: L, Q: Q}
		ctx, cancel := context.WithCancel(context.Background())
		tl := tasklane.New(ctx, L, Q)
		tl.SetTimeout(tlDeadline)
		r := newTLRun()
		t := &tlTask{id: 1, r: r, exit: true}
		err := tl.PushTask(t, 0)
		waitUntil(tlDeadline, func() bool { _, fin, _, _ := r.snapshot(); return fin == 1 })
		cancel()
		tlFinalChecks(s, sc, tl, r, []tlPush{{1, 0, err}}, ctx)
		s.Evaluations++
		s.Nontrivial(fmt.Sprintf("goexit-task/%d/%d", L, Q))
	}
}

// ---- scenario: every lane stuck in the hand-over, then ONE worker becomes idle (C08) --------------

// All L workers are occupied by long tasks; one short task is pushed to every lane, so every queue
// goroutine holds its head task in the hand-over at the same time. Then exactly one long task is
// released: the single idle worker must work off the heads of ALL lanes, whichever worker it is.
func tlStuckLanes(s *Stream, rng *Rng, L, Q int) {
	sc := tlScenario{Kind: "stuck-lanes", L: L, Q: Q, Seed: rng.s}
	ctx, cancel := context.WithCancel(context.Background())
	defer cancel()
	tl := tasklane.New(ctx, L, Q)
	tl.SetTimeout(tlDeadline)
	r := newTLRun()
	var pushes []tlPush
	rel := make([]chan struct{}, L)
	for i := 0; i < L; i++ {
		rel[i] = make(chan struct{})
		t := &tlTask{id: 9000 + i, r: r, block: rel[i]}
		pushes = append(pushes, tlPush{t.id, i, tl.PushTask(t, i)})
	}
	if !waitUntil(tlDeadline, func() bool { return r.startedCount() == L }) {
		s.Violate("accepted-task-not-started", fmt.Sprintf("only %d of %d long tasks started with all workers idle", r.startedCount(), L), sc)
	}
	perLane := 1 + rng.Intn(Q+1)
	m := 0
	for k := 0; k < perLane; k++ {
		for lane := 0; lane < L; lane++ {
			t := &tlTask{id: m, r: r}
			pushes = append(pushes, tlPush{m, lane, tl.PushTask(t, lane)})
			m++
		}
	}
	time.Sleep(time.Duration(1+rng.Intn(3)) * time.Millisecond) // let every queue goroutine reach the hand-over
	freed := rng.Intn(L)
	close(rel[freed])
	sc.NTasks = m
	sc.Detail = fmt.Sprintf("all %d workers busy, %d short task(s) at every lane, then the long task pushed to lane %d returns", L, perLane, freed)
	ok := waitUntil(tlDeadline, func() bool {
		_, fin, _, _ := r.snapshot()
		return fin == m+1
	})
	if !ok {
		_, fin, _, _ := r.snapshot()
		s.Violate("head-of-line-blocking", fmt.Sprintf("only %d of %d short tasks completed although one worker has been idle for %v (%s)", fin-1, m, tlDeadline, sc.Detail), sc)
	}
	for i := range rel {
		if i != freed {
			close(rel[i])
		}
	}
	waitUntil(tlDeadline, func() bool { _, fin, _, _ := r.snapshot(); return fin == m+L })
	cancel()
	tlFinalChecks(s, sc, tl, r, pushes, ctx)
	s.Evaluations++
	s.Count(fmt.Sprintf("stuck-lanes.L%d.Q%d", L, Q))
	s.Nontrivial(fmt.Sprintf("stuck-lanes/%d/%d/%d/%d", L, Q, perLane, freed))
}

// ---- scenario: many lanes, everything pushed to one of them (C08) ------------------------------------------

// tlWide: L lanes (16..32); L long tasks all pushed to lane 0 must all run at the same time, which takes every
// worker of every lane listening for shared work - however the goroutines were scheduled while the lane was built.
func tlWide(s *Stream, rng *Rng, L int) {
	sc := tlScenario{Kind: "wide-lane", L: L, Q: 1, Seed: rng.s}
	ctx, cancel := context.WithCancel(context.Background())
	defer cancel()
	tl := tasklane.New(ctx, L, 1)
	tl.SetTimeout(tlDeadline)
	r := newTLRun()
	var pushes []tlPush
	hold := make(chan struct{})
	for i := 0; i < L; i++ {
		t := &tlTask{id: i, r: r, block: hold}
		pushes = append(pushes, tlPush{i, 0, tl.PushTask(t, 0)})
	}
	if !waitUntil(tlDeadline, func() bool { return r.startedCount() == L }) {
		sc.Detail = fmt.Sprintf("%d long tasks pushed to lane 0 of a fresh %d-lane TaskLane: only %d run at the same time", L, L, r.startedCount())
		s.Violate("head-of-line-blocking", sc.Detail, sc)
	}
	close(hold)
	waitUntil(tlDeadline, func() bool { _, fin, _, _ := r.snapshot(); return fin == L })
	cancel()
	tlFinalChecks(s, sc, tl, r, pushes, ctx)
	s.Evaluations++
	s.Nontrivial(fmt.Sprintf("wide/%d", L))
}

// ---- scenario: a long task at the head of a lane with short ones behind it (C08) -------------------

// All workers busy; lane t receives a long task X and then short tasks. One worker is freed and takes X;
// a second worker is freed afterwards: it has nothing else to do and must run the short tasks of lane t
// although X is still running (whichever worker X ended up on).
func tlBacklog(s *Stream, rng *Rng, L, Q int) {
	sc := tlScenario{Kind: "backlog-behind-long-task", L: L, Q: Q, Seed: rng.s}
	ctx, cancel := context.WithCancel(context.Background())
	defer cancel()
	tl := tasklane.New(ctx, L, Q)
	tl.SetTimeout(tlDeadline)
	if rng.Intn(2) == 0 {
		tl.SetTimeout(time.Hour) // the push timeout has no bearing on how tasks are shared out
		sc.Detail = "push timeout 1h; "
	}
	r := newTLRun()
	var pushes []tlPush
	target := rng.Intn(L)
	warm := 0
	if rng.Intn(2) == 0 {
		// the lane has a history: a trickle of tiny tasks on the target lane, each taken by its own worker at once
		warm = 20 + rng.Intn(60)
		for i := 0; i < warm; i++ {
			t := &tlTask{id: 5000 + i, r: r}
			pushes = append(pushes, tlPush{t.id, target, tl.PushTask(t, target)})
			waitUntil(tlDeadline, func() bool { _, fin, _, _ := r.snapshot(); return fin == i+1 })
		}
		sc.Detail += fmt.Sprintf("after a trickle of %d tiny tasks on lane %d; ", warm, target)
	}
	rel := make([]chan struct{}, L)
	for i := 0; i < L; i++ {
		rel[i] = make(chan struct{})
		t := &tlTask{id: 9000 + i, r: r, block: rel[i]}
		pushes = append(pushes, tlPush{t.id, i, tl.PushTask(t, i)})
	}
	if !waitUntil(tlDeadline, func() bool { return r.startedCount() == L+warm }) {
		s.Violate("accepted-task-not-started", fmt.Sprintf("only %d of %d long tasks started with all workers idle", r.startedCount()-warm, L), sc)
		return
	}
	relX := make(chan struct{})
	x := &tlTask{id: 8000, r: r, block: relX}
	pushes = append(pushes, tlPush{x.id, target, tl.PushTask(x, target)})
	m := Q
	for i := 0; i < m; i++ {
		t := &tlTask{id: i, r: r}
		pushes = append(pushes, tlPush{i, target, tl.PushTask(t, target)})
	}
	first := rng.Intn(L)
	second := (first + 1 + rng.Intn(L-1)) % L
	close(rel[first])
	if !waitUntil(tlDeadline, func() bool { return r.isStarted(8000) }) {
		s.Violate("head-of-line-blocking", fmt.Sprintf("the long task at the head of lane %d did not start although a worker has been idle for %v", target, tlDeadline), sc)
	}
	close(rel[second])
	sc.NTasks = m
	sc.Detail += fmt.Sprintf("all %d workers busy; lane %d gets a long task and %d short ones; the task pushed to lane %d returns (a worker takes the long task), then the one pushed to lane %d", L, target, m, first, second)
	ok := waitUntil(tlDeadline, func() bool {
		starts, _, _, _ := r.snapshot()
		for i := 0; i < m; i++ {
			if starts[i] == 0 {
				return false
			}
		}
		return true
	})
	if !ok {
		s.Violate("head-of-line-blocking", fmt.Sprintf("short tasks queued behind a long-running task did not start within %v although another worker is idle (%s)", tlDeadline, sc.Detail), sc)
	}
	close(relX)
	for i := range rel {
		if i != first && i != second {
			close(rel[i])
		}
	}
	waitUntil(tlDeadline, func() bool { _, fin, _, _ := r.snapshot(); return fin == m+L+1+warm })
	cancel()
	tlFinalChecks(s, sc, tl, r, pushes, ctx)
	s.Evaluations++
	s.Count(fmt.Sprintf("backlog.L%d.Q%d", L, Q))
	s.Nontrivial(fmt.Sprintf("backlog/%d/%d/%d/%d/%d", L, Q, target, first, second))
}

// ---- scenario: a worker that has recovered many panics is as available as any other (C08/C14) -------

func tlAfterPanics(s *Stream, rng *Rng, L int) {
	sc := tlScenario{Kind: "after-many-panics", L: L, Q: 1, Seed: rng.s}
	ctx, cancel := context.WithCancel(context.Background())
	defer cancel()
	tl := tasklane.New(ctx, L, 1)
	tl.SetTimeout(tlDeadline)
	r := newTLRun()
	var pushes []tlPush
	release := make(chan struct{})
	for i := 0; i < L-1; i++ { // all workers but one are occupied for the whole scenario
		t := &tlTask{id: 9000 + i, r: r, block: release}
		pushes = append(pushes, tlPush{t.id, i, tl.PushTask(t, i)})
	}
	waitUntil(tlDeadline, func() bool { return r.startedCount() == L-1 })
	const limit = 3 * time.Second
	n := 42
	for i := 0; i < n; i++ {
		t := &tlTask{id: i, r: r}
		if i < n-2 {
			t.pv = fmt.Sprintf("panic %d", i)
		}
		t0 := time.Now()
		pushes = append(pushes, tlPush{i, i % L, tl.PushTask(t, i%L)})
		if !waitUntil(limit, func() bool { return r.isStarted(i) }) {
			sc.Detail = fmt.Sprintf("%d of %d workers occupied; after %d recovered panics the next task (pushed to lane %d) was not started within %v", L-1, L, i, i%L, time.Since(t0).Round(time.Millisecond))
			s.Violate("head-of-line-blocking", "a task at the head of a lane was not started although a worker has nothing to do: "+sc.Detail, sc)
			break
		}
		waitUntil(tlDeadline, func() bool { _, fin, _, _ := r.snapshot(); return fin >= i+1 })
	}
	close(release)
	waitUntil(tlDeadline, func() bool { return tl.Status().PendingTask == 0 })
	if !tlEnough(s) {
		// panics on every lane at the same instant, several rounds; afterwards every one of the L workers is still
		// there: L blocking tasks all run at the same time
		const rounds = 400
		for round := 0; round < rounds; round++ {
			gate := make(chan struct{})
			for lane := 0; lane < L; lane++ {
				t := &tlTask{id: 10000 + round*10 + lane, r: r, block: gate, pv: fmt.Sprintf("round %d lane %d", round, lane)}
				pushes = append(pushes, tlPush{t.id, lane, tl.PushTask(t, lane)})
			}
			allStarted := waitUntil(tlDeadline, func() bool {
				for lane := 0; lane < L; lane++ {
					if !r.isStarted(10000 + round*10 + lane) {
						return false
					}
				}
				return true
			})
			close(gate)
			if !allStarted {
				sc.Detail = fmt.Sprintf("after %d recovered panics (%d rounds of panics raised on all %d lanes at the same instant): %d tasks, one per lane, do not all run at the same time - a worker is gone", n-2+round*L, round, L, L)
				s.Violate("head-of-line-blocking", sc.Detail, sc)
				break
			}
			waitUntil(tlDeadline, func() bool { _, _, _, _ = r.snapshot(); return tl.Status().PendingTask == 0 && r.runningNow() == 0 })
		}
		hold := make(chan struct{})
		for lane := 0; lane < L && !tlEnough(s); lane++ {
			t := &tlTask{id: 2000 + lane, r: r, block: hold}
			pushes = append(pushes, tlPush{t.id, lane, tl.PushTask(t, lane)})
		}
		all := waitUntil(tlDeadline, func() bool {
			for lane := 0; lane < L; lane++ {
				if !r.isStarted(2000 + lane) {
					return false
				}
			}
			return true
		})
		if !all && !tlEnough(s) {
			sc.Detail = fmt.Sprintf("after %d recovered panics (the last %d raised on all lanes at the same instant), %d long tasks - one per lane - do not all run at the same time: a worker is gone", n-2+rounds*L, rounds*L, L)
			s.Violate("head-of-line-blocking", sc.Detail, sc)
		}
		close(hold)
		waitUntil(tlDeadline, func() bool { return r.runningNow() == 0 })
	}
	cancel()
	tlFinalChecks(s, sc, tl, r, pushes, ctx)
	s.Evaluations++
	s.Nontrivial(fmt.Sprintf("after-panics/%d", L))
}

func (r *tlRun) runningNow() int {
	r.mu.Lock()
	defer r.mu.Unlock()
	return r.running
}

// tlPanicAfterCancel: a task that is still running when the context is cancelled panics afterwards: it is a
// panic that occurred, contained like any other, and the only candidate for LastPanic.
func tlPanicAfterCancel(s *Stream, rng *Rng, L, Q int) {
	sc := tlScenario{Kind: "panic-after-cancel", L: L, Q: Q}
	ctx, cancel := context.WithCancel(context.Background())
	tl := tasklane.New(ctx, L, Q)
	tl.SetTimeout(tlDeadline)
	r := newTLRun()
	release := make(chan struct{})
	pv := tlPanicValue(rng, 77)
	t := &tlTask{id: 1, r: r, block: release, pv: pv}
	err := tl.PushTask(t, 0)
	waitUntil(tlDeadline, func() bool { return r.isStarted(1) })
	cancel()
	time.Sleep(time.Millisecond)
	close(release)
	tlFinalChecks(s, sc, tl, r, []tlPush{{1, 0, err}}, ctx)
	if err == nil {
		ok := waitUntil(2*time.Second, func() bool { return reflect.DeepEqual(tl.Status().LastPanic, pv) })
		if !ok {
			s.Violate("last-panic", fmt.Sprintf("a task running at cancel time panicked with %#v afterwards (the only panic of this lane); LastPanic = %#v", pv, tl.Status().LastPanic), sc)
		}
	}
	s.Evaluations++
	s.Nontrivial(fmt.Sprintf("panic-after-cancel/%d/%d", L, Q))
}

// ---- scenario: many goroutines enter Wait() at the same moment, round after round (C07) ----------

func tlManyWaiters(s *Stream, rng *Rng, L, Q, rounds int) {
	sc := tlScenario{Kind: "many-waiters", L: L, Q: Q, Seed: rng.s}
	for round := 0; round < rounds; round++ {
		ctx, cancel := context.WithCancel(context.Background())
		tl := tasklane.New(ctx, L, Q)
		tl.SetTimeout(time.Millisecond)
		r := newTLRun()
		release := make(chan struct{})
		var pushes []tlPush
		n := L * (Q + 2)
		if round%3 == 1 {
			n = L + 1 + rng.Intn(L*(Q+1)) // partly filled queues
		}
		for i := 0; i < n; i++ {
			t := &tlTask{id: i, r: r, block: release}
			pushes = append(pushes, tlPush{i, i % L, tl.PushTask(t, i%L)})
		}
		nw := 2 + rng.Intn(6)
		start := make(chan struct{})
		// producers that keep trying while the lane shuts down (they only ever get the context error back)
		stopProd := make(chan struct{})
		var pwg sync.WaitGroup
		if round%2 == 0 {
			for p := 0; p < 2; p++ {
				pwg.Add(1)
				go func(p int) {
					defer pwg.Done()
					<-start
					for i := 0; ; i++ {
						select {
						case <-stopProd:
							return
						default:
						}
						tl.PushTask(&tlTask{id: 100000 + p*10000 + i%10000, r: r}, i%L)
					}
				}(p)
			}
		}
		var wwg sync.WaitGroup
		for w := 0; w < nw; w++ {
			wwg.Add(1)
			go func() { defer wwg.Done(); <-start; tl.Wait() }()
		}
		cancel()
		close(release)
		close(start)
		allBack := make(chan struct{})
		go func() { wwg.Wait(); close(allBack) }()
		select {
		case <-allBack:
			close(stopProd)
			pwg.Wait()
		case <-time.After(tlDeadline):
			close(stopProd)
			sc.Detail = fmt.Sprintf("round %d: %d tasks pushed, %d concurrent Wait() callers, producers still calling PushTask: %v", round, n, nw, round%2 == 0)
			s.Violate("wait-does-not-return", "one of several concurrent Wait() callers did not return after cancel although every started task has returned ("+sc.Detail+")", sc)
			return
		}
		tlFinalChecks(s, sc, tl, r, pushes, ctx)
		s.Evaluations++
		if tlEnough(s) {
			return
		}
	}
	s.Count(fmt.Sprintf("many-waiters.L%d.Q%d", L, Q))
	s.Nontrivial(fmt.Sprintf("many-waiters/%d/%d", L, Q))
}

// ---- driver -----------------------------------------------------------------------------------------

// tlEnough: once a few violations are recorded there is no point in running the remaining
// scenarios (each failing scenario may sit in a watchdog for seconds).
func tlEnough(s *Stream) bool {
	s.mu.Lock()
	defer s.mu.Unlock()
	return len(s.Violations) >= 3
}

func runTL(cfg Cfg, name string) {
	s := NewStream(cfg.Out, name)
	defer s.Close()
	defer tlRecheckOldRuns(s)
	rng := NewRng(cfg.Seed)
	maxL, maxQ := cfg.N(3, 4), cfg.N(2, 3)
	switch name {
	case "tl_exact":
		s.Rule = "random stress: lanes 1..4 x queue 0..3, 3 producers pushing to arbitrary lanes with timeouts from 0, random task durations, panicking tasks, with and without cancellation after a random number of pushes; a lane idle for 2.2 s; one and four producers pushing 40 000 / 4 x 30 000 tiny tasks (thorough: 150 000 each); oracle: every accepted task started exactly once when the context stays live, no rejected task started, never twice; non-trivial = a run in which at least one task was accepted (distinct by configuration and outcome counts)"
		for i := 0; i < cfg.N(120, 1500); i++ {
			if tlEnough(s) {
				break
			}
			tlStress(s, rng.Fork(), i%2 == 1, false)
		}
		tlLongHold(s, 2, 1, 1300*time.Millisecond)
		tlIdleThenPush(s, 2, 1, 2200*time.Millisecond)
		for L := 1; L <= 3; L++ {
			tlOddTaskTypes(s, rng.Fork(), L, L%2)
		}
		tlLongLife(s, rng.Fork(), 1, 2, 1, cfg.N(40000, 150000))
		tlLongLife(s, rng.Fork(), 4, 1, 4, cfg.N(30000, 150000))
		if cfg.Thorough() {
			tlLongHold(s, 3, 0, 2500*time.Millisecond)
			tlLongHold(s, 1, 2, 5500*time.Millisecond)
		}
	case "tl_status":
		s.Rule = "stress with many panicking tasks of different dynamic types and a concurrent Status() poller (bounds, LastPanic membership); stable states with all workers pinned and k tasks queued compared exactly; non-trivial = distinct (L,Q,k) stable states and distinct stress outcomes"
		for i := 0; i < cfg.N(60, 600); i++ {
			if tlEnough(s) {
				break
			}
			tlStress(s, rng.Fork(), i%3 == 2, true)
		}
		for rep := 0; rep < cfg.N(2, 10); rep++ {
			for L := 1; L <= maxL; L++ {
				for Q := 0; Q <= maxQ; Q++ {
					if tlEnough(s) {
						break
					}
					tlExactPending(s, rng.Fork(), L, Q)
					tlPanicAfterCancel(s, rng.Fork(), L, Q)
				}
			}
		}
		// "its worker keeps serving": after dozens of recovered panics the next task starts as promptly as ever
		for L := 2; L <= 3 && !tlEnough(s); L++ {
			tlAfterPanics(s, rng.Fork(), L)
		}
	case "tl_share":
		s.Rule = "for laneSize 2..4, queueSize 0..3 and every number 1..laneSize-1 of pinned workers: short tasks all pushed to one lane must complete while the pinned workers stay blocked; all workers busy with a short task at the head of every lane, then one worker freed: every head completes; a long task with short ones behind it in one lane, two workers freed one after the other; a task pushed after 1..16 recovered panics starts within 3 s; max concurrency <= laneSize on every run; non-trivial = distinct (L,Q,pinned,target lane,tasks)"
		for rep := 0; rep < cfg.N(3, 25); rep++ {
			for L := 2; L <= maxL+1 && L <= 4; L++ {
				for Q := 0; Q <= maxQ; Q++ {
					for b := 1; b < L; b++ {
						if tlEnough(s) {
							break
						}
						tlPinned(s, rng.Fork(), L, Q, b)
					}
				}
			}
		}
		for rep := 0; rep < cfg.N(2, 12); rep++ {
			for L := 2; L <= 4; L++ {
				for Q := 0; Q <= maxQ; Q++ {
					if tlEnough(s) {
						break
					}
					tlStuckLanes(s, rng.Fork(), L, Q)
					if Q >= 1 {
						tlBacklog(s, rng.Fork(), L, Q)
					}
				}
			}
		}
		for L := 2; L <= 4 && !tlEnough(s); L++ {
			tlAfterPanics(s, rng.Fork(), L)
		}
		for i := 0; i < cfg.N(6, 40) && !tlEnough(s); i++ {
			tlWide(s, rng.Fork(), 16+rng.Intn(17))
		}
		for i := 0; i < cfg.N(40, 400); i++ {
			if tlEnough(s) {
				break
			}
			tlStress(s, rng.Fork(), false, false)
		}
	case "tl_cancel":
		s.Rule = "cancellation (cancel func or expiring deadline) landing while a goroutine is held at each protocol point (q.took, q.counted, q.blocking, q.handed, w.got, p.enter, p.inner) in each base state (idle, queues full, producers blocked, workers mid-task), lanes 1..3 x queue 0..2; plus 2..7 goroutines entering Wait() at the same moment with (partly) full queues, round after round; oracle: Wait returns, no goroutine left, PushTask after cancel returns the context error, blocked producers released, nothing started twice or after Wait; non-trivial = distinct (L,Q,point,base,ctx kind,point reached)"
		kinds := []string{"cancel", "deadline"}
		for rep := 0; rep < cfg.N(4, 20); rep++ {
			for L := 1; L <= maxL; L++ {
				if tlEnough(s) {
					break
				}
				tlWaitEarly(s, L, rep%3, rep%2 == 0)
			}
		}
		for L := 1; L <= maxL; L++ {
			for Q := 0; Q <= maxQ; Q++ {
				if tlEnough(s) {
					break
				}
				tlOddLifetimes(s, rng.Fork(), L, Q)
			}
		}
		for L := 1; L <= 4; L += 3 {
			for _, Q := range []int{1, 8} {
				if tlEnough(s) {
					break
				}
				tlManyWaiters(s, rng.Fork(), L, Q, cfg.N(60, 500))
			}
		}
		for rep := 0; rep < cfg.N(1, 6); rep++ {
			for L := 1; L <= maxL; L++ {
				for Q := 0; Q <= maxQ; Q++ {
					for _, pt := range tlPoints {
						for _, b := range tlBases {
							if !cfg.Thorough() && (L+Q+len(pt)+len(b)+rep)%2 == 1 {
								continue // quick tier: half of the matrix, alternating with the seed-independent parity
							}
							if tlEnough(s) {
								break
							}
							tlCancelAt(s, rng.Fork(), L, Q, pt, b, kinds[(L+Q+len(pt)+len(b)+rep)/2%2])
						}
					}
				}
			}
		}
		for i := 0; i < cfg.N(40, 400); i++ {
			if tlEnough(s) {
				break
			}
			tlStress(s, rng.Fork(), true, false)
		}
	}
	s.Traces = s.Evaluations
}
