package main

// ddmin: delta-debugging minimisation of a failing sequence. fails(seq) must be deterministic.
func ddmin[T any](seq []T, fails func([]T) bool) []T {
	if !fails(seq) {
		return seq
	}
	n := 2
	for len(seq) >= 2 {
		chunk := (len(seq) + n - 1) / n
		reduced := false
		for start := 0; start < len(seq); start += chunk {
			end := start + chunk
			if end > len(seq) {
				end = len(seq)
			}
			cand := append(append([]T{}, seq[:start]...), seq[end:]...)
			if len(cand) > 0 && fails(cand) {
				seq = cand
				if n > 2 {
					n--
				}
				reduced = true
				break
			}
		}
		if !reduced {
			if n >= len(seq) {
				break
			}
			n *= 2
			if n > len(seq) {
				n = len(seq)
			}
		}
	}
	return seq
}
