package main

import (
	"runtime"
	"strings"
)

// Program counters whose frame file names contain characters that need quoting/escaping (space, '=',
// '"', backslash, tab, non-ASCII, a bare file name without directory). Code generators produce such
// names through //line directives; the log handlers print the last two path components as "source".

func oddPCs() []uintptr {
	return []uintptr{oddPC1(), oddPC2(), oddPC3(), oddPC4(), oddPC5(), oddPC6()}
}

// lastTwo is the documented meaning of the source field: the last two path components.
func lastTwo(file string) string {
	parts := strings.Split(file, "/")
	if len(parts) >= 2 {
		return parts[len(parts)-2] + "/" + parts[len(parts)-1]
	}
	return file
}

func pcHere() uintptr {
	var p [1]uintptr
	runtime.Callers(2, p[:])
	return p[0]
}

//line /gen/my project/svc=api.go:42
func oddPC1() uintptr { return pcHere() }

//line /gen/quo"te/back\slash.go:7
func oddPC2() uintptr { return pcHere() }

//line /gen/tab	dir/a b=c.go:1000000
func oddPC3() uintptr { return pcHere() }

//line /gen/ünï/côdé €.go:3
func oddPC4() uintptr { return pcHere() }

//line /deep/er/path/with space/x.go:12
func oddPC5() uintptr { return pcHere() }

//line /gen/level=ERROR msg=forged/k=v.go:9
func oddPC6() uintptr { return pcHere() }
