// Package trtest is the self-test corpus of the Go→Lean translator (tools/extract/golean.go).
//
// Every function has the same signature and is written to exercise one reading of Go that the
// translator has to get right (short-circuit evaluation next to a panicking operand, evaluation
// order, byte wrap-around, bounds checks, break/continue/return inside loops, range, switch, named
// results, threaded pointer parameters, truncating division, …). The stream `trself` runs each
// function of this file on generated inputs in Go (with recover) and runs its TRANSLATION in the
// Lean driver on the same inputs; the two answers, including the class of a run-time panic, must
// be equal. This tests the trusted translator itself, not a property of whoisnian/glb.
package trtest

// All is the dispatch table used by the harness.
var All = map[string]func(s, t string, n int, b bool) (string, int, bool){
	"ShortAnd": ShortAnd, "ShortOr": ShortOr, "EvalOrder": EvalOrder, "ByteWrap": ByteWrap,
	"LoopCtl": LoopCtl, "RangeIdx": RangeIdx, "SwitchTag": SwitchTag, "SwitchBare": SwitchBare,
	"SliceBounds": SliceBounds, "Nested": Nested, "Named": Named, "PtrParam": PtrParam,
	"Swap": Swap, "DivMod": DivMod, "StrOps": StrOps, "IfInit": IfInit, "Iota": Iota,
	"Bits": Bits, "Down": Down, "Appends": Appends, "RangeVal": RangeVal, "Store": Store, "Recur": Recur,
}

func ShortAnd(s, t string, n int, b bool) (string, int, bool) {
	if n < len(s) && s[n] == 'a' {
		return s, n, true
	}
	if b && t[n] == 'b' {
		return t, n, true
	}
	return "", 0, false
}

func ShortOr(s, t string, n int, b bool) (string, int, bool) {
	if len(s) == 0 || s[0] == 'a' || s[n] == 'b' {
		return "x", 1, b
	}
	return "y", 2, !b
}

func EvalOrder(s, t string, n int, b bool) (string, int, bool) {
	// the left operand's slice panic must win over the right operand's index panic
	k := len(t[n:]) + int(s[n])
	return s, k, b
}

func ByteWrap(s, t string, n int, b bool) (string, int, bool) {
	c := s[0]
	c -= 'a' - 'A'
	c += byte(n)
	d := c * 3
	return string([]byte{}), int(d), c < d
}

func LoopCtl(s, t string, n int, b bool) (string, int, bool) {
	var buf []byte
	cnt := 0
	for i := 0; i < len(s); i++ {
		if s[i] == 'a' {
			continue
		}
		if s[i] == 'b' && b {
			break
		}
		if s[i] == '/' && i == n {
			return string(buf), -1, true
		}
		buf = append(buf, s[i])
		cnt++
	}
	return string(buf), cnt, false
}

func RangeIdx(s, t string, n int, b bool) (string, int, bool) {
	bs := []byte(s)
	for i := range bs {
		if bs[i] == t[0] {
			return s[:i], i, true
		}
	}
	return s, len(bs), false
}

func SwitchTag(s, t string, n int, b bool) (string, int, bool) {
	switch n {
	case 0, 1:
		return "zero-one", n, b
	case 2:
		return s, len(s), b
	default:
		return t, len(t), !b
	}
}

func SwitchBare(s, t string, n int, b bool) (string, int, bool) {
	r := 0
	c := s[0]
	switch {
	case 'a' <= c && c <= 'z':
		r = 1
	case c == t[0]:
		r = 2
	case n > 2:
		r = 3
	}
	return "", r, r == 2
}

func SliceBounds(s, t string, n int, b bool) (string, int, bool) {
	x := s[n : len(s)-n]
	y := t[:n]
	return x + y, len(x), b
}

func Nested(s, t string, n int, b bool) (string, int, bool) {
	cnt := 0
	for i := 0; i < len(s); i++ {
		for j := 0; j < len(t); j++ {
			if s[i] == t[j] {
				cnt++
				if cnt > n {
					return s[i:], cnt, true
				}
				break
			}
		}
	}
	return "", cnt, false
}

func Named(s, t string, n int, b bool) (out string, k int, ok bool) {
	out = s
	if b {
		out = t
		k = n
	}
	if len(out) > 1 {
		out = out[1:]
		ok = true
	}
	return out, k + len(out), ok
}

func put(buf *[]byte, c byte) {
	*buf = append(*buf, c, c)
}

func PtrParam(s, t string, n int, b bool) (string, int, bool) {
	var acc []byte
	for i := 0; i < len(s); i++ {
		put(&acc, s[i])
	}
	if b {
		put(&acc, t[n])
	}
	return string(acc), len(acc), b
}

func Swap(s, t string, n int, b bool) (string, int, bool) {
	x, y := s, t
	if b {
		x, y = y, x
	}
	i, j := n, n+1
	i, j = j, i+j
	return x + "|" + y, i*10 + j, b
}

func DivMod(s, t string, n int, b bool) (string, int, bool) {
	q := n / 3
	r := n % 3
	m := (n - 7) / 2
	return "", q*100 + r*10 + m, (n-7)%2 == -1
}

func StrOps(s, t string, n int, b bool) (string, int, bool) {
	if s == t {
		return s + t, 0, true
	}
	if s != "" && t == "" {
		return s, 1, false
	}
	return t + "-" + s, 2, s == "a"
}

func IfInit(s, t string, n int, b bool) (string, int, bool) {
	if k := len(s); k > n {
		return s, k, true
	}
	if k := len(t); k > n {
		return t, k, true
	}
	return "", n, false
}

func Iota(s, t string, n int, b bool) (string, int, bool) {
	const (
		first = iota
		second
		third
	)
	st := first
	for i := 0; i < len(s); i++ {
		if s[i] == 'a' {
			st = second
		} else if st == second {
			st = third
		}
	}
	return "", st, st == third
}

func Bits(s, t string, n int, b bool) (string, int, bool) {
	c := s[0]
	hi := c >> 4
	lo := c & 0xF
	u := c | 0x20
	x := ^c
	return string([]byte{hi, lo, u, x}), int(hi)*16 + int(lo), u == c
}

func Down(s, t string, n int, b bool) (string, int, bool) {
	i := len(s) - 1
	for ; i >= 0; i-- {
		if s[i] == '/' {
			if b && i > 0 && s[i-1] == 'a' {
				return s[:i-1], i, true
			}
			return s[i+1:], i, false
		}
	}
	return s, i, false
}

func Appends(s, t string, n int, b bool) (string, int, bool) {
	var buf []byte
	buf = append(buf, s...)
	buf = append(buf, '-', byte(n))
	buf = append(buf, t[n:]...)
	return string(buf), len(buf), b
}

func RangeVal(s, t string, n int, b bool) (string, int, bool) {
	bs := []byte(s)
	sum := 0
	for _, c := range bs {
		if c == 'b' && b {
			break
		}
		sum += int(c)
	}
	return "", sum, sum > 200
}

func Store(s, t string, n int, b bool) (string, int, bool) {
	buf := []byte(s)
	for i := len(buf) - 1; i >= 0; i-- {
		buf[i] = buf[i] | 0x20
	}
	buf[n] = 'Z'
	return string(buf), n, b
}

func Recur(s, t string, n int, b bool) (string, int, bool) {
	if n <= 0 || len(s) == 0 {
		return t, 0, b
	}
	r, k, ok := Recur(s[1:], t, n-1, !b)
	return r + s[:1], k + 1, ok
}
