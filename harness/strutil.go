package main

// Stream "strutil" (C16): strutil.ShellEscape / ShellEscapeExceptTilde.
//
//  (a) correspondence: Go output vs the Lean model (`esc`/`esct` lines) on every string up to
//      length 4 (quick) / 5 (thorough) over the 15-byte shell alphabet, "~/"+t, random bytes;
//  (b) direct oracle "shell-word": the escaped text is handed to the real /bin/dash and /bin/bash
//      (`printf '%s\0' <w1> <w2> …`, ~2000 words per run, bisecting a failing batch) and argv must
//      be exactly the input (resp. $HOME + s[1:] for the tilde variant).  Independent of Lean.
//  (c) validation of the SPEC (Glb/Spec/PosixWords.lean): on generated command-line fragments
//      for which the Lean lexer claims special=false ∧ unterminated=false, its words must be the
//      argv that dash and bash produce ("lexer-spec").  Needs the compiled Lean driver.

import (
	"bytes"
	"encoding/hex"
	"fmt"
	"os"
	"os/exec"
	"path/filepath"
	"sort"
	"strconv"
	"strings"
	"sync"
	"time"

	"github.com/whoisnian/glb/util/strutil"
)

func init() { streams["strutil"] = runStrutil }

var shAlphabet = []byte{'\'', '"', '\\', '$', '`', ' ', '\n', ';', '&', '|', '*', '~', '!', '#', 'a'}

// allStrings calls f on every string over alpha of length 0..maxLen (shortlex order).
func allStrings(alpha []byte, maxLen int, f func([]byte)) {
	for n := 0; n <= maxLen; n++ {
		idx := make([]int, n)
		buf := make([]byte, n)
		for {
			for i, k := range idx {
				buf[i] = alpha[k]
			}
			f(append([]byte(nil), buf...))
			i := n - 1
			for ; i >= 0; i-- {
				idx[i]++
				if idx[i] < len(alpha) {
					break
				}
				idx[i] = 0
			}
			if i < 0 {
				break
			}
		}
	}
}

// ---- real shells ----------------------------------------------------------------------------

type shellEnv struct {
	dir  string // scratch directory: cwd of the shells, script files
	home string // $HOME handed to the shells
	bin  string // empty directory used as PATH: only builtins can run
	mu   sync.Mutex
	seq  int
	runs int
}

func newShellEnv(out string) *shellEnv {
	e := &shellEnv{dir: filepath.Join(out, "shell")}
	e.home = filepath.Join(e.dir, "verif-home")
	e.bin = filepath.Join(e.dir, "nobin")
	for _, d := range []string{filepath.Join(e.dir, "cwd"), e.home, e.bin} {
		if err := os.MkdirAll(d, 0o755); err != nil {
			fatal(err)
		}
	}
	return e
}

// runScript executes the script with the given shell and returns stdout and whether it exited 0.
func (e *shellEnv) runScript(shell string, script []byte) ([]byte, bool) {
	e.mu.Lock()
	e.seq++
	e.runs++
	name := filepath.Join(e.dir, fmt.Sprintf("s%06d.sh", e.seq))
	e.mu.Unlock()
	if err := os.WriteFile(name, script, 0o600); err != nil {
		fatal(err)
	}
	defer os.Remove(name)
	cmd := exec.Command(shell, name)
	cmd.Dir = filepath.Join(e.dir, "cwd")
	cmd.Env = []string{"HOME=" + e.home, "PATH=" + e.bin, "LC_ALL=C"}
	var stdout bytes.Buffer
	cmd.Stdout = &stdout
	if err := cmd.Start(); err != nil {
		fatal(fmt.Errorf("cannot start %s: %w", shell, err))
	}
	done := make(chan error, 1)
	go func() { done <- cmd.Wait() }()
	select {
	case err := <-done:
		return stdout.Bytes(), err == nil
	case <-time.After(60 * time.Second):
		cmd.Process.Kill()
		<-done
		return stdout.Bytes(), false
	}
}

type wordCase struct {
	idx    int
	input  []byte // the string handed to the Go function
	text   []byte // the escaped text (what the shell reads)
	expect []byte // the argv value the property promises
	fn     string
}

type wordFail struct {
	c     wordCase
	shell string
	got   string
}

// checkWords hands the escaped texts of cs to the shell as arguments of one printf and compares
// the NUL-separated argv with the expectation; a failing batch is bisected to single words.
func (e *shellEnv) checkWords(shell string, cs []wordCase, fails *[]wordFail, budget *int) {
	if len(cs) == 0 {
		return
	}
	var sc, want bytes.Buffer
	sc.WriteString("printf '%s\\0'")
	for _, c := range cs {
		sc.WriteByte(' ')
		sc.Write(c.text)
		want.Write(c.expect)
		want.WriteByte(0)
	}
	sc.WriteByte('\n')
	got, ok := e.runScript(shell, sc.Bytes())
	if ok && bytes.Equal(got, want.Bytes()) {
		return
	}
	if len(cs) == 1 {
		g := strconv.Quote(string(got))
		if len(g) > 300 {
			g = g[:300] + "…"
		}
		if !ok {
			g += " (shell exited non-zero)"
		}
		*fails = append(*fails, wordFail{cs[0], shell, g})
		*budget--
		return
	}
	if *budget <= 0 {
		return
	}
	mid := len(cs) / 2
	e.checkWords(shell, cs[:mid], fails, budget)
	if *budget > 0 {
		e.checkWords(shell, cs[mid:], fails, budget)
	}
}

// parallel runs f(batch index) on a small worker pool.
func parallel(n, workers int, f func(i int)) {
	var wg sync.WaitGroup
	ch := make(chan int)
	for w := 0; w < workers; w++ {
		wg.Add(1)
		go func() {
			defer wg.Done()
			for i := range ch {
				f(i)
			}
		}()
	}
	for i := 0; i < n; i++ {
		ch <- i
	}
	close(ch)
	wg.Wait()
}

// ---- calling the code under test ------------------------------------------------------------

func callEscape(f func(string) string, in string) (out string) {
	defer func() {
		if r := recover(); r != nil {
			// Go: "runtime error: slice bounds out of range [2:1]"  ->  model: panic:slice[2:1]len1
			msg := fmt.Sprint(r)
			var lo, hi int
			if i := strings.Index(msg, "["); i >= 0 {
				if _, err := fmt.Sscanf(msg[i:], "[%d:%d]", &lo, &hi); err == nil {
					out = fmt.Sprintf("panic:slice[%d:%d]len%d", lo, hi, hi)
					return
				}
			}
			out = "panic:" + msg
		}
	}()
	return f(in)
}

// ---- lexer spec vs shells -------------------------------------------------------------------

type lexCase struct {
	text  []byte
	model string   // driver answer
	words [][]byte // model words with `home` replaced by $HOME
}

func lexDriverPath() string {
	if p := os.Getenv("VERIF_DRIVER"); p != "" {
		return p
	}
	exe, err := os.Executable()
	if err != nil {
		return ""
	}
	return filepath.Join(filepath.Dir(exe), "..", "lean", ".lake", "build", "bin", "driver")
}

// parseLexLine parses "words=[w,…] special=b unterminated=b".
func parseLexLine(line, home string) (words [][]byte, special, unterminated, ok bool) {
	fs := strings.Fields(line)
	if len(fs) != 3 || !strings.HasPrefix(fs[0], "words=[") || !strings.HasSuffix(fs[0], "]") {
		return nil, false, false, false
	}
	special = fs[1] == "special=true"
	unterminated = fs[2] == "unterminated=true"
	body := fs[0][len("words=[") : len(fs[0])-1]
	if body == "" {
		return nil, special, unterminated, true
	}
	for _, w := range strings.Split(body, ",") {
		var b []byte
		if w != "-" {
			for i := 0; i < len(w); {
				if w[i] == '~' {
					b = append(b, home...)
					i++
					continue
				}
				if i+2 > len(w) {
					return nil, false, false, false
				}
				x, err := hex.DecodeString(w[i : i+2])
				if err != nil {
					return nil, false, false, false
				}
				b = append(b, x...)
				i += 2
			}
		}
		words = append(words, b)
	}
	return words, special, unterminated, true
}

func renderArgv(argv [][]byte, home string) string {
	ws := make([]string, len(argv))
	for i, a := range argv {
		switch {
		case len(a) == 0:
			ws[i] = "-"
		case bytes.HasPrefix(a, []byte(home)):
			ws[i] = "~" + hex.EncodeToString(a[len(home):])
		default:
			ws[i] = hex.EncodeToString(a)
		}
	}
	return "words=[" + strings.Join(ws, ",") + "] special=false unterminated=false"
}

// shellArgv lets the shell split each text (`set -- <text>`) and returns the argv per text, or
// ok=false when the output cannot be attributed to the texts one by one.
func (e *shellEnv) shellArgv(shell string, cs []lexCase) ([][][]byte, bool) {
	var sc bytes.Buffer
	for _, c := range cs {
		sc.WriteString("set -- ")
		sc.Write(c.text)
		sc.WriteString("\nprintf '%s\\0' \"$#\" \"$@\"\n")
	}
	got, ok := e.runScript(shell, sc.Bytes())
	if !ok || (len(got) > 0 && got[len(got)-1] != 0) {
		return nil, false
	}
	fields := bytes.Split(got, []byte{0})
	fields = fields[:len(fields)-1]
	res := make([][][]byte, 0, len(cs))
	for range cs {
		if len(fields) == 0 {
			return nil, false
		}
		n, err := strconv.Atoi(string(fields[0]))
		if err != nil || n < 0 || n > len(fields)-1 {
			return nil, false
		}
		res = append(res, fields[1:1+n])
		fields = fields[1+n:]
	}
	if len(fields) != 0 {
		return nil, false
	}
	return res, true
}

func sameArgv(a, b [][]byte) bool {
	if len(a) != len(b) {
		return false
	}
	for i := range a {
		if !bytes.Equal(a[i], b[i]) {
			return false
		}
	}
	return true
}

type lexFail struct {
	c     lexCase
	shell string
	got   string
}

func (e *shellEnv) checkLex(shell string, cs []lexCase, argvOut map[string][][]byte, fails *[]lexFail, budget *int) {
	if len(cs) == 0 {
		return
	}
	res, ok := e.shellArgv(shell, cs)
	if ok {
		allSame := true
		for i := range cs {
			if !sameArgv(res[i], cs[i].words) {
				allSame = false
			}
		}
		if allSame || len(cs) == 1 {
			for i := range cs {
				if argvOut != nil {
					argvOut[string(cs[i].text)] = res[i]
				}
			}
		}
		if allSame {
			return
		}
	}
	if len(cs) == 1 {
		g := "output not attributable (syntax error, extra commands, or non-zero exit)"
		if ok {
			g = renderArgv(res[0], e.home)
		}
		*fails = append(*fails, lexFail{cs[0], shell, g})
		*budget--
		return
	}
	if *budget <= 0 {
		return
	}
	mid := len(cs) / 2
	e.checkLex(shell, cs[:mid], argvOut, fails, budget)
	if *budget > 0 {
		e.checkLex(shell, cs[mid:], argvOut, fails, budget)
	}
}

// genLexText builds a command-line fragment from quoting constructs (mostly "clean" ones).
func genLexText(r *Rng) []byte {
	alpha := append(append([]byte{}, shAlphabet...), '/', '\t')
	if r.Chance(35) {
		n := r.Intn(9)
		b := make([]byte, n)
		for i := range b {
			b[i] = Pick(r, alpha)
		}
		return b
	}
	var b []byte
	for p, np := 0, 1+r.Intn(7); p < np; p++ {
		switch r.Intn(9) {
		case 0:
			b = append(b, Pick(r, []string{"a", "aa", "!", "a#", "/", "a!", "a/"})...)
		case 1:
			b = append(b, Pick(r, []string{"~", "~/", "~a", " ~ ", " ~/a", "a~"})...)
		case 2, 3: // '…'
			b = append(b, '\'')
			for i, n := 0, r.Intn(5); i < n; i++ {
				if c := Pick(r, alpha); c != '\'' {
					b = append(b, c)
				}
			}
			b = append(b, '\'')
		case 4, 5: // "…"
			b = append(b, '"')
			for i, n := 0, r.Intn(5); i < n; i++ {
				c := Pick(r, alpha)
				switch {
				case c == '\\':
					b = append(b, '\\', Pick(r, alpha))
				case c == '"' || ((c == '$' || c == '`') && !r.Chance(10)):
				default:
					b = append(b, c)
				}
			}
			b = append(b, '"')
		case 6:
			b = append(b, '\\', Pick(r, alpha))
		case 7:
			b = append(b, Pick(r, []string{" ", "\t", "  ", " \t "})...)
		case 8:
			b = append(b, Pick(r, alpha))
		}
	}
	return b
}

func runLexSpec(cfg Cfg, s *Stream, e *shellEnv, rng *Rng, workers int) {
	drv := lexDriverPath()
	if _, err := os.Stat(drv); drv == "" || err != nil {
		s.Notes = append(s.Notes, "lexer-spec validation skipped: Lean driver not found at "+drv)
		return
	}
	seen := map[string]bool{}
	var cand [][]byte
	add := func(b []byte) {
		if !seen[string(b)] && !bytes.Contains(b, []byte{0}) {
			seen[string(b)] = true
			cand = append(cand, b)
		}
	}
	alpha16 := append(append([]byte{}, shAlphabet...), '/')
	allStrings(alpha16, cfg.N(3, 4), add)
	for i, n := 0, cfg.N(8000, 60000); i < n; i++ {
		add(genLexText(rng))
	}
	var ops bytes.Buffer
	for _, c := range cand {
		ops.WriteString("lex " + hx(c) + "\n")
	}
	cmd := exec.Command(drv, "strutil")
	cmd.Stdin = &ops
	out, err := cmd.Output()
	if err != nil {
		s.Notes = append(s.Notes, "lexer-spec validation skipped: driver failed: "+err.Error())
		return
	}
	lines := strings.Split(strings.TrimRight(string(out), "\n"), "\n")
	if len(lines) != len(cand) {
		s.Notes = append(s.Notes, fmt.Sprintf("lexer-spec validation skipped: driver printed %d lines for %d ops", len(lines), len(cand)))
		return
	}
	var clean []lexCase
	for i, c := range cand {
		words, sp, un, ok := parseLexLine(lines[i], e.home)
		switch {
		case !ok:
			s.Violate("lexer-spec", "unparsable driver answer: "+lines[i], map[string]any{"text_hex": hx(c)})
		case un:
			s.Count("lex.unterminated")
		case sp:
			s.Count("lex.special")
		default:
			s.Count("lex.clean")
			s.Count(fmt.Sprintf("lex.clean.words=%d", min(len(words), 4)))
			if strings.Contains(lines[i], "~") {
				s.Count("lex.clean.home")
			}
			clean = append(clean, lexCase{c, lines[i], words})
		}
	}
	const batch = 1000
	nb := (len(clean) + batch - 1) / batch
	for _, shell := range []string{"/bin/dash", "/bin/bash"} {
		fails := make([][]lexFail, nb)
		argv := make([]map[string][][]byte, nb)
		parallel(nb, workers, func(i int) {
			budget := 4
			if shell == "/bin/dash" {
				argv[i] = map[string][][]byte{}
			}
			e.checkLex(shell, clean[i*batch:min(len(clean), (i+1)*batch)], argv[i], &fails[i], &budget)
		})
		for i := 0; i < nb; i++ {
			for _, f := range fails[i] {
				s.Violate("lexer-spec", fmt.Sprintf("%s reads %q as %s but the Lean lexer says %s", f.shell, f.c.text, f.got, f.c.model),
					map[string]any{"text_hex": hx(f.c.text), "text": string(f.c.text), "shell": f.shell})
			}
			if shell == "/bin/dash" {
				// the `lex` lines of the correspondence stream: implementation side = dash
				for _, c := range clean[i*batch : min(len(clean), (i+1)*batch)] {
					if a, ok := argv[i][string(c.text)]; ok {
						s.Line("lex "+hx(c.text), renderArgv(a, e.home))
					} else {
						s.Line("lex "+hx(c.text), "shell-output-not-attributable")
					}
					s.Evaluations++
				}
			}
		}
		s.Evaluations += len(clean)
	}
	if len(clean) > 0 {
		s.Sample(map[string]any{"lexer_text": string(clean[len(clean)/2].text), "model": clean[len(clean)/2].model})
	}
}

// ---- the stream -----------------------------------------------------------------------------

func runStrutil(cfg Cfg) {
	s := NewStream(cfg.Out, "strutil")
	defer s.Close()
	maxLen := cfg.N(4, 5)
	s.Rule = fmt.Sprintf("every string of length <= %d over the 15 bytes ' \" \\ $ ` space newline ; & | * ~ ! # a; \"~/\"+t for every such t of length <= %d; random strings over the alphabet (length 6..40) and over all 256 byte values; each escaped by the real ShellEscape and ShellEscapeExceptTilde, compared with the Lean model and (NUL-free ones) read back by /bin/dash and /bin/bash; non-trivial = input containing a single quote or starting with ~/ (distinct inputs)", maxLen, maxLen-1)
	rng := NewRng(cfg.Seed)
	workers := 8
	env := newShellEnv(cfg.Out)
	defer os.RemoveAll(env.dir)
	for _, sh := range []string{"/bin/dash", "/bin/bash"} {
		if _, err := os.Stat(sh); err != nil {
			fatal(fmt.Errorf("C16 needs %s: %w", sh, err))
		}
	}

	// ---- inputs
	var inputs [][]byte
	allStrings(shAlphabet, maxLen, func(b []byte) { inputs = append(inputs, b); s.Count("input.exhaustive") })
	// bytes a rewrite might use as "cannot occur" placeholders, mixed with quotes: every string up to
	// length 5 over ' 0xff 0x01 0x7f a
	allStrings([]byte{'\'', 0xff, 0x01, 0x7f, 'a'}, 5, func(b []byte) { inputs = append(inputs, b); s.Count("input.exhaustive-placeholders") })
	allStrings(shAlphabet, maxLen-1, func(b []byte) {
		inputs = append(inputs, append([]byte("~/"), b...))
		s.Count("input.tilde-prefix")
	})
	for _, x := range []string{"~", "~/", "~a", "~a/b", "~/~/", "~//", " ~/a", "~/a b/c", "~/-n", "-n", "-e", "--", "a=b", "~root/x", "{a,b}", "a?[b]", "\t", "\r", "a\tb", "\x7f", "\x01", "\xff\xfe", "é", "~/é'\"", "%s%d\\n\\0"} {
		inputs = append(inputs, []byte(x))
		s.Count("input.handpicked")
	}
	for i, n := 0, cfg.N(4000, 60000); i < n; i++ {
		r := rng.Fork()
		b := make([]byte, 6+r.Intn(35))
		for j := range b {
			b[j] = Pick(r, shAlphabet)
		}
		if r.Chance(15) {
			b = append([]byte("~/"), b...)
		}
		inputs = append(inputs, b)
		s.Count("input.random-alphabet")
	}
	for i, n := 0, cfg.N(4000, 60000); i < n; i++ {
		r := rng.Fork()
		b := r.Bytes(r.Intn(41))
		if r.Chance(50) { // NUL-free, so that it can go through the shells
			for j := range b {
				if b[j] == 0 {
					b[j] = '\''
				}
			}
		}
		if r.Chance(10) {
			b = append([]byte("~/"), b...)
		}
		inputs = append(inputs, b)
		s.Count("input.random-bytes")
	}

	// long strings (beyond any small-string fast path), half of them with the ~/ prefix
	for i, n := 0, cfg.N(600, 6000); i < n; i++ {
		r := rng.Fork()
		b := make([]byte, 48+r.Intn(200))
		for j := range b {
			if r.Chance(80) {
				b[j] = byte('a' + r.Intn(26))
			} else {
				b[j] = Pick(r, shAlphabet)
			}
		}
		if i%2 == 0 {
			b = append([]byte("~/"), b...)
		}
		inputs = append(inputs, b)
		s.Count("input.long")
	}

	// ---- (a) correspondence lines, and the shell cases
	var cases []wordCase
	for i, in := range inputs {
		str := string(in)
		// the two functions are called in alternating order: the answer of one must not depend on
		// whether the other has seen the same string before
		var e, t string
		if i%2 == 0 {
			e = callEscape(strutil.ShellEscape, str)
			t = callEscape(strutil.ShellEscapeExceptTilde, str)
		} else {
			t = callEscape(strutil.ShellEscapeExceptTilde, str)
			e = callEscape(strutil.ShellEscape, str)
		}
		h := hx(in)
		s.Line("esc "+h, hxs(e))
		if strings.HasPrefix(t, "panic:") {
			s.Line("esct "+h, t)
			s.Violate("panic", "ShellEscapeExceptTilde panicked: "+t, map[string]any{"input_hex": h})
		} else {
			s.Line("esct "+h, hxs(t))
		}
		s.Evaluations += 2
		tilde := strings.HasPrefix(str, "~/")
		if strings.Contains(str, "'") || tilde {
			s.Nontrivial(str)
		}
		if strings.Contains(str, "'") {
			s.Count("has-quote")
		}
		if !tilde && t != e {
			s.Violate("tilde-same", fmt.Sprintf("input %q does not start with ~/ but ShellEscapeExceptTilde=%q differs from ShellEscape=%q", str, t, e),
				map[string]any{"input_hex": h})
		}
		if i%50021 == 7 {
			s.Sample(map[string]any{"input": str, "ShellEscape": e, "ShellEscapeExceptTilde": t})
		}
		if bytes.IndexByte(in, 0) >= 0 {
			s.Count("skipped-shell.contains-NUL")
			continue
		}
		cases = append(cases, wordCase{i, in, []byte(e), in, "ShellEscape"})
		if tilde {
			cases = append(cases, wordCase{i, in, []byte(t), []byte(env.home + str[1:]), "ShellEscapeExceptTilde"})
			s.Count("shell.tilde-variant")
		}
	}

	// ---- (a2) the same calls from 8 goroutines at once: an answer depends on its argument only
	{
		type cc struct {
			in   string
			e, t string
		}
		var sub []cc
		for i, in := range inputs {
			str := string(in)
			if (strings.Contains(str, "'") || strings.HasPrefix(str, "~/")) && i%3 == 0 && len(sub) < 40000 {
				sub = append(sub, cc{str, callEscape(strutil.ShellEscape, str), callEscape(strutil.ShellEscapeExceptTilde, str)})
			}
		}
		var mu sync.Mutex
		bad := 0
		var wg sync.WaitGroup
		for g := 0; g < 8; g++ {
			wg.Add(1)
			go func(g int) {
				defer wg.Done()
				for k := g; k < len(sub); k += 8 {
					c := sub[k]
					var e, t string
					if (k+g)%2 == 0 {
						e, t = callEscape(strutil.ShellEscape, c.in), callEscape(strutil.ShellEscapeExceptTilde, c.in)
					} else {
						t, e = callEscape(strutil.ShellEscapeExceptTilde, c.in), callEscape(strutil.ShellEscape, c.in)
					}
					if e != c.e || t != c.t {
						mu.Lock()
						bad++
						if bad <= 2 {
							s.Violate("depends-on-other-calls", fmt.Sprintf("with 8 goroutines escaping at the same time, input %q gave ShellEscape=%q / ShellEscapeExceptTilde=%q; alone it gives %q / %q", c.in, e, t, c.e, c.t),
								map[string]any{"input_hex": hx([]byte(c.in)), "goroutines": 8})
						}
						mu.Unlock()
					}
				}
			}(g)
		}
		wg.Wait()
		s.Evaluations += 2 * len(sub)
		s.Dist["concurrent.calls"] = 2 * len(sub)
	}

	// ---- (b) direct oracle: what the real shells make of the escaped text
	const batch = 2000
	nb := (len(cases) + batch - 1) / batch
	for _, shell := range []string{"/bin/dash", "/bin/bash"} {
		fails := make([][]wordFail, nb)
		var total int
		var mu sync.Mutex
		parallel(nb, workers, func(i int) {
			mu.Lock()
			stop := total >= 20
			mu.Unlock()
			if stop {
				return
			}
			budget := 3
			env.checkWords(shell, cases[i*batch:min(len(cases), (i+1)*batch)], &fails[i], &budget)
			mu.Lock()
			total += len(fails[i])
			mu.Unlock()
		})
		var all []wordFail
		for _, f := range fails {
			all = append(all, f...)
		}
		// report the shortest failing inputs first
		sort.SliceStable(all, func(i, j int) bool { return len(all[i].c.input) < len(all[j].c.input) })
		for _, f := range all {
			s.Violate("shell-word", fmt.Sprintf("%s: %s(%q) = %s, argv seen by the command: %s, want exactly %q",
				f.shell, f.c.fn, f.c.input, strconv.Quote(string(f.c.text)), f.got, f.c.expect),
				map[string]any{"input_hex": hx(f.c.input), "input": string(f.c.input), "func": f.c.fn, "shell": f.shell})
		}
		s.Evaluations += len(cases)
		s.Count("shell-words." + filepath.Base(shell))
		s.Dist["shell-words."+filepath.Base(shell)] = len(cases)
	}

	// ---- (c) the spec against the shells
	runLexSpec(cfg, s, env, rng.Fork(), workers)

	s.Dist["shell-invocations"] = env.runs
	s.Traces = len(cases)
}
