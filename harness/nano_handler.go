package main

// Stream `nano` (C03b): the real NanoHandler (colour off), driven through its Handler methods on
// random With/WithGroup chains and records, against Glb.NanoHandler (lean/Glb/Model/NanoHandler.lean).
//
// The harness supplies the stdlib-rendered payload texts (strconv / Duration.String / Time.Format /
// fmt.Append / AnsiString.Value, time in time.DateTime layout, runtime frame file and line); the
// model decides spaces, flattening of groups, ordering, the level label, the source trimming, the
// omission of an empty message and the place of the preformatted bytes.
//
// Direct oracle (independent of the model):
//   - exactly one Write per Handle and the written bytes end with '\n' (Nano makes no promise about
//     embedded newlines);
//   - handler-boundary law of C03b on the real code: when the chain ends in WithAttrs(as), the line
//     equals the line of the parent handler for the same record with `as` put in front of the
//     record's attributes.
//
// Value/attribute generators are shared with the `text` stream (textAttrs, textHostile, …).

import (
	"bytes"
	"context"
	"fmt"
	"log/slog"
	"runtime"
	"strconv"
	"strings"
	"time"

	"github.com/whoisnian/glb/logger"
)

func init() { streams["nano"] = runNano }

type nanoNode struct {
	Group   bool       `json:"group,omitempty"`
	Key     string     `json:"key"`
	Kind    string     `json:"kind,omitempty"`
	Payload string     `json:"payload,omitempty"`
	Kids    []nanoNode `json:"kids,omitempty"`
}

// nanoWalk resolves an attribute the way appendNanoValue will and renders the leaf payloads with the
// standard library directly.
func nanoWalk(a slog.Attr) nanoNode {
	v := a.Value.Resolve()
	if v.Kind() == slog.KindGroup {
		n := nanoNode{Group: true, Key: a.Key}
		for _, aa := range v.Group() {
			n.Kids = append(n.Kids, nanoWalk(aa))
		}
		return n
	}
	n := nanoNode{Key: a.Key, Kind: "raw"}
	switch v.Kind() {
	case slog.KindString:
		n.Kind, n.Payload = "str", v.String()
	case slog.KindInt64:
		n.Payload = strconv.FormatInt(v.Int64(), 10)
	case slog.KindUint64:
		n.Payload = strconv.FormatUint(v.Uint64(), 10)
	case slog.KindFloat64:
		n.Payload = strconv.FormatFloat(v.Float64(), 'g', -1, 64)
	case slog.KindBool:
		n.Payload = strconv.FormatBool(v.Bool())
	case slog.KindDuration:
		n.Payload = v.Duration().String()
	case slog.KindTime:
		n.Payload = v.Time().Format(time.RFC3339)
	default:
		if as, ok := v.Any().(logger.AnsiString); ok {
			n.Kind, n.Payload = "ansi", as.Value
		} else {
			n.Kind, n.Payload = "any", string(fmt.Append(nil, v.Any()))
		}
	}
	return n
}

func nanoWalkAll(as []slog.Attr) []nanoNode {
	out := make([]nanoNode, 0, len(as))
	for _, a := range as {
		out = append(out, nanoWalk(a))
	}
	return out
}

func nanoEncodeNode(sb *strings.Builder, n nanoNode) {
	if n.Group {
		fmt.Fprintf(sb, " G %s %d", hxs(n.Key), len(n.Kids))
		for _, k := range n.Kids {
			nanoEncodeNode(sb, k)
		}
		return
	}
	fmt.Fprintf(sb, " L %s %s %s", hxs(n.Key), n.Kind, hxs(n.Payload))
}

func nanoLeaves(ns []nanoNode) int {
	c := 0
	for _, n := range ns {
		if n.Group {
			c += nanoLeaves(n.Kids)
		} else {
			c++
		}
	}
	return c
}

type nanoChainOp struct {
	Group bool
	Name  string
	Attrs []slog.Attr
}

type nanoCase struct {
	AddSource bool
	ZeroPC    bool
	Chain     []nanoChainOp
	Level     slog.Level
	Msg       string
	Attrs     []slog.Attr
	Time      time.Time
}

type nanoOpRx struct {
	Group bool       `json:"group,omitempty"`
	Name  string     `json:"name,omitempty"`
	Attrs []nanoNode `json:"attrs,omitempty"`
}

type nanoRun struct {
	Line   []byte
	Writes int
	Panic  string
	File   string
	LineNo string
	HasPC  bool
	Chain  []nanoOpRx
	Attrs  []nanoNode
	// with-law: the parent of a final WithAttrs, logging the record with those attributes in front
	LawChecked bool
	LawLine    []byte
	LawWrites  int
}

func (c *nanoCase) run() (res nanoRun) {
	w := &textCapture{}
	h := logger.NewNanoHandler(w, logger.NewOptions(logger.LevelDebug, false, c.AddSource))
	defer func() {
		if r := recover(); r != nil {
			res.Panic = fmt.Sprint(r)
		}
		res.Line, res.Writes = w.data, w.writes
	}()
	var hh, parent logger.Handler = h, nil
	var lastAttrs []slog.Attr
	for i, op := range c.Chain {
		if op.Group {
			hh = hh.WithGroup(op.Name)
			res.Chain = append(res.Chain, nanoOpRx{Group: true, Name: op.Name})
		} else {
			if i == len(c.Chain)-1 {
				parent, lastAttrs = hh, op.Attrs
			}
			hh = hh.WithAttrs(op.Attrs)
			res.Chain = append(res.Chain, nanoOpRx{Attrs: nanoWalkAll(op.Attrs)})
		}
	}
	var pc uintptr
	if c.AddSource && !c.ZeroPC {
		pc = textPC()
		f, _ := runtime.CallersFrames([]uintptr{pc}).Next()
		res.File, res.LineNo, res.HasPC = f.File, strconv.Itoa(f.Line), true
	}
	r := slog.NewRecord(c.Time, c.Level, c.Msg, pc)
	r.AddAttrs(c.Attrs...)
	r.Attrs(func(a slog.Attr) bool { res.Attrs = append(res.Attrs, nanoWalk(a)); return true })
	if err := hh.Handle(context.Background(), r); err != nil {
		res.Panic = "error:" + err.Error()
		return
	}
	if parent != nil {
		// a second writer behind the same options: the parent handler shares `w`, so capture the
		// parent's line by position
		before, wr := len(w.data), w.writes
		r2 := slog.NewRecord(c.Time, c.Level, c.Msg, pc)
		r2.AddAttrs(lastAttrs...)
		r2.AddAttrs(c.Attrs...)
		if err := parent.Handle(context.Background(), r2); err != nil {
			res.Panic = "error:" + err.Error()
			return
		}
		res.LawChecked = true
		res.LawLine = append([]byte(nil), w.data[before:]...)
		res.LawWrites = w.writes - wr
		w.data, w.writes = w.data[:before], wr
	}
	return
}

func nanoOracle(res *nanoRun) (kind, detail string) {
	if res.Panic != "" {
		return "handler-panicked", res.Panic
	}
	if res.Writes != 1 {
		return "not-one-write", fmt.Sprintf("Handle made %d Write calls", res.Writes)
	}
	if len(res.Line) == 0 || res.Line[len(res.Line)-1] != '\n' {
		return "no-trailing-newline", "written bytes do not end with a newline: " + strconv.Quote(string(res.Line))
	}
	if res.LawChecked {
		if res.LawWrites != 1 {
			return "not-one-write", fmt.Sprintf("Handle (parent) made %d Write calls", res.LawWrites)
		}
		if !bytes.Equal(res.Line, res.LawLine) {
			return "with-is-not-prepend", "WithAttrs(as).Handle(r) wrote " + strconv.Quote(string(res.Line)) +
				" but Handle(r with as in front) on the parent wrote " + strconv.Quote(string(res.LawLine))
		}
	}
	return "", ""
}

func (c *nanoCase) describe(res *nanoRun) map[string]any {
	return map[string]any{
		"add_source": c.AddSource, "zero_pc": c.ZeroPC, "level": int(c.Level), "msg": c.Msg, "msg_hex": hxs(c.Msg),
		"chain_received": res.Chain, "record_attrs_received": res.Attrs,
		"line": string(res.Line), "line_hex": hx(res.Line), "law_line": string(res.LawLine),
	}
}

func nanoRandomCase(r *Rng, s *Stream) *nanoCase {
	c := &nanoCase{
		AddSource: r.Chance(35),
		Level:     Pick(r, textLevels),
		Msg:       textHostile(r),
		Time:      textTime(r),
	}
	if r.Chance(20) {
		c.Msg = ""
	}
	if c.AddSource {
		c.ZeroPC = r.Chance(20)
	}
	nChain := r.Intn(6)
	if r.Chance(8) {
		nChain = 7 + r.Intn(14) // deep chains: 7..20 derivations
		s.Count("chain.deep")
	}
	for i, n := 0, nChain; i < n; i++ {
		if r.Chance(35) {
			name := textKey(r)
			if r.Chance(10) {
				name = ""
			}
			c.Chain = append(c.Chain, nanoChainOp{Group: true, Name: name})
		} else {
			c.Chain = append(c.Chain, nanoChainOp{Attrs: textAttrs(r, s, r.Intn(4), 3)})
		}
	}
	c.Attrs = textAttrs(r, s, r.Intn(5), 3)
	return c
}

func nanoEmit(s *Stream, c *nanoCase) {
	res := c.run()
	s.Evaluations++
	if kind, detail := nanoOracle(&res); kind != "" {
		fails := func(cc *nanoCase) bool { rr := cc.run(); k, _ := nanoOracle(&rr); return k == kind }
		min := *c
		min.Chain = ddmin(c.Chain, func(ch []nanoChainOp) bool { cc := min; cc.Chain = ch; return fails(&cc) })
		min.Attrs = ddmin(min.Attrs, func(as []slog.Attr) bool { cc := min; cc.Attrs = as; return fails(&cc) })
		mres := min.run()
		_, mdetail := nanoOracle(&mres)
		if mdetail == "" {
			mdetail, mres, min = detail, res, *c
		}
		s.Violate(kind, mdetail, min.describe(&mres))
	}
	var sb strings.Builder
	src, haspc := "0", "0"
	if c.AddSource {
		src = "1"
	}
	if res.HasPC {
		haspc = "1"
	}
	fmt.Fprintf(&sb, "rec %s %s %s %d %s %s %s %d", src, haspc, hxs(c.Time.Format(time.DateTime)), int(c.Level),
		hxs(res.File), hxs(res.LineNo), hxs(c.Msg), len(res.Chain))
	chainLeaves := 0
	for _, op := range res.Chain {
		if op.Group {
			fmt.Fprintf(&sb, " W %s", hxs(op.Name))
			continue
		}
		fmt.Fprintf(&sb, " A %d", len(op.Attrs))
		for _, n := range op.Attrs {
			nanoEncodeNode(&sb, n)
		}
		chainLeaves += nanoLeaves(op.Attrs)
	}
	fmt.Fprintf(&sb, " %d", len(res.Attrs))
	for _, n := range res.Attrs {
		nanoEncodeNode(&sb, n)
	}
	impl := hx(res.Line)
	if res.Panic != "" {
		impl = "panic:" + res.Panic
	}
	s.Line(sb.String(), impl)
	s.Traces++
	s.Count(fmt.Sprintf("chain-len:%d", len(res.Chain)))
	if res.HasPC {
		s.Count("source:written")
	}
	if c.Msg == "" {
		s.Count("msg:empty")
	}
	if res.LawChecked {
		s.Count("with-law:checked")
	}
	recLeaves := nanoLeaves(res.Attrs)
	if chainLeaves > 0 && recLeaves > 0 {
		if i := len(time.DateTime); len(res.Line) > i {
			s.Nontrivial(string(res.Line[i:]))
		}
	}
	if s.Evaluations%997 == 1 {
		s.Sample(map[string]any{"line": string(res.Line), "chain": res.Chain, "attrs": res.Attrs})
	}
}

func runNano(cfg Cfg) {
	s := NewStream(cfg.Out, "nano")
	defer s.Close()
	s.Rule = "real NanoHandler (colour off) through its Handler methods; chains of 0..5 WithAttrs/WithGroup (group names incl. \"\"), records with 0..4 attributes of every value kind (strings from hostile byte soup, numbers, durations, times, AnsiString, errors, Stringers, structs, maps, LogValuers, typed nils), nested/inline/empty groups, source on/off incl. PC = 0, empty messages; non-trivial = line carrying at least one value from the chain and one from the record, distinct by the bytes after the time"
	rng := NewRng(cfg.Seed)
	// fixed cases: empty everything, empty groups only, group-only chain
	for _, lvl := range textLevels {
		for _, src := range []bool{false, true} {
			nanoEmit(s, &nanoCase{AddSource: src, Level: lvl, Time: time.Unix(0, 0).UTC()})
			nanoEmit(s, &nanoCase{AddSource: src, ZeroPC: true, Level: lvl, Msg: "m", Time: time.Unix(1692146115, 0).UTC(),
				Chain: []nanoChainOp{{Attrs: []slog.Attr{{Key: "", Value: slog.GroupValue()}}}, {Group: true, Name: "g"},
					{Attrs: []slog.Attr{slog.Int("a", 1), {Key: "e", Value: slog.GroupValue()}}}},
				Attrs: []slog.Attr{slog.String("k", "v w"), slog.Group("g", slog.Bool("b", true))}})
		}
	}
	for i, n := 0, cfg.N(30000, 300000); i < n; i++ {
		nanoEmit(s, nanoRandomCase(rng.Fork(), s))
	}
	s.Notes = append(s.Notes, "excluded by design: colour on; levels other than the five valid ones (labelList[l] is then a coloured/full label or out of range); LogValuers that panic (slog embeds a stack trace)")
}
