package main

import (
	"fmt"
	"os"
	"path"
	"path/filepath"
	"strings"
	"sync"

	"github.com/whoisnian/glb/util/fsutil"
)

func init() { streams["fsutil"] = runFsutil }

// Stream fsutil (C17).
//
// Correspondence: path.Clean, filepath.Join and fsutil.ResolveUrlPath (the real functions) against
// the Lean model (ops clean / join / resolve / nf; cleanb / resolveb = the same real results against the
// byte-level transcription of the stdlib lazybuf loop, Model/PathCleanBytes.lean), exhaustively on every string up to length
// 6 (quick) / 8 (thorough) over {'/', '.', 'a', '\'} x a fixed list of bases, on all pairs of short
// strings, and on random strings over a larger alphabet.
//
// Direct oracle (independent of the model), for every (base != "", url):
//   - filepath.Rel(filepath.Clean(base), result) succeeds and is "." or does not start with a ".."
//     segment; the same stated textually on the clean result; the result is clean;
//   - for a url without "." / ".." segments: result == filepath.Join(base, url).

var fsutilBases = []string{"/data", "/", ".", "..", "a/../..", "./x/", "/a//b/", "../x", "a", "/..", "/a", "/a/a", "/srv/pub\\", "/\\", "a\\"}

type fsutilCase struct {
	Base string `json:"base"`
	Url  string `json:"url"`
	Got  string `json:"got,omitempty"`
}

// implNF renders the normal form read off the real path.Clean output, in the driver's format.
func implNF(p string) string {
	c := path.Clean(p)
	rooted := strings.HasPrefix(c, "/")
	body := strings.TrimPrefix(c, "/")
	st := "-"
	if body != "" && c != "." {
		parts := strings.Split(body, "/")
		for i := range parts {
			parts[i] = hxs(parts[i])
		}
		st = strings.Join(parts, ",")
	}
	return fmt.Sprintf("rooted=%v stack=%s", rooted, st)
}

func hasDotSegment(url string) bool {
	for _, seg := range strings.Split(url, "/") {
		if seg == "." || seg == ".." {
			return true
		}
	}
	return false
}

func startsWithDotDot(p string) bool { return p == ".." || strings.HasPrefix(p, "../") }

// fsutilOracle evaluates the property statement on the real code; returns (kind, detail) or "".
func fsutilOracle(base, url, res string) (string, string) {
	cb := filepath.Clean(base)
	rel, err := filepath.Rel(cb, res)
	if err != nil {
		return "escapes-base", fmt.Sprintf("ResolveUrlPath(%q, %q) = %q: filepath.Rel(%q, result) fails: %v", base, url, res, cb, err)
	}
	if startsWithDotDot(rel) {
		return "escapes-base", fmt.Sprintf("ResolveUrlPath(%q, %q) = %q is %q relative to the base %q", base, url, res, rel, cb)
	}
	// the same statement, textually: the clean result is the clean base or extends it by "/…"
	var under bool
	switch {
	case res == cb:
		under = true
	case cb == "/":
		under = strings.HasPrefix(res, "/")
	case cb == ".":
		under = !strings.HasPrefix(res, "/") && !startsWithDotDot(res)
	default:
		under = strings.HasPrefix(res, cb+"/")
	}
	if !under {
		return "escapes-base", fmt.Sprintf("ResolveUrlPath(%q, %q) = %q does not extend the clean base %q", base, url, res, cb)
	}
	if under && res != cb {
		// every appended segment is a real name
		tail := strings.TrimPrefix(strings.TrimPrefix(res, cb), "/")
		if cb == "." {
			tail = res
		}
		for _, seg := range strings.Split(tail, "/") {
			if seg == "" || seg == "." {
				return "not-clean", fmt.Sprintf("ResolveUrlPath(%q, %q) = %q: segment %q below the base %q", base, url, res, seg, cb)
			}
			if seg == ".." {
				return "escapes-base", fmt.Sprintf("ResolveUrlPath(%q, %q) = %q: segment %q below the base %q", base, url, res, seg, cb)
			}
		}
	}
	if filepath.Clean(res) != res {
		return "not-clean", fmt.Sprintf("ResolveUrlPath(%q, %q) = %q is not clean (%q)", base, url, res, filepath.Clean(res))
	}
	if !hasDotSegment(url) {
		if want := filepath.Join(base, url); res != want {
			return "plain-join", fmt.Sprintf("ResolveUrlPath(%q, %q) = %q, filepath.Join gives %q for a dot-free url", base, url, res, want)
		}
	}
	return "", ""
}

func runFsutil(cfg Cfg) {
	s := NewStream(cfg.Out, "fsutil")
	defer s.Close()
	s.Rule = "every string up to length 6 (quick) / 8 (thorough) over {'/','.','a','\\\\'} as url x 10 bases (absolute, relative, '.', '..', needing Clean, trailing slash), all pairs (base,url) of such strings up to length 3/4, random bases x random urls over a larger alphabet (NUL, space, '~', high bytes, UTF-8); non-trivial = a resolve whose url has a '..' segment, is empty, lacks the leading slash, or has an empty (repeated/trailing slash) segment; distinct by (clean base, url normal form, result)"
	rng := NewRng(cfg.Seed)

	// resolveB: ResolveUrlPath computed through the byte-level Clean (op resolveb) against the real
	// result; emitted for the hand-picked, pair and random cases (the exhaustive url domain compares the
	// byte-level Clean itself on every string, op cleanb).
	resolveB := false
	// held: results returned earlier are kept (the string itself, plus a private copy of its bytes)
	// and re-read after later calls - a returned path must never change afterwards
	type heldRes struct {
		base, url, res string
		copyOf         []byte
	}
	var held []heldRes
	checkHeld := func() {
		for _, h := range held {
			if h.res != string(h.copyOf) {
				s.Violate("result-changed-later", fmt.Sprintf("ResolveUrlPath(%q, %q) returned %q, after later calls the same string reads %q", h.base, h.url, h.copyOf, h.res), fsutilCase{h.base, h.url, string(h.copyOf)})
			}
		}
		held = held[:0]
	}
	resolve := func(base, url string, record bool) {
		res := fsutil.ResolveUrlPath(base, url)
		if len(held) < 16 {
			held = append(held, heldRes{base, url, res, []byte(res)})
		} else {
			checkHeld()
		}
		s.Line("resolve "+hxs(base)+" "+hxs(url), hxs(res))
		if resolveB {
			s.Line("resolveb "+hxs(base)+" "+hxs(url), hxs(res))
			s.Count("resolveb")
		}
		if base == "" {
			s.Count("resolve.empty-base(correspondence only)")
			return
		}
		s.Evaluations++
		if kind, detail := fsutilOracle(base, url, res); kind != "" {
			s.Violate(kind, detail, fsutilCase{base, url, res})
		}
		class := "plain"
		nontrivial := false
		switch {
		case url == "":
			class, nontrivial = "empty", true
		case hasDotSegment(url) && strings.Contains("/"+url+"/", "/../"):
			class, nontrivial = "dotdot", true
		case url[0] != '/':
			class, nontrivial = "no-leading-slash", true
		case strings.Contains(url, "//") || (len(url) > 1 && strings.HasSuffix(url, "/")):
			class, nontrivial = "repeated-or-trailing-slash", true
		case hasDotSegment(url):
			class = "dot"
		}
		s.Count("resolve.url." + class)
		if nontrivial {
			s.Nontrivial(filepath.Clean(base) + "\x00" + path.Clean("/"+url) + "\x00" + res)
		}
		if record && nontrivial && len(res) > len(filepath.Clean(base)) {
			s.Sample(fsutilCase{base, url, res})
		}
	}
	join := func(a, b string) {
		s.Line("join "+hxs(a)+" "+hxs(b), hxs(filepath.Join(a, b)))
		s.Count("join")
	}
	clean := func(p string) {
		c := path.Clean(p)
		s.Line("clean "+hxs(p), hxs(c))
		s.Line("cleanb "+hxs(p), hxs(c)) // byte-level transcription of the stdlib loop
		if fc := filepath.Clean(p); fc != c {
			s.Notes = append(s.Notes, fmt.Sprintf("filepath.Clean(%q)=%q differs from path.Clean=%q: not a POSIX build?", p, fc, c))
		}
		s.Line("nf "+hxs(p), implNF(p))
		s.Count("clean")
		s.Count("cleanb")
	}

	// a few hostile hand-picked cases first (also the evidence samples)
	resolveB = true
	for _, u := range []string{"../../etc/passwd", "a/../../b", "", "x", "/..", "/a/./b/../../..//c/"} {
		resolve("/data", u, true)
	}
	resolveB = false

	// 1. exhaustive small domain
	alpha := []byte{'/', '.', 'a', '\\'}
	maxLen := cfg.N(6, 8)
	nStr := 0
	buf := make([]byte, 0, maxLen)
	var enum func(depth int, f func(string))
	enum = func(depth int, f func(string)) {
		f(string(buf))
		if len(buf) == depth {
			return
		}
		for _, c := range alpha {
			buf = append(buf, c)
			enum(depth, f)
			buf = buf[:len(buf)-1]
		}
	}
	enum(maxLen, func(u string) {
		nStr++
		clean(u)
		for _, b := range fsutilBases {
			join(b, u)
			resolve(b, u, false)
		}
	})
	s.Dist["exhaustive.strings"] = nStr
	s.Dist["exhaustive.maxlen"] = maxLen
	s.Exhaustive = true

	// 2. all pairs of short strings (bases of every spelling, the empty base for Join)
	pairLen := cfg.N(3, 4)
	resolveB = true
	var shorts []string
	enum(pairLen, func(u string) { shorts = append(shorts, u) })
	for _, a := range shorts {
		for _, b := range shorts {
			join(a, b)
			resolve(a, b, false)
		}
	}
	s.Dist["pairs.strings"] = len(shorts)

	// 3. random bases x random urls over a larger alphabet
	segs := []string{"", ".", "..", "...", "a", "b", "data", "etc", "passwd", "..a", "a..", ". ", " ", "\\", "..\\..", "~",
		"\x00", "a\x00b", "\xff", "\x80.", "é", "日本", "%2e%2e", "a b", ".a", "-", "C:", "*",
		"..;", "..;x=1", ";", "a;b", ".;", "..?", "..#", ".well-known", "....", "%2e."}
	rbytes := []byte{'/', '/', '/', '.', '.', '.', 'a', 'b', '\\', '~', ' ', 0, 0x80, 0xff, '%', 0xc3, 0xa9}
	randPath := func(r *Rng) string {
		switch r.Intn(3) {
		case 0: // segments
			n := r.Intn(7)
			parts := make([]string, n)
			for i := range parts {
				parts[i] = Pick(r, segs)
			}
			p := strings.Join(parts, "/")
			if r.Chance(50) {
				p = "/" + p
			}
			return p
		case 1: // bytes from the biased alphabet
			n := r.Intn(cfg.N(14, 24))
			b := make([]byte, n)
			for i := range b {
				b[i] = Pick(r, rbytes)
			}
			return string(b)
		default: // dots and slashes only, longer than the exhaustive domain
			n := 7 + r.Intn(10)
			b := make([]byte, n)
			for i := range b {
				b[i] = "/..a"[r.Intn(4)]
			}
			return string(b)
		}
	}
	nRand := cfg.N(4000, 150000)
	for i := 0; i < nRand; i++ {
		r := rng.Fork()
		base := randPath(r)
		if r.Chance(30) {
			base = Pick(r, fsutilBases)
		}
		url := randPath(r)
		if r.Chance(15) {
			clean(url)
		}
		if r.Chance(15) {
			clean(base)
		}
		join(base, url)
		resolve(base, url, i < 2)
	}
	s.Dist["random.cases"] = nRand
	// tilde bases are ordinary directory names for this function ("~" is not expanded here)
	for _, b := range []string{"~", "~/www", "~user/x", "/srv/v1.", "/srv/a.."} {
		for _, u := range []string{"", "/", "/a", "../a", "/etc/passwd", "a/../../b", "//a/a", "/%2e%2e/x"} {
			resolve(b, u, false)
		}
	}
	checkHeld()
	// bases that exist, with symbolic links inside that lead out of them: the function is lexical - what is on
	// the disk has no say in the result
	if root, err := os.MkdirTemp(cfg.Out, "fsu"); err == nil {
		os.MkdirAll(filepath.Join(root, "www", "sub"), 0o755)
		os.WriteFile(filepath.Join(root, "secret"), []byte("x"), 0o644)
		os.Symlink("/", filepath.Join(root, "www", "rootlink"))
		os.Symlink("..", filepath.Join(root, "www", "up"))
		os.Symlink(filepath.Join(root, "secret"), filepath.Join(root, "www", "sub", "s"))
		os.Symlink(filepath.Join(root, "www"), filepath.Join(root, "wwwlink"))
		for _, b := range []string{filepath.Join(root, "www"), filepath.Join(root, "wwwlink"), filepath.Join(root, "www", "up")} {
			for _, u := range []string{"/rootlink/etc/passwd", "/up/secret", "up/secret", "/sub/s", "/sub/../up/secret", "/", "", "/rootlink", "/up", "/sub/./s/"} {
				resolve(b, u, false)
			}
		}
		os.RemoveAll(root)
		s.Count("bases-on-disk-with-symlinks")
	}
	// concurrent callers with different bases: a result must depend on its own arguments only
	var wg sync.WaitGroup
	var cmu sync.Mutex
	bases := []string{"/srv/alpha", "/srv/beta", "rel/x", "/", "..", "/a//b/"}
	for g := 0; g < 6; g++ {
		wg.Add(1)
		go func(g int) {
			defer wg.Done()
			r := NewRng(cfg.Seed*1000 + uint64(g))
			for i := 0; i < cfg.N(3000, 40000); i++ {
				base, url := bases[(g+i)%len(bases)], randPath(r)
				res := fsutil.ResolveUrlPath(base, url)
				if kind, detail := fsutilOracle(base, url, res); kind != "" {
					cmu.Lock()
					s.Violate(kind, "concurrent callers: "+detail, fsutilCase{base, url, res})
					cmu.Unlock()
				}
			}
		}(g)
	}
	wg.Wait()
	s.Evaluations += 6 * cfg.N(3000, 40000)
	s.Dist["concurrent.cases"] = 6 * cfg.N(3000, 40000)
	s.Traces = s.Evaluations
}
