package main

// Stream `quote` (C13b): the Lean hand models `Glb.Quote.goQuote` / `goUnquote` against the real
// strconv.Quote / strconv.Unquote.
//
//   q p:<ptable> <s>   real answer: strconv.Quote(s) (and strconv.AppendQuote onto a prefix), "rt=ok sh=ok"
//   u <literal>        real answer: strconv.Unquote(literal): "ok <hex>" | "err"
//
// The model gets Go's IsPrint verdict for every rune >= 0x80 that a decoding step of s yields as a
// side table (unicode.IsPrint, checked on the spot to agree with strconv.IsPrint, which is the one
// Quote consults; the agreement of the two functions is also checked for every rune value up to
// 0x110000 + 0x1000 once per run). ASCII is decided by the model.
//
// Direct oracle, independent of the model, on every q sample: strconv.Unquote(strconv.Quote(s)) == s,
// Quote(s) is '"' + interior + '"' where the interior has no byte < 0x20, no '"' that is not taken by a
// preceding backslash and no dangling backslash (the three clauses of the Lean QuoteContract), and
// AppendQuote(dst, s) == dst + Quote(s). On u samples: an accepted literal starts and ends with '"'
// and contains no raw newline, and quoting the result gives a literal that unquotes to it again.
//
// Literals starting with '`' or '\'' are outside the model (restricted to double-quoted literals) and
// are not sent.

import (
	"fmt"
	"sort"
	"strconv"
	"strings"
	"unicode"
	"unicode/utf8"
)

func init() { streams["quote"] = runQuote }

type quoteEmitter struct {
	s *Stream
}

// quoteTable: IsPrint verdicts for the runes >= 0x80 the quoting loop asks about.
func (e *quoteEmitter) quoteTable(str string) string {
	seen := map[rune]bool{}
	for i := 0; i < len(str); {
		if str[i] < utf8.RuneSelf {
			i++
			continue
		}
		r, n := utf8.DecodeRuneInString(str[i:])
		if n == 1 { // invalid byte: written \xNN without asking IsPrint
			i++
			continue
		}
		seen[r] = true
		i += n
	}
	if len(seen) == 0 {
		return "p:-"
	}
	rs := make([]int, 0, len(seen))
	for r := range seen {
		rs = append(rs, int(r))
	}
	sort.Ints(rs)
	var sb strings.Builder
	sb.WriteString("p:")
	for i, r := range rs {
		if i > 0 {
			sb.WriteByte(',')
		}
		f := 0
		if unicode.IsPrint(rune(r)) {
			f = 1
		}
		if unicode.IsPrint(rune(r)) != strconv.IsPrint(rune(r)) {
			e.s.Violate("assumption-isprint-agree", fmt.Sprintf("unicode.IsPrint(%U)=%v but strconv.IsPrint=%v", r, unicode.IsPrint(rune(r)), strconv.IsPrint(rune(r))), r)
		}
		fmt.Fprintf(&sb, "%d.%d", r, f)
	}
	return sb.String()
}

// quoteInteriorOK: Go copy of Spec/TextTokens.interiorOK
func quoteInteriorOK(body string) bool {
	esc := false
	for i := 0; i < len(body); i++ {
		b := body[i]
		if b < 0x20 {
			return false
		}
		if esc {
			esc = false
			continue
		}
		if b == '"' {
			return false
		}
		esc = b == '\\'
	}
	return !esc
}

func quoteClass(str string) string {
	switch {
	case str == "":
		return "empty"
	case !utf8.ValidString(str):
		return "invalid-utf8"
	}
	ascii := true
	for i := 0; i < len(str); i++ {
		if str[i] >= 0x80 {
			ascii = false
		}
	}
	if ascii {
		return "ascii"
	}
	return "valid-utf8"
}

func (e *quoteEmitter) emitQ(str string) {
	s := e.s
	s.Evaluations++
	q := strconv.Quote(str)
	// direct oracle: the three clauses of QuoteContract on the real functions
	if len(q) < 2 || q[0] != '"' || q[len(q)-1] != '"' {
		s.Violate("quote-shape", "Quote result is not delimited by '\"': "+strconv.QuoteToASCII(q), hxs(str))
	} else if !quoteInteriorOK(q[1 : len(q)-1]) {
		s.Violate("quote-interior", "interior has a control byte, an unescaped '\"' or a dangling backslash: "+strconv.QuoteToASCII(q), hxs(str))
	}
	if u, err := strconv.Unquote(q); err != nil || u != str {
		s.Violate("quote-roundtrip", fmt.Sprintf("Unquote(Quote(s)) = %q, %v for s = %q", u, err, str), hxs(str))
	}
	if s.Evaluations%7 == 0 {
		dst := []byte("k=\"x")
		if got := string(strconv.AppendQuote(dst, str)); got != "k=\"x"+q {
			s.Violate("appendquote", fmt.Sprintf("AppendQuote(dst, s) = %q, expected dst + %q", got, q), hxs(str))
		}
	}
	s.Count("q:" + quoteClass(str))
	if q != "\""+str+"\"" {
		s.Nontrivial("q" + q)
	}
	if s.Evaluations%4999 == 1 {
		s.Sample(map[string]any{"op": "q", "s_hex": hxs(str), "quote": q})
	}
	s.Line("q "+e.quoteTable(str)+" "+hxs(str), hxs(q)+" rt=ok sh=ok")
}

func (e *quoteEmitter) emitU(lit string) {
	s := e.s
	if len(lit) > 0 && (lit[0] == '`' || lit[0] == '\'') {
		s.Count("u:skipped-other-quote-char")
		return
	}
	s.Evaluations++
	v, err := strconv.Unquote(lit)
	impl := "err"
	if err == nil {
		impl = "ok " + hxs(v)
		s.Count("u:accepted")
		if len(lit) < 2 || lit[0] != '"' || lit[len(lit)-1] != '"' || strings.IndexByte(lit, '\n') >= 0 {
			s.Violate("unquote-accepts-malformed", "accepted literal is not '\"'…'\"' on one line: "+strconv.QuoteToASCII(lit), hxs(lit))
		}
		if u, err2 := strconv.Unquote(strconv.Quote(v)); err2 != nil || u != v {
			s.Violate("quote-roundtrip", fmt.Sprintf("Unquote(Quote(v)) = %q, %v for v = %q", u, err2, v), hxs(v))
		}
		if strings.IndexByte(lit, '\\') >= 0 || !utf8.ValidString(lit) {
			s.Nontrivial("u" + lit)
		}
	} else {
		s.Count("u:rejected")
	}
	if s.Evaluations%4999 == 2 {
		s.Sample(map[string]any{"op": "u", "literal_hex": hxs(lit), "literal": strconv.QuoteToASCII(lit), "answer": impl})
	}
	s.Line("u "+hxs(lit), impl)
}

// both directions for one string: Quote, and Unquote of the three quoting flavours
func (e *quoteEmitter) both(str string) {
	e.emitQ(str)
	e.emitU(strconv.Quote(str))
}

var quotePieces = []string{
	" ", "=", "\"", "\\", "\n", "\x7f", "\u0085", "\u00a0", "\u00ad", "\u2028", "\ufeff", "\ufffd",
	"\xff", "\xc0", "\xe2\x82", "\x80", "\xed\xa0\x80", "\xf4\x90\x80\x80", "\xf0\x9f\x98", "\xc3",
	"\x00", "\a", "\b", "\f", "\r", "\t", "\v", "\x1b", "\x1f", "a", "Z", "0", "'", "`", "\\n", "\\\"", "\\\\", "\"\"",
	"\u00e9", "\u4e16", "\U0001F600", "\U000E0001", "\U0010FFFF", "\u0378", "\U00010FFF", "\ud7ff", "\ue000", "\uffff", "\U00010000",
}

// alphabet for literal interiors: everything the escape grammar distinguishes
var quoteLitAlphabet = []string{
	"\\", "\"", "'", "\n", "a", "b", "f", "n", "r", "t", "v", "x", "u", "U", "0", "3", "4", "7", "8", "9", "A", "F", "G", "g", "z",
	" ", "\x00", "\x1f", "\x7f", "\x80", "\xff", "\xc3", "\xa9", "\xe2", "\x82", "\xac", "\xed", "\xa0", "\xf4", "\x90", "`", "d", "D", "1", "e",
}

var quoteHandLiterals = []string{
	// valid
	`""`, `"a"`, `"\a\b\f\n\r\t\v\\\""`, `"\x00"`, `"\xff"`, `"\xFf"`, `"\u00e9"`, `"\u00E9"`, `"\U0001F600"`, `"\U0010ffff"`,
	`"\000"`, `"\377"`, `"\101"`, `"\uffff"`, `"\ufffd"`, `"\ud7ff"`, `"\ue000"`, `"'"`, "\"`\"", `"\x41\u0041\U00000041\101A"`,
	"\"\xc3\xa9\"", "\"\xff\"", "\"\xc3\"", "\"a\xe2\x82\"", "\"\xed\xa0\x80\"", "\"\\n\xff\"", "\"\xef\xbf\xbd\"", `"\x80\xc3\xa9"`, `"\xc3\xa9"`, `"\303\251"`,
	// invalid
	``, `"`, `a`, `ab`, `"a`, `a"`, `"\'"`, `"\400"`, `"\777"`, `"\xZZ"`, `"\x4"`, `"\x"`, `"\u123"`, `"\u12G4"`, `"\U0001F60"`, `"\U00110000"`,
	`"\UFFFFFFFF"`, `"\U80000000"`, `"\ud800"`, `"\udfff"`, `"\uDBFF"`, "\"\n\"", "\"a\nb\"", `"\`, `"\"`, `"\\\"`, `"a"b"`, `"a""`, `""a`, `"" `, ` ""`,
	`"\08"`, `"\8"`, `"\9"`, `"\0"`, `"\00"`, `"\1a1"`, `"\c"`, `"\ "`, `"\e"`, `"\N"`, `"\X41"`, "\"\\\n\"", "\"\\\xff\"", `"\x4g"`, `"\x g"`, "\"\\x\xc3\xa9\"",
	"\"\r\"", "\"\x00\"", "\"\t\"", `"\u{41}"`, `"\x{41}"`, `"a\`, `"\\`, `"\\"`, `"\\\\"`, `"\\\`, "\"\\u00e9\n\"", "x\"a\"", "\"a\"\n",
}

func quoteSoup(r *Rng) string {
	switch r.Intn(10) {
	case 0:
		return string(r.Bytes(r.Intn(13)))
	case 1: // mostly ASCII
		b := r.Bytes(1 + r.Intn(10))
		for i := range b {
			b[i] &= 0x7f
		}
		return string(b)
	case 2: // valid UTF-8 of random scalars
		var sb strings.Builder
		for i, n := 0, 1+r.Intn(5); i < n; i++ {
			x := rune(r.Intn(0x110000))
			if r.Bool() {
				x = rune(r.Intn(0x3000))
			}
			if x >= 0xD800 && x <= 0xDFFF {
				x = 0xFFFD
			}
			sb.WriteRune(x)
		}
		return sb.String()
	}
	var sb strings.Builder
	for i, n := 0, 1+r.Intn(6); i < n; i++ {
		sb.WriteString(Pick(r, quotePieces))
	}
	return sb.String()
}

// quoteMutate: a literal near a valid one
func quoteMutate(r *Rng, lit string) string {
	b := []byte(lit)
	for k, n := 0, 1+r.Intn(2); k < n; k++ {
		switch r.Intn(4) {
		case 0: // delete
			if len(b) > 0 {
				i := r.Intn(len(b))
				b = append(b[:i:i], b[i+1:]...)
			}
		case 1: // insert
			i := r.Intn(len(b) + 1)
			ins := Pick(r, quoteLitAlphabet)
			b = append(b[:i:i], append([]byte(ins), b[i:]...)...)
		case 2: // replace
			if len(b) > 0 {
				b[r.Intn(len(b))] = Pick(r, quoteLitAlphabet)[0]
			}
		default: // truncate
			if len(b) > 0 {
				b = b[:r.Intn(len(b))]
			}
		}
	}
	return string(b)
}

func runQuote(cfg Cfg) {
	s := NewStream(cfg.Out, "quote")
	defer s.Close()
	s.Rule = "q: strconv.Quote(s) vs goQuote (+ model round trip and shape flags); u: strconv.Unquote(literal) vs goUnquote. Inputs: all 1- and 2-byte strings, every Unicode scalar (thorough; sampled in quick), every surrogate / overlong / truncated pattern, byte soup and hostile pieces; literals: Quote / QuoteToASCII / QuoteToGraphic outputs, all interiors of length <= 2 over all bytes and of <= 2 (quick) / 3 (thorough) symbols over a 45-symbol escape alphabet, bare and after each escape introducer, \\uXXXX for all 65536 values, hand-written valid and invalid literals and mutations of valid ones; non-trivial = Quote output that differs from '\"'+s+'\"', or an accepted literal with a backslash or invalid UTF-8; distinct by output / literal"
	e := &quoteEmitter{s: s}
	rng := NewRng(cfg.Seed)

	// strconv.IsPrint (consulted by Quote) and unicode.IsPrint (consulted by the text handler and
	// sent to the model) are the same function: every value, beyond MaxRune too
	for r := rune(0); r <= unicode.MaxRune+0x1000; r++ {
		if unicode.IsPrint(r) != strconv.IsPrint(r) {
			s.Violate("assumption-isprint-agree", fmt.Sprintf("unicode.IsPrint(%U)=%v but strconv.IsPrint=%v", r, unicode.IsPrint(r), strconv.IsPrint(r)), int(r))
		}
		if r < 0x20 && strconv.IsPrint(r) {
			s.Violate("assumption-printok", fmt.Sprintf("strconv.IsPrint(%U) is true for a control character (hypothesis PrintOK)", r), int(r))
		}
		if r < 0x80 && strconv.IsPrint(r) != (0x20 <= r && r <= 0x7e) {
			s.Violate("assumption-ascii-print", fmt.Sprintf("strconv.IsPrint(%U) differs from 0x20 <= r <= 0x7e (the driver's ASCII rule)", r), int(r))
		}
	}

	// fixed cases
	e.both("")
	for _, p := range quotePieces {
		e.both(p)
		e.both("a" + p + "b")
		e.both(p + p)
	}
	for _, l := range quoteHandLiterals {
		e.emitU(l)
	}
	// exhaustive: all 1- and 2-byte strings, as strings to quote and as literal interiors and as raw literals
	for a := 0; a < 256; a++ {
		str := string([]byte{byte(a)})
		e.both(str)
		e.emitU("\"" + str + "\"")
		e.emitU(str)
		e.emitU("\"\\" + str + "\"")
		e.emitU("\"\\" + str + "00\"")
		e.emitU("\"\\x" + str + "0\"")
		e.emitU("\"\\x0" + str + "\"")
		e.emitU("\"\\u00" + str + "0\"")
		e.emitU("\"\\U0000000" + str + "\"")
		e.emitU("\"\\0" + str + "7\"")
		e.emitU("\"\\37" + str + "\"")
	}
	for a := 0; a < 256; a++ {
		for b := 0; b < 256; b++ {
			str := string([]byte{byte(a), byte(b)})
			e.emitQ(str)
			e.emitU("\"" + str + "\"")
			e.emitU(str)
		}
	}
	// all \xNN and \NNN escapes, \uXXXX for every value
	for a := 0; a < 256; a++ {
		e.emitU(fmt.Sprintf("\"\\x%02x\"", a))
		e.emitU(fmt.Sprintf("\"\\x%02X\"", a))
	}
	for a := 0; a < 01000; a++ {
		e.emitU(fmt.Sprintf("\"\\%03o\"", a))
	}
	ustep := 1
	if !cfg.Thorough() {
		ustep = 7
	}
	for a := rng.Intn(ustep); a < 0x10000; a += ustep {
		e.emitU(fmt.Sprintf("\"\\u%04x\"", a))
	}
	for i, n := 0, cfg.N(3000, 60000); i < n; i++ {
		a := rng.U64() >> uint(32+rng.Intn(16))
		if rng.Bool() {
			e.emitU(fmt.Sprintf("\"\\U%08x\"", a))
		} else {
			e.emitU(fmt.Sprintf("\"a\\U%08Xb\"", a))
		}
	}
	// literal interiors over the escape alphabet
	var rec func(prefix string, n int)
	rec = func(prefix string, n int) {
		if n == 0 {
			e.emitU("\"" + prefix + "\"")
			return
		}
		for _, a := range quoteLitAlphabet {
			rec(prefix+a, n-1)
		}
	}
	if cfg.Thorough() {
		rec("", 3)
		rec("\\", 3) // every escape start followed by three alphabet symbols
		for _, a := range []string{"\\x", "\\u", "\\U", "\\0", "\\3", "\\u00", "\\U0000000", "\\U0010", "\\U0011", "\\ud"} {
			rec(a, 3)
		}
	} else {
		rec("", 2)
		rec("\\", 2)
		for _, a := range []string{"\\x", "\\u0", "\\U000000", "\\0", "\\3", "\\ud"} {
			rec(a, 2)
		}
	}

	// Unicode scalars, surrogate patterns
	if cfg.Thorough() {
		for r := rune(0); r <= unicode.MaxRune; r++ {
			if r >= 0xD800 && r <= 0xDFFF {
				e.both(string([]byte{0xED, byte(0xA0 | (r>>6)&0x1F), byte(0x80 | r&0x3F)}))
				continue
			}
			e.both(string(r))
			if r%16 == 3 {
				e.emitU(strconv.QuoteToASCII(string(r)))
			}
		}
		s.Exhaustive = true
		s.Notes = append(s.Notes, "exhaustive: all 1- and 2-byte strings (quoted, and as literal interiors and raw literals), every Unicode scalar and every surrogate pattern (Quote, and Unquote of the Quote output), all \\xNN, \\NNN and \\uXXXX escapes, all literal interiors of <= 3 symbols over the 45-symbol escape alphabet")
	} else {
		for i := 0; i < 30000; i++ {
			r := rune(rng.Intn(0x110000))
			if i%3 == 0 {
				r = rune(rng.Intn(0x3100))
			}
			if r >= 0xD800 && r <= 0xDFFF {
				e.both(string([]byte{0xED, byte(0xA0 | (r>>6)&0x1F), byte(0x80 | r&0x3F)}))
				continue
			}
			e.both(string(r))
		}
		s.Notes = append(s.Notes, "exhaustive: all 1- and 2-byte strings, all \\xNN and \\NNN escapes, all literal interiors of <= 2 symbols over the escape alphabet; Unicode scalars and \\uXXXX sampled (exhaustive in the thorough tier)")
	}
	// overlong, out of range, 5/6-byte leads; truncated forms of valid sequences with and without a follower
	for _, str := range []string{"\xf4\x90\x80\x80", "\xc0\x80", "\xc1\xbf", "\xe0\x80\x80", "\xe0\x9f\xbf", "\xf0\x80\x80\x80", "\xf0\x8f\xbf\xbf",
		"\xf8\x88\x80\x80\x80", "\xfc\x84\x80\x80\x80\x80", "\xfe", "\xff", "\xf5\x80\x80\x80", "\xf7\xbf\xbf\xbf"} {
		e.both(str)
		e.both("a" + str + "b")
		e.emitU("\"" + str + "\"")
	}
	for i, n := 0, cfg.N(4000, 40000); i < n; i++ {
		r := rune(0x80 + rng.Intn(0x110000-0x80))
		if r >= 0xD800 && r <= 0xDFFF {
			r = 0xFFFD
		}
		enc := string(r)
		cut := 1 + rng.Intn(len(enc)-1)
		tail := Pick(rng, []string{"", "a", "\"", "\\", "\x80", "\xbf", "\xc3", enc})
		e.both(enc[:cut] + tail)
		e.emitU("\"" + enc[:cut] + tail + "\"")
		e.both(enc + enc[cut:]) // stray continuation bytes after a complete sequence
	}
	// byte soup: strings to quote, the three quoting flavours as literals, mutated literals
	for i, n := 0, cfg.N(60000, 600000); i < n; i++ {
		str := quoteSoup(rng)
		e.emitQ(str)
		var lit string
		switch rng.Intn(4) {
		case 0:
			lit = strconv.QuoteToASCII(str)
		case 1:
			lit = strconv.QuoteToGraphic(str)
		case 2:
			lit = "\"" + str + "\"" // raw interior, escapes only by accident
		default:
			lit = strconv.Quote(str)
		}
		e.emitU(lit)
		e.emitU(quoteMutate(rng, lit))
		if i%5 == 0 {
			e.emitU(quoteMutate(rng, Pick(rng, quoteHandLiterals)))
		}
	}
	s.Notes = append(s.Notes, "not sent: literals starting with '`' or '\\'' (the model is restricted to double-quoted literals)")
}
