package main

// Stream "aux": small pure (or almost pure) functions of /repo that no listed property covers by
// itself, driven through the public API and compared with the Lean models `Glb.Aux.*`
// (Glb/Model/Aux*.lean, theorems in Glb/Props/AuxFns.lean), each with a direct oracle that restates
// the documented behaviour independently of the Lean model:
//
//	A  logger.argsToAttrs      through logger.New(h).With(args...) and .Info(msg, args...) with a
//	                           capturing logger.Handler; oracle: slog's own Logger.With / Record.Add
//	                           (the doc comment says "equivalent to slog.argsToAttrs()")
//	B  logger.appendDateTime   (appendIntWidth2/4) through NanoHandler.Handle with records of chosen
//	                           times; oracle: time.Format("2006-01-02 15:04:05") for years 0..9999
//	C  netutil.FirstIP/LastIP  oracle: both ends contained, random members lie between, neighbours
//	                           outside (CIDR masks), integer arithmetic for the 4-byte form, the
//	                           argument is not modified;  netutil.SplitHostPort: oracle
//	                           net.SplitHostPort wherever that accepts, JoinHostPort round trip
//	D  strutil.Camelize / IsDigitString / SliceContain / Underscore (Underscore: model of C09)
//	E  fsutil.ExpandHomeDir    with $HOME set / unset by the harness (restored afterwards)
//	F  httpd.Store.GetClientIP / CookieValue on real http.Request values
//
// Quick: exhaustive small domains + random; thorough: larger exhaustive domains.

import (
	"bytes"
	"context"
	"encoding/binary"
	"errors"
	"fmt"
	"log/slog"
	"math"
	"net"
	"net/http"
	"os"
	"path/filepath"
	"regexp"
	"slices"
	"sort"
	"strings"
	"time"

	"github.com/whoisnian/glb/httpd"
	"github.com/whoisnian/glb/logger"
	"github.com/whoisnian/glb/util/fsutil"
	"github.com/whoisnian/glb/util/netutil"
	"github.com/whoisnian/glb/util/strutil"
)

func init() { streams["aux"] = runAux }

func runAux(cfg Cfg) {
	s := NewStream(cfg.Out, "aux")
	defer s.Close()
	s.Rule = "argument lists over 9 argument shapes (all lists up to length 4 quick / 5 thorough, random up to 9); record times (every year 0..9999, every second of a day, out-of-range years); IP/mask pairs in 4-, 16-byte, mapped and mixed forms with every prefix length; every string up to length 7 (quick) / 8 (thorough) over {: [ ] a 1} for SplitHostPort; every string up to length 4 (quick) / 5 (thorough) over a 12-byte alphabet for the strutil functions; every string up to length 5 (quick) / 7 (thorough) over {~ / \\ . a} times 7 values of $HOME; all combinations of 6 values of the three client-IP headers and 8 remote addresses; non-trivial = an input that takes the non-default branch (a string key or !BADKEY, a date, a network with host bits, an address with a colon, an input with a separator or letter, an expanded path, a request with one of the headers, a present cookie) (distinct inputs)"
	rng := NewRng(cfg.Seed)
	auxArgs(cfg, s, rng.Fork())
	auxDateTime(cfg, s, rng.Fork())
	auxIPs(cfg, s, rng.Fork())
	auxSplit(cfg, s, rng.Fork())
	auxStr(cfg, s, rng.Fork())
	auxHome(cfg, s, rng.Fork())
	auxHTTP(cfg, s, rng.Fork())
	s.Exhaustive = false
}

// =============================================================================================
// A. argsToAttrs

// auxCapture is a logger.Handler that records the attributes it is given.
type auxCapture struct {
	with    *[][]slog.Attr // every WithAttrs call
	handled *[][]slog.Attr // attributes of every handled record
}

func newAuxCapture() *auxCapture {
	return &auxCapture{with: new([][]slog.Attr), handled: new([][]slog.Attr)}
}
func (c *auxCapture) Enabled(slog.Level) bool { return true }
func (c *auxCapture) IsDebug() bool           { return true }
func (c *auxCapture) IsColorful() bool        { return false }
func (c *auxCapture) IsAddSource() bool       { return false }
func (c *auxCapture) WithAttrs(as []slog.Attr) logger.Handler {
	*c.with = append(*c.with, slices.Clone(as))
	return c
}
func (c *auxCapture) WithGroup(string) logger.Handler { return c }
func (c *auxCapture) Handle(_ context.Context, r slog.Record) error {
	var as []slog.Attr
	r.Attrs(func(a slog.Attr) bool { as = append(as, a); return true })
	*c.handled = append(*c.handled, as)
	return nil
}

// auxSlogCapture is the same for the standard library's slog.Logger (the oracle).
type auxSlogCapture struct{ c *auxCapture }

func (h auxSlogCapture) Enabled(context.Context, slog.Level) bool { return true }
func (h auxSlogCapture) WithAttrs(as []slog.Attr) slog.Handler {
	h.c.WithAttrs(as)
	return h
}
func (h auxSlogCapture) WithGroup(string) slog.Handler { return h }
func (h auxSlogCapture) Handle(ctx context.Context, r slog.Record) error {
	return h.c.Handle(ctx, r)
}

type auxStruct struct{ N int }

// auxArg is one generated argument: the Go value and its wire token for the Lean driver.
type auxArg struct {
	v   any
	tok string // s:<hex> | a:<hexkey>:<valtok> | o:<valtok>
}

// auxValTok renders a slog.Value canonically (the <valtok> of the wire format).
func auxValTok(v slog.Value) string {
	switch v.Kind() {
	case slog.KindString:
		return "s" + hxs(v.String())
	case slog.KindInt64:
		return fmt.Sprintf("i%d", v.Int64())
	case slog.KindUint64:
		return fmt.Sprintf("u%d", v.Uint64())
	case slog.KindFloat64:
		return fmt.Sprintf("f%x", math.Float64bits(v.Float64()))
	case slog.KindBool:
		if v.Bool() {
			return "b1"
		}
		return "b0"
	case slog.KindDuration:
		return fmt.Sprintf("d%d", int64(v.Duration()))
	case slog.KindTime:
		return fmt.Sprintf("t%d", v.Time().UnixNano())
	case slog.KindGroup:
		parts := make([]string, 0, len(v.Group()))
		for _, a := range v.Group() {
			parts = append(parts, hxs(a.Key)+"="+auxValTok(a.Value))
		}
		return "g[" + strings.Join(parts, ";") + "]"
	case slog.KindAny:
		switch x := v.Any().(type) {
		case nil:
			return "n"
		case slog.Attr:
			return "A(" + hxs(x.Key) + "=" + auxValTok(x.Value) + ")"
		case error:
			return "e" + hxs(x.Error())
		case []byte:
			return "y" + hx(x)
		case auxStruct:
			return fmt.Sprintf("T%d", x.N)
		default:
			return fmt.Sprintf("?%T", x)
		}
	default:
		return "?kind" + v.Kind().String()
	}
}

func auxAttrsLine(as []slog.Attr) string {
	if len(as) == 0 {
		return "-"
	}
	parts := make([]string, len(as))
	for i, a := range as {
		parts[i] = hxs(a.Key) + "=" + auxValTok(a.Value)
	}
	return strings.Join(parts, " ")
}

// the fixed argument shapes of the exhaustive enumeration
func auxArgShapes() []auxArg {
	return []auxArg{
		{"k", "s:" + hxs("k")},
		{"!BADKEY", "s:" + hxs("!BADKEY")},
		{"", "s:-"},
		{slog.Int("a", 7), "a:" + hxs("a") + ":i7"},
		{slog.Attr{Key: "g", Value: slog.GroupValue()}, "a:" + hxs("g") + ":g[]"},
		{42, "o:i42"},
		{nil, "o:n"},
		{[]slog.Attr{}, "o:g[]"},
		{auxStruct{3}, "o:T3"},
	}
}

func auxRandomArg(r *Rng) auxArg {
	keys := []string{"k", "key2", "", "!BADKEY", "a b", "é", "x=y", "\x00\xff"}
	randVal := func() (slog.Value, string) {
		switch r.Intn(6) {
		case 0:
			n := int64(r.Intn(2000)) - 1000
			return slog.Int64Value(n), fmt.Sprintf("i%d", n)
		case 1:
			str := Pick(r, keys)
			return slog.StringValue(str), "s" + hxs(str)
		case 2:
			return slog.GroupValue(), "g[]"
		case 3:
			return slog.GroupValue(slog.Int("in", 1)), "g[" + hxs("in") + "=i1]"
		case 4:
			return slog.BoolValue(true), "b1"
		default:
			return slog.AnyValue(nil), "n"
		}
	}
	switch r.Intn(14) {
	case 0, 1, 2, 3:
		k := Pick(r, keys)
		return auxArg{k, "s:" + hxs(k)}
	case 4, 5, 6:
		k := Pick(r, keys)
		v, t := randVal()
		return auxArg{slog.Attr{Key: k, Value: v}, "a:" + hxs(k) + ":" + t}
	case 7:
		n := r.Intn(100)
		return auxArg{n, fmt.Sprintf("o:i%d", n)}
	case 8:
		n := uint64(r.U64())
		return auxArg{n, fmt.Sprintf("o:u%d", n)}
	case 9:
		f := float64(r.Intn(1000)) / 8
		return auxArg{f, fmt.Sprintf("o:f%x", math.Float64bits(f))}
	case 10:
		switch r.Intn(4) {
		case 0:
			return auxArg{nil, "o:n"}
		case 1:
			return auxArg{false, "o:b0"}
		case 2:
			d := time.Duration(r.Intn(5000))
			return auxArg{d, fmt.Sprintf("o:d%d", int64(d))}
		default:
			return auxArg{errors.New("boom"), "o:e" + hxs("boom")}
		}
	case 11:
		b := r.Bytes(r.Intn(4))
		return auxArg{b, "o:y" + hx(b)}
	case 12:
		if r.Bool() {
			return auxArg{[]slog.Attr{}, "o:g[]"}
		}
		return auxArg{[]slog.Attr{slog.String("x", "y")}, "o:g[" + hxs("x") + "=s" + hxs("y") + "]"}
	default:
		n := r.Intn(9)
		return auxArg{auxStruct{n}, fmt.Sprintf("o:T%d", n)}
	}
}

// auxRefPairing restates the doc comment of argsToAttrs as a recursion (independent of the loop).
func auxRefPairing(args []any) []slog.Attr {
	if len(args) == 0 {
		return nil
	}
	if a, ok := args[0].(slog.Attr); ok { // "If args[i] is an Attr, it is used as is."
		return append([]slog.Attr{a}, auxRefPairing(args[1:])...)
	}
	if k, ok := args[0].(string); ok && len(args) > 1 { // "a string and is not the last argument"
		return append([]slog.Attr{{Key: k, Value: slog.AnyValue(args[1])}}, auxRefPairing(args[2:])...)
	}
	// "Otherwise, the args[i] is treated as slog.Attr{"!BADKEY", args[i]}."
	return append([]slog.Attr{{Key: "!BADKEY", Value: slog.AnyValue(args[0])}}, auxRefPairing(args[1:])...)
}

func auxSameAttrs(a, b []slog.Attr) bool {
	return auxAttrsLine(a) == auxAttrsLine(b) && len(a) == len(b)
}

func auxArgsCase(s *Stream, list []auxArg) {
	args := make([]any, len(list))
	toks := make([]string, len(list))
	for i, a := range list {
		args[i], toks[i] = a.v, a.tok
	}
	opTail := ""
	if len(toks) > 0 {
		opTail = " " + strings.Join(toks, " ")
	}
	replay := map[string]any{"args": toks}

	// real code: With
	c := newAuxCapture()
	base := logger.New(c)
	derived := base.With(args...)
	var withAttrs []slog.Attr
	switch {
	case len(args) == 0:
		if derived != base || len(*c.with) != 0 {
			s.Violate("args-with-empty", "With() without arguments must return the origin Logger and not call WithAttrs", replay)
		}
	case len(*c.with) != 1:
		s.Violate("args-with-calls", fmt.Sprintf("With(args...) called WithAttrs %d times", len(*c.with)), replay)
	default:
		withAttrs = (*c.with)[0]
	}
	s.Line("with"+opTail, auxAttrsLine(withAttrs))

	// real code: Info
	c2 := newAuxCapture()
	logger.New(c2).Info("msg", args...)
	var infoAttrs []slog.Attr
	if len(*c2.handled) != 1 {
		s.Violate("args-info-calls", fmt.Sprintf("Info handled %d records", len(*c2.handled)), replay)
	} else {
		infoAttrs = (*c2.handled)[0]
	}
	s.Line("info"+opTail, auxAttrsLine(infoAttrs))
	s.Evaluations += 2

	// oracle 1: the documented rule
	ref := auxRefPairing(args)
	if !auxSameAttrs(ref, withAttrs) {
		s.Violate("args-doc-rule", fmt.Sprintf("With: got [%s], the documented pairing gives [%s]", auxAttrsLine(withAttrs), auxAttrsLine(ref)), replay)
	}
	// oracle 2: the standard library on the same arguments
	c3 := newAuxCapture()
	sl := slog.New(auxSlogCapture{c3})
	sl.With(args...)
	var slogWith []slog.Attr
	if len(*c3.with) == 1 {
		slogWith = (*c3.with)[0]
	}
	if !auxSameAttrs(slogWith, withAttrs) {
		s.Violate("args-vs-slog", fmt.Sprintf("Logger.With hands [%s] to WithAttrs, slog.Logger.With hands [%s]", auxAttrsLine(withAttrs), auxAttrsLine(slogWith)), replay)
	}
	sl.Info("msg", args...)
	if len(*c3.handled) == 1 && !auxSameAttrs((*c3.handled)[0], infoAttrs) {
		s.Violate("args-info-vs-slog", fmt.Sprintf("Logger.Info record has [%s], slog.Logger.Info record has [%s]", auxAttrsLine(infoAttrs), auxAttrsLine((*c3.handled)[0])), replay)
	}
	// oracle 3: With and Info agree up to empty groups (dropped by Record.Add)
	var kept []slog.Attr
	for _, a := range withAttrs {
		if a.Value.Kind() == slog.KindGroup && len(a.Value.Group()) == 0 {
			continue
		}
		kept = append(kept, a)
	}
	if !auxSameAttrs(kept, infoAttrs) {
		s.Violate("args-with-vs-info", fmt.Sprintf("With gives [%s], Info gives [%s]: they differ by more than empty groups", auxAttrsLine(withAttrs), auxAttrsLine(infoAttrs)), replay)
	}
	// oracle 4: every Attr argument in key position arrives unchanged; count bounds
	if n := len(withAttrs); n > len(args) || 2*n < len(args) {
		s.Violate("args-count", fmt.Sprintf("%d arguments gave %d attributes", len(args), n), replay)
	}
	nontriv := false
	for _, a := range list {
		if strings.HasPrefix(a.tok, "s:") || strings.HasPrefix(a.tok, "o:") {
			nontriv = true
		}
	}
	if nontriv {
		s.Nontrivial("args " + strings.Join(toks, " "))
	}
	s.Count(fmt.Sprintf("args.len=%d", min(len(list), 6)))
}

func auxArgs(cfg Cfg, s *Stream, r *Rng) {
	shapes := auxArgShapes()
	// the tokens of the table are written by hand: check them against the real slog values once
	for _, a := range shapes {
		switch {
		case strings.HasPrefix(a.tok, "o:"):
			if got := auxValTok(slog.AnyValue(a.v)); got != a.tok[2:] {
				fatal(fmt.Errorf("aux: token table: %s renders as %s", a.tok, got))
			}
		}
	}
	maxLen := cfg.N(4, 5)
	var rec func(prefix []auxArg)
	rec = func(prefix []auxArg) {
		auxArgsCase(s, prefix)
		if len(prefix) == maxLen {
			return
		}
		for _, a := range shapes {
			rec(append(prefix[:len(prefix):len(prefix)], a))
		}
	}
	rec(nil)
	for i, n := 0, cfg.N(10000, 100000); i < n; i++ {
		l := make([]auxArg, r.Intn(10))
		for j := range l {
			l[j] = auxRandomArg(r)
			if strings.HasPrefix(l[j].tok, "o:") {
				if got := auxValTok(slog.AnyValue(l[j].v)); got != l[j].tok[2:] {
					fatal(fmt.Errorf("aux: generator token %s renders as %s", l[j].tok, got))
				}
			}
		}
		auxArgsCase(s, l)
		if i == 7 {
			toks := make([]string, len(l))
			for j := range l {
				toks[j] = l[j].tok
			}
			s.Sample(map[string]any{"args": toks})
		}
	}
}

// =============================================================================================
// B. appendDateTime through NanoHandler.Handle

type auxBuf struct{ data []byte }

func (b *auxBuf) Write(p []byte) (int, error) { b.data = append(b.data, p...); return len(p), nil }

func auxNanoPrefix(t time.Time) (out string) {
	w := &auxBuf{}
	h := logger.NewNanoHandler(w, logger.NewOptions(logger.LevelDebug, false, false))
	defer func() {
		if r := recover(); r != nil {
			out = "panic"
		}
	}()
	r := slog.NewRecord(t, logger.LevelInfo, "m", 0)
	if err := h.Handle(context.Background(), r); err != nil {
		return "error:" + err.Error()
	}
	// "<19 bytes> [I] m\n"
	i := bytes.Index(w.data, []byte(" [I] m\n"))
	if i < 0 {
		return "noline:" + hx(w.data)
	}
	return hx(w.data[:i])
}

func auxDateCase(s *Stream, t time.Time) {
	y, mo, d := t.Date()
	h, mi, sec := t.Clock()
	got := auxNanoPrefix(t)
	s.Line(fmt.Sprintf("dt %d %d %d %d %d %d", y, int(mo), d, h, mi, sec), got)
	s.Evaluations++
	replay := map[string]any{"time": t.Format(time.RFC3339Nano), "year": y}
	if 0 <= y && y <= 9999 {
		want := t.Format("2006-01-02 15:04:05")
		if got != hxs(want) {
			s.Violate("datetime-format", fmt.Sprintf("NanoHandler wrote time %q for %s, time.DateTime layout gives %q", got, t.Format(time.RFC3339Nano), want), replay)
		}
		s.Nontrivial(fmt.Sprintf("dt %d-%d-%d %d:%d:%d", y, mo, d, h, mi, sec))
		s.Count("datetime.in-range")
	} else {
		// observation, not a property violation: the fixed-width writer cannot render the year
		if got == "panic" {
			s.Count("datetime.out-of-range-year.panics")
		} else {
			s.Count("datetime.out-of-range-year.no-panic")
		}
	}
}

func auxDateTime(cfg Cfg, s *Stream, r *Rng) {
	locs := []*time.Location{time.UTC, time.FixedZone("p", 8*3600), time.FixedZone("m", -(9*3600 + 30*60))}
	// every year
	for y := 0; y <= 9999; y++ {
		auxDateCase(s, time.Date(y, time.Month(1+r.Intn(12)), 1+r.Intn(28), r.Intn(24), r.Intn(60), r.Intn(60), r.Intn(1e9), Pick(r, locs)))
	}
	for _, y := range []int{0, 1, 9, 10, 99, 100, 999, 1000, 1970, 2023, 9999} {
		auxDateCase(s, time.Date(y, 12, 31, 23, 59, 59, 999999999, time.UTC))
		auxDateCase(s, time.Date(y, 1, 1, 0, 0, 0, 0, time.UTC))
	}
	// every day of a leap year and a common year
	for _, y := range []int{2024, 2023} {
		for d := 0; d < 366; d++ {
			auxDateCase(s, time.Date(y, 1, 1+d, 12, 0, 0, 0, time.UTC))
		}
	}
	// every second of a day (thorough) / every 7th (quick)
	for sec := 0; sec < 86400; sec += cfg.N(7, 1) {
		auxDateCase(s, time.Date(2023, 8, 16, 0, 0, sec, 0, time.UTC))
	}
	// the zero time and random instants
	auxDateCase(s, time.Time{})
	for i, n := 0, cfg.N(2000, 20000); i < n; i++ {
		auxDateCase(s, time.Unix(int64(r.U64()%(253402300800+62135596800))-62135596800, int64(r.Intn(1e9))).In(Pick(r, locs)))
	}
	// out of the documented range
	for _, y := range []int{10000, 10001, 12345, 99999, 100000, -1, -99, -100, -101, -9999, -10000} {
		auxDateCase(s, time.Date(y, 6, 15, 12, 30, 45, 0, time.UTC))
	}
	s.Sample(map[string]any{"time": "2023-08-16T00:35:15Z", "nano_prefix_hex": auxNanoPrefix(time.Date(2023, 8, 16, 0, 35, 15, 0, time.UTC))})
}

// =============================================================================================
// C. FirstIP / LastIP / SplitHostPort

func auxIPStr(ip net.IP) string {
	if ip == nil {
		return "nil"
	}
	return hx(ip)
}

func auxFirst(n *net.IPNet) (out string) {
	defer func() {
		if r := recover(); r != nil {
			out = "panic"
		}
	}()
	return auxIPStr(netutil.FirstIP(n))
}

func auxLast(n *net.IPNet) (out string) {
	defer func() {
		if r := recover(); r != nil {
			out = "panic"
		}
	}()
	return auxIPStr(netutil.LastIP(n))
}

func auxIsCIDRMask(m net.IPMask) bool {
	ones, bits := m.Size()
	return !(ones == 0 && bits == 0)
}

// auxAddOne returns ip+1 / ip-1 as big-endian byte strings, ok=false on wrap-around.
func auxStepIP(ip []byte, up bool) ([]byte, bool) {
	out := slices.Clone(ip)
	for i := len(out) - 1; i >= 0; i-- {
		if up {
			out[i]++
			if out[i] != 0 {
				return out, true
			}
		} else {
			out[i]--
			if out[i] != 0xff {
				return out, true
			}
		}
	}
	return out, false
}

func auxIPCase(s *Stream, r *Rng, ip net.IP, mask net.IPMask, kind string) {
	ipCopy, maskCopy := slices.Clone(ip), slices.Clone(mask)
	n := &net.IPNet{IP: ip, Mask: mask}
	first := auxFirst(n)
	last := auxLast(n)
	s.Line("first "+hx(ipCopy)+" "+hx(maskCopy), first)
	s.Line("last "+hx(ipCopy)+" "+hx(maskCopy), last)
	s.Evaluations += 2
	s.Count("ip." + kind)
	replay := map[string]any{"ip_hex": hx(ipCopy), "mask_hex": hx(maskCopy)}
	if !bytes.Equal(ip, ipCopy) || !bytes.Equal(mask, maskCopy) {
		s.Violate("ip-argument-modified", fmt.Sprintf("FirstIP/LastIP changed their argument: ip %x -> %x, mask %x -> %x", ipCopy, ip, maskCopy, mask), replay)
	}
	if kind != "same" && kind != "mapped" && kind != "parsed" {
		return // mixed / mismatched forms: correspondence only (documented as observation)
	}
	if first == "panic" || last == "panic" || first == "nil" || last == "nil" {
		s.Violate("ip-panic", fmt.Sprintf("FirstIP=%s LastIP=%s for a well-formed network", first, last), replay)
		return
	}
	f, l := netutil.FirstIP(n), netutil.LastIP(n)
	if len(f) != len(mask) || len(l) != len(mask) {
		s.Violate("ip-form", fmt.Sprintf("network %x/%x: FirstIP %x and LastIP %x must have the byte length of the mask", ipCopy, maskCopy, []byte(f), []byte(l)), replay)
		return
	}
	if len(ip) != 4 && len(ip) != 16 {
		return // IPNet.Contains understands 4- and 16-byte addresses only
	}
	s.Nontrivial("ip " + hx(ipCopy) + "/" + hx(maskCopy))
	if !n.Contains(f) || !n.Contains(l) {
		s.Violate("ip-ends-contained", fmt.Sprintf("network %v: FirstIP %v contained=%v, LastIP %v contained=%v", n, f, n.Contains(f), l, n.Contains(l)), replay)
	}
	// members lie between the ends
	for k := 0; k < 4; k++ {
		x := make(net.IP, len(f))
		rb := r.Bytes(len(f))
		for i := range x {
			x[i] = f[i] | (rb[i] &^ mask[len(mask)-len(f)+i])
		}
		if !n.Contains(x) {
			continue
		}
		if bytes.Compare(f, x) > 0 || bytes.Compare(x, l) > 0 {
			s.Violate("ip-order", fmt.Sprintf("network %v contains %v, which is not between FirstIP %v and LastIP %v", n, x, f, l), replay)
		}
	}
	if auxIsCIDRMask(mask) {
		if b, ok := auxStepIP(f, false); ok && n.Contains(b) {
			s.Violate("ip-first-not-lowest", fmt.Sprintf("network %v: %v (FirstIP-1) is contained", n, net.IP(b)), replay)
		}
		if a, ok := auxStepIP(l, true); ok && n.Contains(a) {
			s.Violate("ip-last-not-highest", fmt.Sprintf("network %v: %v (LastIP+1) is contained", n, net.IP(a)), replay)
		}
	}
	if len(f) == 4 && len(mask) == 4 {
		a := binary.BigEndian.Uint32(ipCopy[len(ipCopy)-4:])
		m := binary.BigEndian.Uint32(mask)
		if binary.BigEndian.Uint32(f) != a&m || binary.BigEndian.Uint32(l) != a&m|^m {
			s.Violate("ip-arith", fmt.Sprintf("network %v: FirstIP %v LastIP %v, arithmetic gives %08x %08x", n, f, l, a&m, a&m|^m), replay)
		}
	}
}

func auxIPs(cfg Cfg, s *Stream, r *Rng) {
	reps := cfg.N(6, 60)
	for rep := 0; rep < reps; rep++ {
		for ones := 0; ones <= 32; ones++ {
			auxIPCase(s, r, net.IP(r.Bytes(4)), net.CIDRMask(ones, 32), "same")
			auxIPCase(s, r, net.IP(r.Bytes(4)).To16(), net.CIDRMask(ones, 32), "mapped")
			// 4-byte IP with the 16-byte form of the mask: Mask converts, LastIP does not
			auxIPCase(s, r, net.IP(r.Bytes(4)), net.CIDRMask(96+ones, 128), "mixed-4-16")
		}
		for ones := 0; ones <= 128; ones++ {
			auxIPCase(s, r, net.IP(r.Bytes(16)), net.CIDRMask(ones, 128), "same")
		}
		// arbitrary (non-contiguous) masks
		auxIPCase(s, r, net.IP(r.Bytes(4)), net.IPMask(r.Bytes(4)), "same")
		auxIPCase(s, r, net.IP(r.Bytes(16)), net.IPMask(r.Bytes(16)), "same")
		// mismatched lengths: Mask returns nil
		auxIPCase(s, r, net.IP(r.Bytes(4)), net.IPMask(r.Bytes(16)), "mismatch")
		auxIPCase(s, r, net.IP(r.Bytes(16)), net.IPMask(r.Bytes(4)), "mismatch")
		auxIPCase(s, r, net.IP(r.Bytes(r.Intn(6))), net.IPMask(r.Bytes(r.Intn(6))), "odd-length")
		l := r.Intn(7)
		auxIPCase(s, r, net.IP(r.Bytes(l)), net.IPMask(r.Bytes(l)), "same")
		auxIPCase(s, r, nil, net.CIDRMask(8, 32), "nil-ip")
		auxIPCase(s, r, net.IP(r.Bytes(4)), nil, "nil-mask")
	}
	for _, c := range []string{"192.0.2.77/24", "10.0.0.0/8", "0.0.0.0/0", "255.255.255.255/32", "2001:db8::1/32", "::/0", "fe80::1/64", "::ffff:1.2.3.4/120", "1.2.3.4/31"} {
		_, n, err := net.ParseCIDR(c)
		if err != nil {
			fatal(err)
		}
		auxIPCase(s, r, n.IP, n.Mask, "parsed")
		ip, n2, _ := net.ParseCIDR(c)
		auxIPCase(s, r, ip, n2.Mask, "mixed-parse-ip") // ParseCIDR's first result is always 16 bytes
	}
	_, n, _ := net.ParseCIDR("192.0.2.77/24")
	s.Sample(map[string]any{"cidr": "192.0.2.77/24", "FirstIP": netutil.FirstIP(n).String(), "LastIP": netutil.LastIP(n).String()})
}

func auxSplitCall(addr string) (out string, h, p string) {
	defer func() {
		if r := recover(); r != nil {
			out = "panic"
		}
	}()
	h, p = netutil.SplitHostPort(addr)
	return hxs(h) + " " + hxs(p), h, p
}

func auxSplitCase(s *Stream, addr string) {
	out, h, p := auxSplitCall(addr)
	s.Line("split "+hxs(addr), out)
	s.Evaluations++
	replay := map[string]any{"addr_hex": hxs(addr), "addr": addr}
	if out == "panic" {
		s.Violate("split-panic", fmt.Sprintf("SplitHostPort(%q) panicked", addr), replay)
		return
	}
	if strings.Contains(addr, ":") {
		s.Nontrivial("split " + addr)
	}
	// documented: splits "host:port" or "[host]:port" into host and port
	if strings.Contains(p, ":") {
		s.Violate("split-port-colon", fmt.Sprintf("SplitHostPort(%q): port %q contains a colon", addr, p), replay)
	}
	if !strings.Contains(addr, ":") {
		if h != addr || p != "" {
			s.Violate("split-nocolon", fmt.Sprintf("SplitHostPort(%q) = (%q, %q), want (%q, \"\")", addr, h, p, addr), replay)
		}
	} else if h+":"+p != addr && "["+h+"]:"+p != addr {
		s.Violate("split-recompose", fmt.Sprintf("SplitHostPort(%q) = (%q, %q): neither host:port nor [host]:port gives the input back", addr, h, p), replay)
	}
	// the strict standard-library function, wherever it accepts the input
	if sh, sp, err := net.SplitHostPort(addr); err == nil {
		s.Count("split.std-accepts")
		if sh != h || sp != p {
			s.Violate("split-vs-std", fmt.Sprintf("SplitHostPort(%q) = (%q, %q), net.SplitHostPort = (%q, %q)", addr, h, p, sh, sp), replay)
		}
	}
}

func auxSplit(cfg Cfg, s *Stream, r *Rng) {
	allStrings([]byte{':', '[', ']', 'a', '1'}, cfg.N(7, 8), func(b []byte) { auxSplitCase(s, string(b)); s.Count("split.exhaustive") })
	for _, a := range []string{"", ":", "::", "[::1]:80", "[::1]", "::1", "127.0.0.1:8080", "localhost", "[fe80::1%eth0]:443", "[a]:1", "[]:", "[:", "]:", "a]:1", "[a:1", "host:port:extra", "é:1", "\x00:\xff"} {
		auxSplitCase(s, a)
	}
	hosts := []string{"", "h", "1.2.3.4", "::1", "fe80::1%lo", "[", "]", "[x", "x]", "a.b", "2001:db8::2"}
	ports := []string{"", "0", "80", "http", "65536", " "}
	for _, h := range hosts {
		for _, p := range ports {
			j := net.JoinHostPort(h, p)
			auxSplitCase(s, j)
			gh, gp := netutil.SplitHostPort(j)
			bracketed := len(h) >= 2 && h[0] == '[' && h[len(h)-1] == ']'
			if !bracketed && (gh != h || gp != p) {
				s.Violate("split-join-roundtrip", fmt.Sprintf("SplitHostPort(JoinHostPort(%q, %q) = %q) = (%q, %q)", h, p, j, gh, gp),
					map[string]any{"host": h, "port": p})
			}
		}
	}
	for i, n := 0, cfg.N(4000, 40000); i < n; i++ {
		b := r.Bytes(r.Intn(12))
		for j := range b {
			if r.Chance(30) {
				b[j] = Pick(r, []byte{':', '[', ']'})
			}
		}
		auxSplitCase(s, string(b))
		s.Count("split.random")
	}
}

// =============================================================================================
// D. strutil

var auxStrAlphabet = []byte{'a', 'b', 'Z', 'A', '0', '9', '_', '-', ' ', '.', 0xff, '@'}

var auxAlnumRun = regexp.MustCompile(`[A-Za-z0-9]+`)
var auxDigits = regexp.MustCompile(`^[0-9]+$`)

// auxRefCamelize restates the documented behaviour by words: the maximal runs of ASCII letters and
// digits are lower-cased and concatenated; the first letter of every run but the first is
// capitalised, that of the first run iff upper.
func auxRefCamelize(in string, upper bool) string {
	var out []byte
	for j, run := range auxAlnumRun.FindAllString(in, -1) {
		w := []byte(strings.ToLower(run))
		if j > 0 || upper {
			for i, c := range w {
				if 'a' <= c && c <= 'z' {
					w[i] = c - 'a' + 'A'
					break
				}
			}
		}
		out = append(out, w...)
	}
	return string(out)
}

func auxStrCase(s *Stream, in string) {
	h := hxs(in)
	replay := map[string]any{"input_hex": h, "input": in}
	for _, up := range []bool{false, true} {
		flag := "0"
		if up {
			flag = "1"
		}
		c := strutil.Camelize(in, up)
		s.Line("camel "+h+" "+flag, hxs(c))
		s.Line("under "+h+" "+flag, hxs(strutil.Underscore(in, up)))
		s.Evaluations += 2
		if want := auxRefCamelize(in, up); c != want {
			s.Violate("camelize-words", fmt.Sprintf("Camelize(%q, %v) = %q, the word rule gives %q", in, up, c, want), replay)
		}
		for i := 0; i < len(c); i++ {
			if !('a' <= c[i] && c[i] <= 'z' || 'A' <= c[i] && c[i] <= 'Z' || '0' <= c[i] && c[i] <= '9') {
				s.Violate("camelize-alnum", fmt.Sprintf("Camelize(%q, %v) = %q contains byte %#x", in, up, c, c[i]), replay)
				break
			}
		}
		c2 := strutil.Camelize(c, up)
		if c3 := strutil.Camelize(c2, up); c3 != c2 {
			s.Violate("camelize-stable", fmt.Sprintf("Camelize applied 2 and 3 times to %q (upper=%v) differ: %q vs %q", in, up, c2, c3), replay)
		}
		if c2 != c {
			s.Count("camelize.second-application-differs")
		}
	}
	d := strutil.IsDigitString(in)
	s.Line("isdigit "+h, fmt.Sprint(d))
	s.Evaluations++
	if d != auxDigits.MatchString(in) {
		s.Violate("isdigit", fmt.Sprintf("IsDigitString(%q) = %v, ^[0-9]+$ matches: %v", in, d, !d), replay)
	}
	if strings.ContainsAny(in, "_- .@\xff") || strings.ContainsAny(in, "abZA") {
		s.Nontrivial("str " + in)
	}
}

func auxContainCase(s *Stream, list []string, v string) {
	got := strutil.SliceContain(list, v)
	op := "contain " + hxs(v)
	for _, x := range list {
		op += " " + hxs(x)
	}
	s.Line(op, fmt.Sprint(got))
	s.Evaluations++
	if got != slices.Contains(list, v) {
		s.Violate("slicecontain", fmt.Sprintf("SliceContain(%q, %q) = %v", list, v, got), map[string]any{"list": list, "value": v})
	}
	if got {
		s.Nontrivial(op)
	}
}

func auxStr(cfg Cfg, s *Stream, r *Rng) {
	allStrings(auxStrAlphabet, cfg.N(4, 5), func(b []byte) { auxStrCase(s, string(b)); s.Count("str.exhaustive") })
	for _, x := range []string{"user_id", "UserName", "_csrf_token", "::Net::HTTP", "accept-encoding", "SHA256 hash", "s3 access key", "9P protocol",
		"Regular 4G", "Mysql DSN", "hex2bin", "/var/log/nginx/", "SCREAMING_SNAKE_CASE", "!@#$bad %^&* characters()-=", "fooBar", "a_b", "1_a", "12345", "001", "-1", "0.1", "1e5", "０１", "`{@[/:"} {
		auxStrCase(s, x)
	}
	for i, n := 0, cfg.N(3000, 40000); i < n; i++ {
		var b []byte
		switch r.Intn(3) {
		case 0:
			b = r.Bytes(r.Intn(24))
		case 1:
			b = make([]byte, r.Intn(24))
			for j := range b {
				b[j] = Pick(r, auxStrAlphabet)
			}
		default:
			b = make([]byte, 1+r.Intn(12))
			for j := range b {
				b[j] = byte('0' + r.Intn(11)) // digits and ':'
			}
		}
		auxStrCase(s, string(b))
		s.Count("str.random")
	}
	pool := []string{"", "a", "b", "ab", "A", "a\x00", "\xff"}
	for i, n := 0, cfg.N(1500, 15000); i < n; i++ {
		l := make([]string, r.Intn(5))
		for j := range l {
			l[j] = Pick(r, pool)
		}
		if r.Chance(10) {
			l = nil
		}
		auxContainCase(s, l, Pick(r, pool))
	}
	s.Sample(map[string]any{"Camelize(\"::Net::HTTP\", false)": strutil.Camelize("::Net::HTTP", false), "Camelize(\"a_b\", false) twice": strutil.Camelize(strutil.Camelize("a_b", false), false)})
}

// =============================================================================================
// E. ExpandHomeDir

func auxHomeCall(raw string) (out string, res string, err error) {
	defer func() {
		if r := recover(); r != nil {
			out = "panic"
		}
	}()
	res, err = fsutil.ExpandHomeDir(raw)
	return fmt.Sprintf("%s err=%v", hxs(res), err != nil), res, err
}

func auxHome(cfg Cfg, s *Stream, r *Rng) {
	old, had := os.LookupEnv("HOME")
	defer func() {
		if had {
			os.Setenv("HOME", old)
		} else {
			os.Unsetenv("HOME")
		}
	}()
	type homeSetting struct {
		set bool
		val string
	}
	homes := []homeSetting{{true, "/root"}, {true, "/home/u/"}, {false, ""}, {true, ""}, {true, "rel/home"}, {true, "/"}, {true, "/a/../b//c/."}}
	var inputs []string
	allStrings([]byte{'~', '/', '\\', '.', 'a'}, cfg.N(5, 7), func(b []byte) { inputs = append(inputs, string(b)) })
	inputs = append(inputs, "~user/x", "~/.config/glb/", "~/../x", "~\\Documents", "a/~", "~~", "~/a b", "~/é", "/etc/passwd", "./x/../y", "~/\x00")
	for i, n := 0, cfg.N(300, 3000); i < n; i++ {
		b := r.Bytes(r.Intn(10))
		if r.Chance(60) {
			b = append([]byte("~/"), b...)
		}
		inputs = append(inputs, string(b))
	}
	for _, hs := range homes {
		if hs.set {
			os.Setenv("HOME", hs.val)
		} else {
			os.Unsetenv("HOME")
		}
		for _, raw := range inputs {
			if strings.IndexByte(raw, 0) >= 0 && false {
				continue
			}
			out, res, err := auxHomeCall(raw)
			s.Line("home "+hxs(hs.val)+" "+hxs(raw), out)
			s.Evaluations++
			replay := map[string]any{"HOME_set": hs.set, "HOME": hs.val, "input_hex": hxs(raw), "input": raw}
			if out == "panic" {
				s.Violate("home-panic", fmt.Sprintf("ExpandHomeDir(%q) panicked", raw), replay)
				continue
			}
			// documented: "expands prefix '~' in rawFilePath with HOME environment variable"
			expanded := raw == "~" || strings.HasPrefix(raw, "~/") || strings.HasPrefix(raw, "~\\")
			switch {
			case !expanded:
				if err != nil || res != filepath.Clean(raw) {
					s.Violate("home-other", fmt.Sprintf("ExpandHomeDir(%q) = (%q, %v), want the cleaned input %q", raw, res, err, filepath.Clean(raw)), replay)
				}
			case hs.val == "":
				if err == nil || res != "" {
					s.Violate("home-unset", fmt.Sprintf("ExpandHomeDir(%q) without $HOME = (%q, %v), want an error", raw, res, err), replay)
				}
				s.Nontrivial("home-unset " + raw)
			default:
				want := hs.val
				if raw != "~" {
					want = filepath.Join(hs.val, raw[1:])
				}
				if err != nil || res != want {
					s.Violate("home-expanded", fmt.Sprintf("HOME=%q: ExpandHomeDir(%q) = (%q, %v), want %q", hs.val, raw, res, err, want), replay)
				}
				s.Nontrivial("home " + hs.val + " " + raw)
			}
		}
	}
	os.Setenv("HOME", "/root")
	ex, _ := fsutil.ExpandHomeDir("~/.config/../x")
	s.Sample(map[string]any{"HOME": "/root", "ExpandHomeDir(\"~/.config/../x\")": ex})
}

// =============================================================================================
// F. GetClientIP / CookieValue

func auxHeaderFields(h http.Header) string {
	keys := make([]string, 0, len(h))
	for k := range h {
		keys = append(keys, k)
	}
	sort.Strings(keys)
	var sb strings.Builder
	for _, k := range keys {
		sb.WriteByte(' ')
		sb.WriteString(hxs(k))
		sb.WriteByte(':')
		for i, v := range h[k] {
			if i > 0 {
				sb.WriteByte(',')
			}
			sb.WriteString(hxs(v))
		}
	}
	return sb.String()
}

func auxClientIPCase(s *Stream, h http.Header, remote string) {
	req := &http.Request{Header: h, RemoteAddr: remote}
	store := &httpd.Store{R: req}
	var got string
	func() {
		defer func() {
			if r := recover(); r != nil {
				got = "\x00panic"
			}
		}()
		got = store.GetClientIP()
	}()
	replay := map[string]any{"header": h, "remote": remote}
	if got == "\x00panic" {
		s.Line("cip "+hxs(remote)+auxHeaderFields(h), "panic")
		s.Violate("clientip-panic", "GetClientIP panicked", replay)
		return
	}
	s.Line("cip "+hxs(remote)+auxHeaderFields(h), hxs(got))
	s.Evaluations++
	// documented order: X-Client-IP, X-Forwarded-For, X-Real-IP, Request.RemoteAddr
	first := func(name string) string {
		if vs := h[http.CanonicalHeaderKey(name)]; len(vs) > 0 {
			return vs[0]
		}
		return ""
	}
	var want string
	switch {
	case first("X-Client-IP") != "":
		want = first("X-Client-IP")
		s.Count("clientip.x-client-ip")
	case first("X-Forwarded-For") != "":
		want, _, _ = strings.Cut(first("X-Forwarded-For"), ",")
		s.Count("clientip.x-forwarded-for")
	case first("X-Real-IP") != "":
		want = first("X-Real-IP")
		s.Count("clientip.x-real-ip")
	default:
		s.Count("clientip.remote-addr")
		if hh, _, err := net.SplitHostPort(remote); err == nil {
			want = hh
		} else {
			want = got // RemoteAddr that is not host:port: covered by the SplitHostPort section
		}
	}
	if got != want {
		s.Violate("clientip-precedence", fmt.Sprintf("GetClientIP = %q, the documented order gives %q", got, want), replay)
	}
	if len(h) > 0 {
		s.Nontrivial("cip " + remote + auxHeaderFields(h))
	}
}

func auxCookieCase(s *Stream, cookieHeaders []string, name string) {
	h := http.Header{}
	for _, c := range cookieHeaders {
		h.Add("Cookie", c)
	}
	req := &http.Request{Header: h}
	store := &httpd.Store{R: req}
	got := store.CookieValue(name)
	op := "cookie " + hxs(name)
	want, found := "", false
	for _, c := range req.Cookies() {
		op += " " + hxs(c.Name) + "=" + hxs(c.Value)
		if !found && name != "" && c.Name == name {
			want, found = c.Value, true
		}
	}
	s.Line(op, hxs(got))
	s.Evaluations++
	if got != want {
		s.Violate("cookie-value", fmt.Sprintf("CookieValue(%q) = %q, the first parsed cookie of that name is %q (found=%v)", name, got, want, found),
			map[string]any{"cookie_headers": cookieHeaders, "name": name})
	}
	if found {
		s.Nontrivial(op)
	}
}

func auxHTTP(cfg Cfg, s *Stream, r *Rng) {
	vals := []string{"\x00absent", "", "1.2.3.4", "5.5.5.5, 6.6.6.6", ",7.7.7.7", " 8.8.8.8 ,x"}
	remotes := []string{"9.9.9.9:1234", "[::1]:80", "", "nocolon", ":", "[::1]", "::1", "[2001:db8::1]:443"}
	names := []string{"X-Client-IP", "X-Forwarded-For", "X-Real-IP"}
	for _, a := range vals {
		for _, b := range vals {
			for _, c := range vals {
				for _, rem := range remotes {
					h := http.Header{}
					for i, v := range []string{a, b, c} {
						if v != "\x00absent" {
							h.Set(names[i], v)
						}
					}
					auxClientIPCase(s, h, rem)
				}
			}
		}
	}
	for i, n := 0, cfg.N(1500, 15000); i < n; i++ {
		h := http.Header{}
		for _, nm := range names {
			switch r.Intn(6) {
			case 0: // several header lines: only the first counts
				h.Add(nm, Pick(r, vals[1:]))
				h.Add(nm, Pick(r, vals[1:]))
			case 1: // a key that is not in canonical form is invisible to Header.Get
				h[nm] = []string{Pick(r, vals[1:])}
			case 2:
				h.Set(strings.ToLower(nm), Pick(r, vals[1:]))
			case 3:
				h.Set(nm, string(r.Bytes(r.Intn(6)))+","+string(r.Bytes(r.Intn(3))))
			case 4:
				h[http.CanonicalHeaderKey(nm)] = []string{}
			}
		}
		if r.Chance(30) {
			h.Set("X-Other", "z")
		}
		rem := Pick(r, remotes)
		if r.Chance(30) {
			rem = string(r.Bytes(r.Intn(8))) + ":" + string(r.Bytes(r.Intn(3)))
		}
		auxClientIPCase(s, h, rem)
	}
	cookieLines := []string{"a=1", "a=1; b=2", "b=2; a=3; a=4", "a=\"q\"", "a=", "=x", "bad name=1; c=3", "c=%20x", "a=1;b=2", "A=upper"}
	cnames := []string{"a", "b", "c", "", "A", "zz", "bad name"}
	for _, l1 := range cookieLines {
		for _, nm := range cnames {
			auxCookieCase(s, []string{l1}, nm)
			auxCookieCase(s, []string{l1, Pick(r, cookieLines)}, nm)
		}
	}
	for _, nm := range cnames {
		auxCookieCase(s, nil, nm)
	}
	h := http.Header{}
	h.Set("X-Forwarded-For", "5.5.5.5, 6.6.6.6")
	s.Sample(map[string]any{"X-Forwarded-For": "5.5.5.5, 6.6.6.6", "GetClientIP": (&httpd.Store{R: &http.Request{Header: h, RemoteAddr: "9.9.9.9:1"}}).GetClientIP()})
}
