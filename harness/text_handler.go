package main

// Stream `text` (C13): the real logger.TextHandler, driven through Logger methods and through the
// Handler interface directly, on hostile keys / group names / messages / values of every kind.
//
// Per case the harness
//   - builds the chain and the record with real slog values,
//   - computes what the handler actually RECEIVES by walking the constructed slog.Values after
//     Resolve() (slog drops empty groups in GroupValue / Record.Add / Record.AddAttrs before any
//     repo code runs; DESIGN §8.2),
//   - writes the op for the Lean model (the model decides whether a string is quoted; the stdlib's
//     verdicts unicode.IsSpace / IsPrint per rune and strconv.Quote per string travel as tables),
//   - evaluates the direct oracle on the real output: exactly one '\n', at the end; an independent
//     tokenizer built on strconv.Unquote splits the line into key=value tokens equal to the
//     expected (dotted path, value text) list in order.
// The strconv contract assumed by the theorems is asserted on every string sample.

import (
	"context"
	"errors"
	"fmt"
	"log/slog"
	"math"
	"path/filepath"
	"runtime"
	"sort"
	"strconv"
	"strings"
	"syscall"
	"time"
	"unicode"
	"unicode/utf8"

	"github.com/whoisnian/glb/logger"
)

func init() { streams["text"] = runText }

// ---- value types the generator uses -----------------------------------------------------------

type textTMOk struct{ data string }

func (t textTMOk) MarshalText() ([]byte, error) { return []byte(t.data), nil }

type textTMErr struct{ msg string }

func (t textTMErr) MarshalText() ([]byte, error) { return nil, errors.New(t.msg) }

type textTMPanic struct{ msg string }

func (t textTMPanic) MarshalText() ([]byte, error) { panic(t.msg) }

type textErr struct{ msg string }

func (e textErr) Error() string { return e.msg }

type textErrPanic struct{ msg string }

func (e textErrPanic) Error() string { panic(errors.New(e.msg)) }

type textPtrErr struct{ msg string }

func (e *textPtrErr) Error() string { return e.msg } // typed nil: nil dereference

type textPtrTM struct{ data string }

func (t *textPtrTM) MarshalText() ([]byte, error) { return []byte(t.data), nil } // typed nil: nil dereference

type textStringer struct{ s string }

// named numeric types with a String method whose text needs quoting (like syscall.Signal's "broken pipe")
type textNumStringer int

func (n textNumStringer) String() string {
	return [...]string{"broken pipe", "a=b", "say \"hi\"", "two\nlines", "", "plain", "tab\there", "ключ и значение"}[int(n)&7]
}

type textFloatStringer float64

func (f textFloatStringer) String() string { return fmt.Sprintf("%g units = x", float64(f)) }

func (s textStringer) String() string { return s.s }

type textStruct struct {
	A string
	B int
}

type textLV struct{ v slog.Value }

func (l textLV) LogValue() slog.Value { return l.v }

// ---- resolved tree (what the handler receives) -------------------------------------------------

type textNode struct {
	Key     string     `json:"key"`
	Group   bool       `json:"group,omitempty"`
	Kids    []textNode `json:"kids,omitempty"`
	Kind    string     `json:"kind,omitempty"`
	Payload string     `json:"payload,omitempty"`
}

// textLeafOf: the kind of a resolved non-group value and the text the standard library / the value
// itself yields for it. For the harness's own types the text is the generator's intent (the field
// the value was built from), for anything else it is obtained from the same stdlib call.
func textLeafOf(v slog.Value) (kind, payload string) {
	switch v.Kind() {
	case slog.KindString:
		return "str", v.String()
	case slog.KindInt64:
		return "i64", strconv.FormatInt(v.Int64(), 10)
	case slog.KindUint64:
		return "u64", strconv.FormatUint(v.Uint64(), 10)
	case slog.KindFloat64:
		return "f64", strconv.FormatFloat(v.Float64(), 'g', -1, 64)
	case slog.KindBool:
		return "bool", strconv.FormatBool(v.Bool())
	case slog.KindDuration:
		return "dur", v.Duration().String()
	case slog.KindTime:
		return "time", v.Time().Format(time.RFC3339)
	}
	switch x := v.Any().(type) {
	case textTMOk:
		return "mok", x.data
	case textTMErr:
		return "merr", x.msg
	case textTMPanic:
		return "pval", x.msg
	case textErr:
		return "err", x.msg
	case textErrPanic:
		return "pval", x.msg
	case *textPtrErr:
		if x == nil {
			return "pnil", ""
		}
		return "err", x.msg
	case *textPtrTM:
		if x == nil {
			return "pnil", ""
		}
		return "mok", x.data
	case logger.AnsiString:
		return "ansi", x.Value
	case []byte:
		return "bytes", string(x)
	case error:
		return "err", x.Error()
	default:
		return "sprint", fmt.Sprint(x)
	}
}

func textWalk(a slog.Attr) textNode {
	v := a.Value.Resolve()
	if v.Kind() == slog.KindGroup {
		n := textNode{Key: a.Key, Group: true}
		for _, aa := range v.Group() {
			n.Kids = append(n.Kids, textWalk(aa))
		}
		return n
	}
	k, p := textLeafOf(v)
	return textNode{Key: a.Key, Kind: k, Payload: p}
}

// the text a leaf stands for (specification side, Go copy)
func (n textNode) text() string {
	switch n.Kind {
	case "pnil":
		return "<nil>"
	case "pval":
		return "!PANIC: " + n.Payload
	}
	return n.Payload
}

func textDot(p, k string) string {
	if p == "" {
		return k
	}
	return p + "." + k
}

// dotted path: components joined with '.', joining onto an empty path gives the component itself
func textDotted(comps []string) string {
	p := ""
	for _, c := range comps {
		p = textDot(p, c)
	}
	return p
}

func textFlatten(comps []string, n textNode, out *[][2]string) {
	if n.Group {
		c := comps
		if n.Key != "" {
			c = append(append([]string{}, comps...), n.Key)
		}
		for _, k := range n.Kids {
			textFlatten(c, k, out)
		}
		return
	}
	*out = append(*out, [2]string{textDotted(append(append([]string{}, comps...), n.Key)), n.text()})
}

func textEncodeNode(sb *strings.Builder, n textNode) {
	if n.Group {
		fmt.Fprintf(sb, " G %s %d", hxs(n.Key), len(n.Kids))
		for _, k := range n.Kids {
			textEncodeNode(sb, k)
		}
		return
	}
	fmt.Fprintf(sb, " L %s %s %s", hxs(n.Key), n.Kind, hxs(n.Payload))
}

// ---- a case ------------------------------------------------------------------------------------

type textChainOp struct {
	Group bool
	Name  string
	Attrs []slog.Attr
}

type textCase struct {
	AddSource bool
	ViaLogger bool
	Method    int // which Logger method (ViaLogger)
	KV        bool
	ZeroPC    bool
	Chain     []textChainOp
	Level     slog.Level
	Msg       string
	Attrs     []slog.Attr
	Time      time.Time
}

type textCapture struct {
	writes int
	data   []byte
}

func (w *textCapture) Write(p []byte) (int, error) {
	w.writes++
	w.data = append(w.data, p...)
	return len(p), nil
}

func textArgs(as []slog.Attr, kv bool) []any {
	var out []any
	for i, a := range as {
		if kv && i%2 == 0 {
			out = append(out, a.Key, a.Value) // (string, any) pair: slog.Any(key, Value) = the same Attr
		} else {
			out = append(out, a)
		}
	}
	return out
}

var textLevels = []slog.Level{logger.LevelDebug, logger.LevelInfo, logger.LevelWarn, logger.LevelError, logger.LevelFatal}
var textLevelNames = map[slog.Level]string{0: "DEBUG", 4: "INFO", 8: "WARN", 12: "ERROR", 16: "FATAL"}

// each branch: the Logger call sits on the line after runtime.Caller(0)
func textLogVia(l *logger.Logger, c *textCase, args []any) (rfile string, rline int) {
	ctx := context.Background()
	var file string
	var line int
	defer func() { rfile, rline = file, line+1 }() // also when Panic / Panicf unwinds through here
	switch {
	case c.Method == 3 && c.Level == logger.LevelError: // Panic: one ERROR record like Error, then panic(msg)
		defer func() { recover() }()
		_, file, line, _ = runtime.Caller(0)
		l.Panic(c.Msg, args...)
	case c.Method == 4 && c.Level == logger.LevelDebug: // the formatting methods: the message goes through %s once
		_, file, line, _ = runtime.Caller(0)
		l.Debugf("%s", c.Msg)
	case c.Method == 4 && c.Level == logger.LevelInfo:
		_, file, line, _ = runtime.Caller(0)
		l.Infof("%s", c.Msg)
	case c.Method == 4 && c.Level == logger.LevelWarn:
		_, file, line, _ = runtime.Caller(0)
		l.Warnf("%s", c.Msg)
	case c.Method == 4 && c.Level == logger.LevelError && len(c.Msg)%2 == 0:
		_, file, line, _ = runtime.Caller(0)
		l.Errorf("%s", c.Msg)
	case c.Method == 4 && c.Level == logger.LevelError:
		defer func() { recover() }()
		_, file, line, _ = runtime.Caller(0)
		l.Panicf("%s", c.Msg)
	case c.Method == 4:
		_, file, line, _ = runtime.Caller(0)
		l.Logf(ctx, c.Level, "%s", c.Msg)
	case c.Method == 1 && c.Level == logger.LevelDebug:
		_, file, line, _ = runtime.Caller(0)
		l.Debug(c.Msg, args...)
	case c.Method == 1 && c.Level == logger.LevelInfo:
		_, file, line, _ = runtime.Caller(0)
		l.Info(c.Msg, args...)
	case c.Method == 1 && c.Level == logger.LevelWarn:
		_, file, line, _ = runtime.Caller(0)
		l.Warn(c.Msg, args...)
	case c.Method == 1 && c.Level == logger.LevelError:
		_, file, line, _ = runtime.Caller(0)
		l.Error(c.Msg, args...)
	case c.Method == 2:
		_, file, line, _ = runtime.Caller(0)
		l.LogAttrs(ctx, c.Level, c.Msg, c.Attrs...)
	default:
		_, file, line, _ = runtime.Caller(0)
		l.Log(ctx, c.Level, c.Msg, args...)
	}
	return
}

func textPC() uintptr {
	var pcs [1]uintptr
	runtime.Callers(2, pcs[:])
	return pcs[0]
}

type textRun struct {
	Line      []byte
	Writes    int
	Panic     string
	TimeText  string
	File      string // Frame.File as the runtime reports it (model input)
	LineNo    string
	WantSrc   string     // oracle: last two path components ":" line
	Chain     []textOpRx // what the handler received
	Attrs     []textNode
	ModelOnly bool
}

type textOpRx struct {
	Group bool
	Name  string
	Attrs []textNode
}

func (c *textCase) run() (res textRun) {
	w := &textCapture{}
	h := logger.NewTextHandler(w, logger.NewOptions(logger.LevelDebug, false, c.AddSource))
	defer func() {
		if r := recover(); r != nil {
			res.Panic = fmt.Sprint(r)
		}
		res.Line, res.Writes = w.data, w.writes
		if c.ViaLogger {
			// time.Now() inside the Logger: the rendered text is taken from the output
			s := string(w.data)
			if strings.HasPrefix(s, "time=") {
				if i := strings.IndexByte(s, ' '); i > 0 {
					res.TimeText = s[5:i]
				}
			}
		}
	}()
	walkAll := func(as []slog.Attr) []textNode {
		out := make([]textNode, 0, len(as))
		for _, a := range as {
			out = append(out, textWalk(a))
		}
		return out
	}
	if c.ViaLogger {
		l := logger.New(h)
		for _, op := range c.Chain {
			if op.Group {
				l = l.WithGroup(op.Name)
				if op.Name != "" { // Logger.WithGroup("") returns the receiver: nothing reaches the handler
					res.Chain = append(res.Chain, textOpRx{Group: true, Name: op.Name})
				}
			} else {
				l = l.With(textArgs(op.Attrs, c.KV)...)
				if len(op.Attrs) > 0 {
					res.Chain = append(res.Chain, textOpRx{Attrs: walkAll(op.Attrs)})
				}
			}
		}
		args := textArgs(c.Attrs, c.KV)
		// what Record.Add / Record.AddAttrs keep: ask slog itself
		rr := slog.NewRecord(time.Time{}, c.Level, c.Msg, 0)
		switch {
		case c.Method == 4: // formatting methods carry no attributes
			args = nil
		case c.Method == 2:
			rr.AddAttrs(c.Attrs...)
		default:
			rr.Add(args...)
		}
		rr.Attrs(func(a slog.Attr) bool { res.Attrs = append(res.Attrs, textWalk(a)); return true })
		file, line := textLogVia(l, c, args)
		if c.AddSource {
			res.File, res.LineNo = file, strconv.Itoa(line)
			res.WantSrc = filepath.Base(filepath.Dir(file)) + "/" + filepath.Base(file) + ":" + strconv.Itoa(line)
		}
		return
	}
	var hh logger.Handler = h
	for _, op := range c.Chain {
		if op.Group {
			hh = hh.WithGroup(op.Name)
			res.Chain = append(res.Chain, textOpRx{Group: true, Name: op.Name})
		} else {
			hh = hh.WithAttrs(op.Attrs)
			res.Chain = append(res.Chain, textOpRx{Attrs: walkAll(op.Attrs)})
		}
	}
	var pc uintptr
	if c.AddSource && !c.ZeroPC && len(c.Msg)%3 == 1 {
		// a call site whose file name needs quoting (//line directives, see oddpc.go)
		odd := oddPCs()
		pc = odd[(len(c.Msg)+len(c.Attrs))%len(odd)]
		f, _ := runtime.CallersFrames([]uintptr{pc}).Next()
		res.File, res.LineNo = f.File, strconv.Itoa(f.Line)
		res.WantSrc = lastTwo(f.File) + ":" + strconv.Itoa(f.Line)
	} else if c.AddSource && !c.ZeroPC {
		pc = textPC()
		_, file, line, _ := runtime.Caller(0)
		line-- // textPC() was called on the previous line
		f, _ := runtime.CallersFrames([]uintptr{pc}).Next()
		res.File, res.LineNo = f.File, strconv.Itoa(f.Line)
		res.WantSrc = filepath.Base(filepath.Dir(file)) + "/" + filepath.Base(file) + ":" + strconv.Itoa(line)
	} else if c.AddSource {
		res.File, res.LineNo, res.WantSrc = "", "0", ":0"
	}
	if len(c.Msg)%4 == 2 {
		// an earlier record of the same handler family, in the same second but another zone and with other
		// attributes: whatever the family remembers from it must not show in the record under test
		prev := slog.NewRecord(c.Time.Add(time.Duration(len(c.Msg))*time.Microsecond).In(time.FixedZone("", (len(c.Msg)%25-12)*3600+1800)), slog.LevelWarn, "earlier record", 0)
		prev.AddAttrs(slog.String("earlier", "x y"), slog.Group("eg", slog.Int("n", 1)))
		h.Handle(context.Background(), prev)
		w.data, w.writes = nil, 0
	}
	r := slog.NewRecord(c.Time, c.Level, c.Msg, pc)
	r.AddAttrs(c.Attrs...)
	r.Attrs(func(a slog.Attr) bool { res.Attrs = append(res.Attrs, textWalk(a)); return true })
	res.TimeText = c.Time.Format(time.RFC3339)
	if err := hh.Handle(context.Background(), r); err != nil {
		res.Panic = "error:" + err.Error()
	}
	return
}

// expected decoded pairs (Go copy of the specification, used by the direct oracle)
func (c *textCase) expected(res *textRun) [][2]string {
	out := [][2]string{{"time", res.TimeText}, {"level", textLevelNames[c.Level]}}
	if c.AddSource {
		out = append(out, [2]string{"source", res.WantSrc})
	}
	out = append(out, [2]string{"msg", c.Msg})
	var names []string
	for _, op := range res.Chain {
		if op.Group {
			names = append(names, op.Name)
			continue
		}
		for _, n := range op.Attrs {
			textFlatten(names, n, &out)
		}
	}
	for _, n := range res.Attrs {
		textFlatten(names, n, &out)
	}
	return out
}

// ---- independent tokenizer (direct oracle) -----------------------------------------------------

// textTokenize splits a line by the rules of the property text: space-separated key=value tokens,
// each side either a bare run free of whitespace, '=' and '"', or a Go-quoted string.
func textTokenize(line string) ([][2]string, error) {
	if !strings.HasSuffix(line, "\n") {
		return nil, errors.New("no trailing newline")
	}
	if strings.Count(line, "\n") != 1 {
		return nil, errors.New("more than one newline")
	}
	s := line[:len(line)-1]
	readTok := func() (string, error) {
		if s == "" {
			return "", errors.New("token expected at end of line")
		}
		if s[0] == '"' {
			i := 1
			for i < len(s) && s[i] != '"' {
				if s[i] == '\\' {
					i++
				}
				i++
			}
			if i >= len(s) {
				return "", errors.New("unterminated quoted token")
			}
			v, err := strconv.Unquote(s[:i+1])
			if err != nil {
				return "", fmt.Errorf("strconv.Unquote(%q): %v", s[:i+1], err)
			}
			s = s[i+1:]
			return v, nil
		}
		i := 0
		for i < len(s) && s[i] != ' ' && s[i] != '=' {
			i++
		}
		tok := s[:i]
		if tok == "" {
			return "", errors.New("empty bare token")
		}
		if strings.ContainsRune(tok, '"') {
			return "", fmt.Errorf("bare token %q contains '\"'", tok)
		}
		for _, r := range tok {
			if unicode.IsSpace(r) {
				return "", fmt.Errorf("bare token %q contains whitespace %U", tok, r)
			}
		}
		s = s[i:]
		return tok, nil
	}
	var out [][2]string
	for {
		k, err := readTok()
		if err != nil {
			return out, err
		}
		if s == "" || s[0] != '=' {
			return out, fmt.Errorf("'=' expected after key %q", k)
		}
		s = s[1:]
		v, err := readTok()
		if err != nil {
			return out, err
		}
		out = append(out, [2]string{k, v})
		if s == "" {
			return out, nil
		}
		if s[0] != ' ' {
			return out, fmt.Errorf("space expected after value %q", v)
		}
		s = s[1:]
	}
}

// textOracle: the property statement on the real output. Returns "" or the failed clause.
func textOracle(line []byte, writes int, want [][2]string) (kind, detail string) {
	if writes != 1 {
		return "not-one-write", fmt.Sprintf("%d Write calls for one record", writes)
	}
	got, err := textTokenize(string(line))
	if err != nil {
		return "line-does-not-tokenize", fmt.Sprintf("%v; line=%q", err, line)
	}
	if len(got) != len(want) {
		return "token-count", fmt.Sprintf("got %d pairs %q, expected %d pairs %q; line=%q", len(got), got, len(want), want, line)
	}
	for i := range got {
		if got[i] != want[i] {
			return "token-mismatch", fmt.Sprintf("pair %d: got %q, expected %q; line=%q", i, got[i], want[i], line)
		}
	}
	return "", ""
}

// ---- assumption checks (contract of the parameters of the theorems) ----------------------------

func textInteriorOK(body string) bool {
	esc := false
	for i := 0; i < len(body); i++ {
		b := body[i]
		if b < 0x20 {
			return false
		}
		if esc {
			esc = false
			continue
		}
		if b == '"' {
			return false
		}
		esc = b == '\\'
	}
	return !esc
}

func textQuoteContract(str string) string {
	q := strconv.Quote(str)
	if len(q) < 2 || q[0] != '"' || q[len(q)-1] != '"' {
		return "shape"
	}
	if !textInteriorOK(q[1 : len(q)-1]) {
		return "interior"
	}
	if u, err := strconv.Unquote(q); err != nil || u != str {
		return "roundtrip"
	}
	return ""
}

// bare-token class of the specification (Spec/TextTokens.lean), with the real unicode tables
func textBareTok(s string) bool {
	if s == "" {
		return false
	}
	for i := 0; i < len(s); {
		b := s[i]
		if b < utf8.RuneSelf {
			if b <= 0x20 || b == '=' || b == '"' {
				return false
			}
			i++
			continue
		}
		r, n := utf8.DecodeRuneInString(s[i:])
		if n < 2 || unicode.IsSpace(r) || !unicode.IsPrint(r) {
			return false
		}
		i += n
	}
	return true
}

// ---- tables for the model ----------------------------------------------------------------------

type textTables struct {
	runes  map[rune]bool
	quotes map[string]bool
}

func newTextTables() *textTables {
	return &textTables{runes: map[rune]bool{}, quotes: map[string]bool{"": true}}
}

func (t *textTables) addRunes(s string) {
	for i := 0; i < len(s); i++ {
		if s[i] >= utf8.RuneSelf {
			r, _ := utf8.DecodeRuneInString(s[i:])
			t.runes[r] = true
		}
	}
}

func (t *textTables) add(s string) {
	t.addRunes(s)
	t.quotes[s] = true
}

func (t *textTables) encode() string {
	rs := make([]int, 0, len(t.runes))
	for r := range t.runes {
		rs = append(rs, int(r))
	}
	sort.Ints(rs)
	var sb strings.Builder
	sb.WriteString("u:")
	if len(rs) == 0 {
		sb.WriteString("-")
	}
	for i, r := range rs {
		if i > 0 {
			sb.WriteByte(',')
		}
		f := 0
		if unicode.IsSpace(rune(r)) {
			f |= 1
		}
		if unicode.IsPrint(rune(r)) {
			f |= 2
		}
		fmt.Fprintf(&sb, "%d.%d", r, f)
	}
	sb.WriteString(" q:")
	qs := sortedKeys(t.quotes)
	for i, s := range qs {
		if i > 0 {
			sb.WriteByte(',')
		}
		sb.WriteString(hxs(s))
		sb.WriteByte('.')
		sb.WriteString(hxs(strconv.Quote(s)))
	}
	return sb.String()
}

func textPairs(ps [][2]string) string {
	parts := make([]string, len(ps))
	for i, p := range ps {
		parts[i] = hxs(p[0]) + ":" + hxs(p[1])
	}
	return strings.Join(parts, ",")
}

// ---- generators --------------------------------------------------------------------------------

var textPieces = []string{
	" ", "=", "\"", "\\", "\n", "\x7f", "\u0085", "\u00a0", "\u2028", "\ufeff", "\ufffd",
	"\xff", "\xc0", "\xe2\x82", "\x80", "\xed\xa0\x80", "\xf4\x90\x80\x80",
	"\x00", "\t", "\r", "\x1b", ".", "..", "a", "b", "k", "Z", "0", "-", "_", "/", ":", "\u00e9", "\u4e16", "\U0001F600", "\u00b5",
	"\u200b", "\u3000", "\u2029", "\u00ad", "'", "`", "\\n", "\\\"", "\"\"", "a=b", "a b",
	"%", "%20", "100% full", "%s", "%!d(MISSING)", "%%",
}

func textHostile(r *Rng) string {
	switch r.Intn(12) {
	case 0:
		return ""
	case 1:
		return string(r.Bytes(1 + r.Intn(5)))
	case 2:
		return Pick(r, []string{"a", "key", "k1", "id", "x.y", "user", "msg", "time", "level"})
	}
	n := 1 + r.Intn(5)
	var sb strings.Builder
	for i := 0; i < n; i++ {
		sb.WriteString(Pick(r, textPieces))
	}
	return sb.String()
}

func textKey(r *Rng) string {
	if r.Chance(45) {
		return Pick(r, []string{"a", "key", "k1", "id", "x.y", "user", "n", "v"})
	}
	return textHostile(r)
}

var textLeafKinds = []string{"str", "i64", "u64", "f64", "bool", "dur", "time", "mok", "merr", "mpanic", "err",
	"errpanic", "nilptrerr", "ptrerr", "nilptrtm", "bytes", "ansi", "nil", "stringer", "numstringer", "struct", "int", "map", "lv", "lvlv", "foreignerr"}

func textLeafValue(r *Rng, s *Stream) slog.Value {
	k := Pick(r, textLeafKinds)
	if r.Chance(30) {
		k = "str"
	}
	s.Count("value:" + k)
	switch k {
	case "str":
		return slog.StringValue(textHostile(r))
	case "i64":
		return slog.Int64Value(Pick(r, []int64{0, 1, -1, math.MaxInt64, math.MinInt64, int64(r.U64())}))
	case "u64":
		return slog.Uint64Value(Pick(r, []uint64{0, 1, math.MaxUint64, r.U64()}))
	case "f64":
		return slog.Float64Value(Pick(r, []float64{0, math.Copysign(0, -1), math.NaN(), math.Inf(1), math.Inf(-1), 1e21, 1e-7,
			math.MaxFloat64, math.SmallestNonzeroFloat64, math.Float64frombits(r.U64()), float64(r.Intn(1000)) / 8}))
	case "bool":
		return slog.BoolValue(r.Bool())
	case "dur":
		return slog.DurationValue(Pick(r, []time.Duration{0, 1, 1500, -1500, time.Millisecond, 90 * time.Minute, math.MaxInt64, math.MinInt64,
			time.Duration(r.U64() >> uint(r.Intn(64)))}))
	case "time":
		return slog.TimeValue(textTime(r))
	case "mok":
		return slog.AnyValue(textTMOk{textHostile(r)})
	case "merr":
		return slog.AnyValue(textTMErr{textHostile(r)})
	case "mpanic":
		return slog.AnyValue(textTMPanic{textHostile(r)})
	case "err":
		return slog.AnyValue(textErr{textHostile(r)})
	case "errpanic":
		return slog.AnyValue(textErrPanic{textHostile(r)})
	case "nilptrerr":
		return slog.AnyValue((*textPtrErr)(nil))
	case "ptrerr":
		return slog.AnyValue(&textPtrErr{textHostile(r)})
	case "nilptrtm":
		return slog.AnyValue((*textPtrTM)(nil))
	case "bytes":
		return slog.AnyValue([]byte(textHostile(r)))
	case "ansi":
		return slog.AnyValue(logger.AnsiString{Prefix: Pick(r, []string{"", "\x1b[31m"}), Value: textHostile(r)})
	case "nil":
		return slog.AnyValue(nil)
	case "stringer":
		return slog.AnyValue(textStringer{textHostile(r)})
	case "numstringer":
		switch r.Intn(4) {
		case 0:
			return slog.AnyValue(syscall.Signal(1 + r.Intn(31)))
		case 1:
			return slog.AnyValue(textFloatStringer(float64(r.Intn(100)) / 4))
		case 2:
			return slog.AnyValue(time.Month(1 + r.Intn(12)))
		}
		return slog.AnyValue(textNumStringer(r.Intn(64)))
	case "struct":
		return slog.AnyValue(textStruct{textHostile(r), r.Intn(100)})
	case "int":
		return slog.AnyValue(r.Intn(1000) - 500)
	case "map":
		return slog.AnyValue(map[string]int{textHostile(r): 1, "b": 2})
	case "lv":
		return slog.AnyValue(textLV{textLeafValue(r, s)})
	case "lvlv":
		return slog.AnyValue(textLV{slog.AnyValue(textLV{textLeafValue(r, s)})})
	default: // foreignerr
		return slog.AnyValue(fmt.Errorf("wrapped: %w", textErr{textHostile(r)}))
	}
}

func textTime(r *Rng) time.Time {
	sec := int64(r.U64()%4_000_000_000) - 1_000_000_000
	t := time.Unix(sec, int64(r.Intn(1_000_000_000)))
	if r.Chance(6) {
		t = time.Unix(int64(r.Intn(3))-1, int64(r.Intn(2))*500_000_000) // the epoch itself and its neighbours
	}
	if r.Chance(2) {
		return time.Time{} // a record without a time of its own: this handler writes the zero time like any other
	}
	switch r.Intn(4) {
	case 0:
		return t.UTC()
	case 1:
		return t.In(time.FixedZone("X", (r.Intn(28*3600) - 14*3600)))
	case 2:
		return t.In(time.FixedZone("", 8*3600))
	}
	return t
}

func textAttr(r *Rng, s *Stream, depth int) slog.Attr {
	key := textKey(r)
	c := r.Intn(100)
	if depth <= 0 && c >= 70 {
		c = 0
	}
	switch {
	case c < 70:
		return slog.Attr{Key: key, Value: textLeafValue(r, s)}
	case c < 82: // keyed or inline group built by slog.GroupValue (which drops empty groups)
		if r.Chance(35) {
			key = ""
		}
		s.Count("attr:group")
		return slog.Attr{Key: key, Value: slog.GroupValue(textAttrs(r, s, r.Intn(4), depth-1)...)}
	case c < 88: // empty group, keyed or inline
		if r.Bool() {
			key = ""
		}
		s.Count("attr:empty-group")
		return slog.Attr{Key: key, Value: slog.GroupValue()}
	case c < 96: // LogValuer resolving to a group (possibly empty: survives GroupValue / Record.Add)
		if r.Chance(35) {
			key = ""
		}
		s.Count("attr:logvaluer-group")
		return slog.Attr{Key: key, Value: slog.AnyValue(textLV{slog.GroupValue(textAttrs(r, s, r.Intn(3), depth-1)...)})}
	default: // slog.Group convenience constructor
		s.Count("attr:slog.Group")
		return slog.Group(key, textArgs(textAttrs(r, s, r.Intn(3), depth-1), r.Bool())...)
	}
}

func textAttrs(r *Rng, s *Stream, n, depth int) []slog.Attr {
	out := make([]slog.Attr, 0, n)
	for i := 0; i < n; i++ {
		out = append(out, textAttr(r, s, depth))
	}
	return out
}

func textRandomCase(r *Rng, s *Stream) *textCase {
	c := &textCase{
		AddSource: r.Chance(30),
		ViaLogger: r.Bool(),
		Method:    r.Intn(5),
		KV:        r.Bool(),
		Level:     Pick(r, textLevels),
		Msg:       textHostile(r),
		Time:      textTime(r),
	}
	if c.Level == logger.LevelFatal {
		c.Method = 0 // Fatal() exits; Log / LogAttrs carry the level
		if r.Bool() {
			c.Method = 2
		}
	}
	if !c.ViaLogger && c.AddSource {
		c.ZeroPC = r.Chance(15)
	}
	nChain := r.Intn(6)
	if r.Chance(5) {
		nChain = 7 + r.Intn(10) // deep chains
	}
	for i, n := 0, nChain; i < n; i++ {
		if r.Chance(45) {
			name := textKey(r)
			if r.Chance(8) {
				name = ""
			}
			c.Chain = append(c.Chain, textChainOp{Group: true, Name: name})
		} else {
			c.Chain = append(c.Chain, textChainOp{Attrs: textAttrs(r, s, r.Intn(4), 3)})
		}
	}
	c.Attrs = textAttrs(r, s, r.Intn(5), 3)
	return c
}

// ---- emitting one case -------------------------------------------------------------------------

type textEmitter struct {
	s      *Stream
	search bool
}

func (c *textCase) describe(res *textRun) map[string]any {
	return map[string]any{
		"add_source": c.AddSource, "via_logger": c.ViaLogger, "method": c.Method, "kv_args": c.KV,
		"level": int(c.Level), "msg": c.Msg, "msg_hex": hxs(c.Msg),
		"chain_received": res.Chain, "record_attrs_received": res.Attrs,
		"line": string(res.Line), "line_hex": hx(res.Line),
	}
}

// check runs the case on the real handler and evaluates the oracle; returns the failed clause.
func (c *textCase) check() (res textRun, want [][2]string, kind, detail string) {
	res = c.run()
	want = c.expected(&res)
	if res.Panic != "" {
		return res, want, "handler-panicked", res.Panic
	}
	kind, detail = textOracle(res.Line, res.Writes, want)
	return
}

func (e *textEmitter) emit(c *textCase) {
	s := e.s
	res, want, kind, detail := c.check()
	s.Evaluations++
	if kind != "" {
		// shrink: drop chain operations and record attributes while the same clause keeps failing
		fails := func(cc *textCase) bool { _, _, k, _ := cc.check(); return k == kind }
		min := *c
		min.Chain = ddmin(c.Chain, func(ch []textChainOp) bool { cc := min; cc.Chain = ch; return fails(&cc) })
		if cc := min; func() bool { cc.Chain = nil; return fails(&cc) }() {
			min.Chain = nil
		}
		min.Attrs = ddmin(min.Attrs, func(as []slog.Attr) bool { cc := min; cc.Attrs = as; return fails(&cc) })
		if cc := min; func() bool { cc.Attrs = nil; return fails(&cc) }() {
			min.Attrs = nil
		}
		mres, _, _, mdetail := min.check()
		if mdetail == "" {
			mdetail, mres, min = detail, res, *c
		}
		s.Violate(kind, mdetail, min.describe(&mres))
	}
	// assumptions of the theorems, asserted on this sample
	tb := newTextTables()
	for _, p := range want {
		tb.add(p[0])
		tb.add(p[1])
	}
	for q := range tb.quotes {
		if bad := textQuoteContract(q); bad != "" {
			s.Violate("assumption-strconv-contract", bad+" fails for "+strconv.QuoteToASCII(q), hxs(q))
		}
	}
	if !textBareTok(res.TimeText) {
		s.Violate("assumption-raw-payload-bare", "time text "+strconv.Quote(res.TimeText), hxs(res.TimeText))
	}
	hasGroup := false
	var rawCheck func(n textNode)
	rawCheck = func(n textNode) {
		if n.Group {
			hasGroup = true
			for _, k := range n.Kids {
				rawCheck(k)
			}
			return
		}
		s.Count("leaf:" + n.Kind)
		switch n.Kind {
		case "i64", "u64", "f64", "bool", "dur", "time":
			if !textBareTok(n.Payload) {
				s.Violate("assumption-raw-payload-bare", n.Kind+" text "+strconv.Quote(n.Payload), hxs(n.Payload))
			}
		}
	}
	// op for the model
	var sb strings.Builder
	src := "0"
	if c.AddSource {
		src = "1"
	}
	fmt.Fprintf(&sb, "rec %s %s %s %d %s %s %s %d", src, tb.encode(), hxs(res.TimeText), int(c.Level), hxs(res.File), hxs(res.LineNo), hxs(c.Msg), len(res.Chain))
	depth := 0
	for _, op := range res.Chain {
		if op.Group {
			fmt.Fprintf(&sb, " W %s", hxs(op.Name))
			depth++
			continue
		}
		fmt.Fprintf(&sb, " A %d", len(op.Attrs))
		for _, n := range op.Attrs {
			textEncodeNode(&sb, n)
			rawCheck(n)
		}
	}
	fmt.Fprintf(&sb, " %d", len(res.Attrs))
	for _, n := range res.Attrs {
		textEncodeNode(&sb, n)
		rawCheck(n)
	}
	var impl string
	if res.Panic != "" {
		impl = "panic:" + res.Panic
	} else {
		impl = hx(res.Line) + " " + textPairs(want) + " rt=ok"
	}
	s.Line(sb.String(), impl)
	s.Traces++
	// statistics
	s.Count(fmt.Sprintf("chain-len:%d", len(res.Chain)))
	if c.ViaLogger {
		s.Count("driven:Logger")
	} else {
		s.Count("driven:Handler")
	}
	if c.AddSource {
		s.Count("source:on")
	}
	line := string(res.Line)
	if i := strings.IndexByte(line, ' '); i > 0 && (strings.Contains(line[i:], "\"") || depth > 0 || hasGroup) {
		s.Nontrivial(line[i:])
	}
	if s.Evaluations%997 == 1 {
		s.Sample(map[string]any{"line": line, "pairs": want})
	}
}

// str op: one string through appendTextString, observed as the msg token of a record
func (e *textEmitter) emitStr(str string) {
	s := e.s
	w := &textCapture{}
	l := logger.New(logger.NewTextHandler(w, logger.NewOptions(logger.LevelDebug, false, false)))
	l.Info(str)
	s.Evaluations++
	line := string(w.data)
	const mark = " level=INFO msg="
	i := strings.Index(line, mark)
	tok := ""
	if i < 5 || !strings.HasSuffix(line, "\n") {
		s.Violate("line-does-not-tokenize", fmt.Sprintf("unexpected line %q", line), hxs(str))
	} else {
		tok = line[i+len(mark) : len(line)-1]
		want := [][2]string{{"time", line[5:i]}, {"level", "INFO"}, {"msg", str}}
		if kind, detail := textOracle(w.data, w.writes, want); kind != "" {
			s.Violate(kind, detail, map[string]any{"msg_hex": hxs(str), "line_hex": hxs(line)})
		}
	}
	if bad := textQuoteContract(str); bad != "" {
		s.Violate("assumption-strconv-contract", bad+" fails for "+strconv.QuoteToASCII(str), hxs(str))
	}
	tb := newTextTables()
	tb.add(str)
	mode := "b"
	if tok != str || str == "" {
		mode = "q"
		s.Nontrivial(tok)
	}
	s.Count("str-op:" + mode)
	s.Line("str "+tb.encode()+" "+hxs(str), hxs(tok)+" "+mode+" rt=ok")
}

func (e *textEmitter) placed(r *Rng, str string, pos int) {
	c := &textCase{ViaLogger: r.Bool(), Method: r.Intn(3), Level: logger.LevelInfo, Msg: "m", Time: time.Unix(1692117315, 0).UTC(), AddSource: r.Chance(10)}
	leaf := slog.String("k", "v")
	switch pos % 6 {
	case 0:
		c.Attrs = []slog.Attr{slog.String(str, "v")}
	case 1:
		c.Attrs = []slog.Attr{slog.String("k", str)}
	case 2:
		c.Msg = str
		c.Attrs = []slog.Attr{leaf}
	case 3:
		c.Chain = []textChainOp{{Group: true, Name: str}}
		c.Attrs = []slog.Attr{leaf}
	case 4:
		c.Attrs = []slog.Attr{{Key: str, Value: slog.GroupValue(leaf, slog.Any("e", textErr{str}))}}
	case 5:
		c.Chain = []textChainOp{{Group: true, Name: "g"}, {Attrs: []slog.Attr{slog.Any(str, textTMOk{str})}}}
		c.Attrs = []slog.Attr{{Key: "", Value: slog.GroupValue(slog.String(str, str))}}
	}
	e.emit(c)
}

func runText(cfg Cfg) {
	s := NewStream(cfg.Out, "text")
	defer s.Close()
	s.Rule = "real TextHandler (colour off) through Logger methods and Handler methods; keys/group names/messages/values from hostile byte soup (space = \" \\ newline DEL NEL NBSP LS BOM U+FFFD invalid UTF-8), every value kind incl. TextMarshaler ok/err/panic, error, []byte, AnsiString, LogValuer, typed-nil pointers, nested/inline/empty groups, chains of 0..5 With/WithGroup; exhaustive 1-byte strings in every position (quick), all 2-byte strings and every Unicode scalar (thorough); non-trivial = line with a quoted token or a dotted path, distinct by the bytes after the time token"
	e := &textEmitter{s: s}
	rng := NewRng(cfg.Seed)

	// fixed regression-style cases first
	for _, str := range []string{"", " ", "=", "\"", "\\", "\n", "a b", "a=b", "\x7f", "\u0085", "\u00a0", "\u2028", "\ufeff", "\ufffd", "\xff", "a\xe2\x82", "a.b", ".", "\u00b5"} {
		for pos := 0; pos < 6; pos++ {
			e.placed(rng, str, pos)
		}
	}
	// exhaustive small domains
	for b := 0; b < 256; b++ {
		str := string([]byte{byte(b)})
		e.emitStr(str)
		for pos := 0; pos < 6; pos++ {
			e.placed(rng, str, pos)
		}
	}
	if cfg.Thorough() {
		for a := 0; a < 256; a++ {
			for b := 0; b < 256; b++ {
				str := string([]byte{byte(a), byte(b)})
				e.emitStr(str)
				e.placed(rng, str, a*256+b)
			}
		}
		n := 0
		for r := rune(0); r <= unicode.MaxRune; r++ {
			if r >= 0xD800 && r <= 0xDFFF {
				// surrogates have no UTF-8 form: feed the 3-byte pattern (invalid UTF-8)
				e.emitStr(string([]byte{0xED, byte(0xA0 | (r>>6)&0x1F), byte(0x80 | r&0x3F)}))
				continue
			}
			e.emitStr(string(r))
			if n++; n%23 == 0 {
				e.placed(rng, "a"+string(r), n)
			}
		}
		// beyond U+10FFFF, overlong forms and 5-byte lead bytes
		for _, str := range []string{"\xf4\x90\x80\x80", "\xc0\x80", "\xc1\xbf", "\xe0\x80\x80", "\xe0\x9f\xbf", "\xf0\x80\x80\x80", "\xf0\x8f\xbf\xbf", "\xf8\x88\x80\x80\x80", "\xfe", "\xff"} {
			e.emitStr(str)
			e.emitStr("a" + str + "b")
		}
		s.Exhaustive = true
		s.Notes = append(s.Notes, "exhaustive: all 1-byte strings in 6 positions, all 65536 2-byte strings (str op and one position each), every Unicode scalar and every surrogate pattern through appendTextString")
	} else {
		// quick: a sample of 2-byte strings and scalars
		for i := 0; i < 4000; i++ {
			e.emitStr(string(rng.Bytes(2)))
		}
		for i := 0; i < 6000; i++ {
			r := rune(rng.Intn(0x110000))
			if r >= 0xD800 && r <= 0xDFFF {
				continue
			}
			e.emitStr(string(r))
		}
		s.Notes = append(s.Notes, "exhaustive: all 1-byte strings in 6 positions; 2-byte strings and Unicode scalars sampled (exhaustive in the thorough tier)")
	}
	// random chains / records
	for i, n := 0, cfg.N(40000, 400000); i < n; i++ {
		e.emit(textRandomCase(rng.Fork(), s))
	}
	s.Notes = append(s.Notes, "excluded by design: colour on (property says colour off); levels other than the five valid ones; LogValuers that panic (slog embeds a stack trace)")
}
