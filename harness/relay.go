package main

// Stream "relay" (C15): handler behaviour scripts run on the real httpd.Mux with
// logger.New(h).Relay as relay handler, for all three log handlers, every threshold, plain and
// colourful, through httptest.ResponseRecorder (sequentially and 32 at a time) and, in the
// thorough tier, through a real loopback http.Server with 32 requests in flight.
//
// op / answer lines: see lean/Glb/Driver/Relay.lean. The answer is rebuilt from what was
// OBSERVED: the parsed log records (JSON with encoding/json, Text with a small tokenizer, Nano
// positionally), the status the client / recorder received, whether the body is net/http's
// "Internal Server Error" page, and whether a panic reached the harness' recover around ServeHTTP.
//
// Direct oracle (independent of the Lean model): the contract of C15 evaluated per request.

import (
	"bytes"
	"encoding/json"
	"errors"
	"fmt"
	"io"
	"log"
	"log/slog"
	"net"
	"net/http"
	"net/http/httptest"
	"net/url"
	"os"
	"regexp"
	"strconv"
	"strings"
	"sync"
	"syscall"
	"time"

	"github.com/whoisnian/glb/httpd"
	"github.com/whoisnian/glb/logger"
)

func init() { streams["relay"] = runRelay }

// ---- panic values ------------------------------------------------------------------------------

type rlPayload struct {
	A int
	B string
}

type rlBadErr struct{}

func (rlBadErr) Error() string { panic("inner") }

const rlKinds = 16

var rlKindNames = []string{"", "string", "error", "int", "struct", "func", "typed-nil-ptr-error", "Error()-panics",
	"panic(nil)", "runtime-error", "quoted-unicode-string", "wrapped-ErrAbortHandler",
	"slice", "map", "struct-with-slice", "net.OpError(EPIPE)", "net.OpError(ECONNRESET)"}

// rlPanic panics with value kind k (never returns).
func rlPanic(k int) {
	switch k {
	case 1:
		panic("boom str")
	case 2:
		panic(errors.New("boom err=1"))
	case 3:
		panic(42)
	case 4:
		panic(rlPayload{7, "x y"})
	case 5:
		panic(func() {})
	case 6:
		panic((*os.PathError)(nil))
	case 7:
		panic(rlBadErr{})
	case 8:
		var e error
		panic(e) // Go >= 1.21: becomes *runtime.PanicNilError
	case 9:
		var m map[string]int
		m["x"] = 1
	case 10:
		panic("he said \"hi\" \u00e9=1")
	case 11:
		panic(fmt.Errorf("wrapped: %w", http.ErrAbortHandler))
	case 12:
		panic([]string{"not", "hashable"}) // values of these three kinds cannot be map keys or be compared
	case 13:
		panic(map[string]int{"k": 1})
	case 14:
		panic(struct {
			Why  string
			Tags []string
		}{"bad", []string{"t"}})
	case 15: // an error of SOME OTHER connection (an upstream the handler talks to), not of this request's
		panic(&net.OpError{Op: "write", Net: "tcp", Err: os.NewSyscallError("write", syscall.EPIPE)})
	case 16:
		panic(&net.OpError{Op: "read", Net: "tcp", Err: os.NewSyscallError("read", syscall.ECONNRESET)})
	}
	panic("rl: unknown kind " + strconv.Itoa(k))
}

// rlValueOK: does the decoded text of the Error record's panic attribute show value kind k?
// Deliberately lenient where the textual form is handler specific (struct, func, nil pointers).
func rlValueOK(k int, v string) bool {
	switch k {
	case 1:
		return v == "boom str"
	case 2:
		return v == "boom err=1"
	case 3:
		return v == "42"
	case 4:
		return strings.Contains(v, "7") && strings.Contains(v, "x y")
	case 5:
		return v != ""
	case 6:
		return strings.Contains(v, "nil")
	case 7:
		return strings.Contains(v, "inner")
	case 8:
		return strings.Contains(v, "nil")
	case 9:
		return strings.Contains(v, "nil map")
	case 10:
		return v == "he said \"hi\" \u00e9=1"
	case 11:
		return strings.Contains(v, "abort")
	case 12:
		return strings.Contains(v, "hashable")
	case 13:
		return strings.Contains(v, "k")
	case 14:
		return strings.Contains(v, "bad")
	case 15:
		return strings.Contains(v, "broken pipe")
	case 16:
		return strings.Contains(v, "reset")
	}
	return false
}

// ---- scripts ----------------------------------------------------------------------------------

// A script is a list of tokens executed by the real handler:
//
//	h<code>  store.W.WriteHeader(code)          model: h<code>
//	w        store.W.Write("w")                 model: w
//	R        store.Respond200(nil)              model: h200
//	Rw       store.Respond200("body")           model: h200,w
//	J        store.RespondJson(1)               model: w
//	flush    store.W.Flush()                    model: f   (implicit 200 when nothing was sent yet)
//	flusherr store.W.FlushError()               model: f
//	copy     io.Copy(store.W, reader w/o WriteTo) model: w   (takes ResponseWriter.ReadFrom if there is one)
//	copyfile io.Copy(store.W, *os.File)         model: w   (File.WriteTo falls back to a generic copy -> ReadFrom)
//	wstr     io.WriteString(store.W, "s")       model: w   (takes ResponseWriter.WriteString if there is one)
//	E404     store.Error404("own404")           model: h404,w
//	E500     store.Error500("own500")           model: h500,w
//	p<k>     panic with value kind k            model: p<k>
//	pa       panic(http.ErrAbortHandler)        model: pa
//	r        return                             model: r
func rlModelTokens(tok string) []string {
	switch tok {
	case "R":
		return []string{"h200"}
	case "Rw":
		return []string{"h200", "w"}
	case "J":
		return []string{"w"}
	case "E404":
		return []string{"h404", "w"}
	case "E500":
		return []string{"h500", "w"}
	case "flush", "flusherr":
		return []string{"f"}
	case "copy", "copyfile", "wstr", "w0":
		return []string{"w"}
	}
	return []string{tok}
}

func rlModelBeh(script []string) []string {
	var out []string
	for _, t := range script {
		out = append(out, rlModelTokens(t)...)
	}
	return out
}

func rlExec(store *httpd.Store, script string) {
	if script == "" || script == "-" {
		return
	}
	for _, tok := range strings.Split(script, ",") {
		switch {
		case tok == "w":
			store.W.Write([]byte("w"))
		case tok == "R":
			store.Respond200(nil)
		case tok == "Rw":
			store.Respond200([]byte("body"))
		case tok == "J":
			store.RespondJson(1)
		case tok == "E404":
			store.Error404("own404")
		case tok == "E500":
			store.Error500("own500")
		case tok == "flush":
			store.W.Flush()
		case tok == "flusherr":
			store.W.FlushError()
		case tok == "copy":
			// the wrapper hides strings.Reader's WriteTo, so io.Copy looks for dst.(io.ReaderFrom)
			io.Copy(store.W, struct{ io.Reader }{strings.NewReader("c")})
		case tok == "copyfile":
			if f, err := os.Open(rlCopyFilePath()); err == nil {
				io.Copy(store.W, f)
				f.Close()
			} else {
				store.W.Write([]byte("cf")) // keep the behaviour "writes" even if the file is gone
			}
		case tok == "wstr":
			io.WriteString(store.W, "s")
		case tok == "w0":
			store.W.Write(nil) // a zero-length first write still commits the implicit 200
		case tok == "r":
			return
		case tok == "pa":
			panic(http.ErrAbortHandler)
		case tok[0] == 'h':
			c, _ := strconv.Atoi(tok[1:])
			store.W.WriteHeader(c)
		case tok[0] == 'p':
			k, _ := strconv.Atoi(tok[1:])
			rlPanic(k)
		}
	}
}

var rlCopyFile struct {
	once sync.Once
	path string
}

// rlCopyFilePath: a small file for the copyfile token (created once, removed by runRelay).
func rlCopyFilePath() string {
	rlCopyFile.once.Do(func() {
		f, err := os.CreateTemp("", "glb-verif-relay-copy-")
		if err != nil {
			fatal(err)
		}
		f.WriteString("file body")
		f.Close()
		rlCopyFile.path = f.Name()
	})
	return rlCopyFile.path
}

// what a behaviour (model tokens) does, read off the script alone — the oracle's own semantics
type rlSem struct {
	status    int  // status the handler itself set first (explicit or 200 by writing / flushing); 0 = none
	panicKind int  // 0 = returns, -1 = ErrAbortHandler, k
	inScope   bool // status set once, codes 200..599, not ErrAbortHandler
}

func rlSemOf(beh []string) rlSem {
	sem := rlSem{inScope: true}
	set := false
	for _, t := range beh {
		switch {
		case t == "r":
			return sem
		case t == "pa":
			sem.panicKind = -1
			sem.inScope = false
			return sem
		case t[0] == 'p':
			sem.panicKind, _ = strconv.Atoi(t[1:])
			return sem
		case t == "w", t == "f":
			if !set {
				set, sem.status = true, 200 // the implicit 200 of the first write or flush
			}
		case t[0] == 'h':
			c, _ := strconv.Atoi(t[1:])
			if c < 200 || c > 599 {
				sem.inScope = false
			}
			if set {
				sem.inScope = false // a second status: outside "set once"
			} else {
				set, sem.status = true, c
			}
		}
	}
	return sem
}

// ---- muxes ------------------------------------------------------------------------------------

type rlLockedBuf struct {
	mu sync.Mutex
	b  bytes.Buffer
}

func (l *rlLockedBuf) Write(p []byte) (int, error) {
	l.mu.Lock()
	defer l.mu.Unlock()
	return l.b.Write(p)
}
func (l *rlLockedBuf) Take() string {
	l.mu.Lock()
	defer l.mu.Unlock()
	s := l.b.String()
	l.b.Reset()
	return s
}

type rlMux struct {
	handler  string // nano | text | json
	thr      int
	colorful bool
	scripted bool // no-route handler executes the script too (else: the Mux's default 404 handler)
	buf      *rlLockedBuf
	mux      *httpd.Mux
	ids      sync.Map // case key -> request id seen by the relay handler
}

var rlLevels = []int{0, 4, 8, 12, 16}

func rlNewMux(handler string, thr int, colorful, scriptedNoRoute bool) *rlMux {
	m := &rlMux{handler: handler, thr: thr, colorful: colorful, scripted: scriptedNoRoute, buf: &rlLockedBuf{}}
	opts := logger.NewOptions(slog.Level(thr), colorful, false)
	var h logger.Handler
	switch handler {
	case "nano":
		h = logger.NewNanoHandler(m.buf, opts)
	case "text":
		h = logger.NewTextHandler(m.buf, opts)
	default:
		h = logger.NewJsonHandler(m.buf, opts)
	}
	lg := logger.New(h)
	m.mux = httpd.NewMux()
	m.mux.HandleRelay(func(store *httpd.Store) {
		if k := store.R.Header.Get("X-Rl-Case"); k != "" {
			m.ids.Store(k, strings.Clone(store.GetID()))
		}
		lg.Relay(store)
	})
	run := func(store *httpd.Store) { rlExec(store, store.R.Header.Get("X-Rl-Script")) }
	m.mux.Handle("/s/:name", httpd.MethodAll, run)
	m.mux.Handle("/any/*", httpd.MethodAll, run)
	m.mux.Handle("/get", http.MethodGet, run)
	if scriptedNoRoute {
		m.mux.HandleNoRoute(run)
	}
	return m
}

// ---- log parsing --------------------------------------------------------------------------------

type rlRec struct {
	Tag    string // REQ_BEG | REQ_END | ERR
	Level  string // I | E | other
	Code   int
	IP     string
	Method string
	Path   string
	Tid    string
	Panic  string
	Bad    string // parse problem
}

var rlAnsi = regexp.MustCompile("\x1b\\[[0-9;]*m")
var rlNanoStart = regexp.MustCompile(`^\d{4}-\d\d-\d\d \d\d:\d\d:\d\d \[([DIWEF])\]`)

func rlLevelLetter(s string) string {
	switch s {
	case "INFO":
		return "I"
	case "ERROR":
		return "E"
	case "DEBUG":
		return "D"
	case "WARN":
		return "W"
	case "FATAL":
		return "F"
	}
	return "?" + s
}

func rlFromMap(get func(string) (string, bool), level string) rlRec {
	r := rlRec{Level: level}
	tag, _ := get("tag")
	r.Tid, _ = get("tid")
	switch tag {
	case "REQ_BEG", "REQ_END":
		r.Tag = tag
		r.IP, _ = get("ip")
		r.Method, _ = get("method")
		r.Path, _ = get("path")
		if tag == "REQ_END" {
			c, ok := get("code")
			n, err := strconv.Atoi(c)
			if !ok || err != nil {
				r.Bad = "REQ_END without integer code: " + c
			}
			r.Code = n
			if _, ok := get("dur"); !ok {
				r.Bad = "REQ_END without dur"
			}
		}
	default:
		if p, ok := get("panic"); ok {
			r.Tag, r.Panic = "ERR", p
		} else {
			r.Tag, r.Bad = "?", "record that is neither REQ_BEG, REQ_END nor a panic record"
		}
	}
	return r
}

func rlParseText(line string) rlRec {
	kv := map[string]string{}
	i := 0
	readItem := func(stop byte) (string, bool) {
		if i < len(line) && line[i] == '"' {
			q, err := strconv.QuotedPrefix(line[i:])
			if err != nil {
				return "", false
			}
			i += len(q)
			s, err := strconv.Unquote(q)
			return s, err == nil
		}
		j := i
		for j < len(line) && line[j] != stop && line[j] != ' ' {
			j++
		}
		s := line[i:j]
		i = j
		return s, true
	}
	for i < len(line) {
		k, ok := readItem('=')
		if !ok || i >= len(line) || line[i] != '=' {
			return rlRec{Tag: "?", Bad: "text: cannot tokenize at " + strconv.Itoa(i)}
		}
		i++
		v, ok := readItem(' ')
		if !ok {
			return rlRec{Tag: "?", Bad: "text: bad quoted value at " + strconv.Itoa(i)}
		}
		if _, dup := kv[k]; dup {
			return rlRec{Tag: "?", Bad: "text: duplicate key " + k}
		}
		kv[k] = v
		if i < len(line) {
			if line[i] != ' ' {
				return rlRec{Tag: "?", Bad: "text: expected space at " + strconv.Itoa(i)}
			}
			i++
		}
	}
	return rlFromMap(func(k string) (string, bool) { v, ok := kv[k]; return v, ok }, rlLevelLetter(kv["level"]))
}

func rlParseJSON(line string) rlRec {
	var m map[string]any
	dec := json.NewDecoder(strings.NewReader(line))
	dec.UseNumber()
	if err := dec.Decode(&m); err != nil {
		return rlRec{Tag: "?", Bad: "json: " + err.Error()}
	}
	get := func(k string) (string, bool) {
		v, ok := m[k]
		if !ok {
			return "", false
		}
		switch x := v.(type) {
		case string:
			return x, true
		case json.Number:
			return x.String(), true
		default:
			b, _ := json.Marshal(x)
			return string(b), true
		}
	}
	lv, _ := get("level")
	return rlFromMap(get, rlLevelLetter(lv))
}

// rlParseNano: one record = the lines from a "date time [L]" line up to the next one.
func rlParseNano(rec string) rlRec {
	m := rlNanoStart.FindStringSubmatch(rec)
	if m == nil {
		return rlRec{Tag: "?", Bad: "nano: no header"}
	}
	level := m[1]
	rest := strings.TrimSuffix(rec[len(m[0]):], "\n")
	if level == "E" {
		// " <stack trace…>\n <panic value> <tid>"
		nl := strings.LastIndexByte(rest, '\n')
		last := strings.TrimPrefix(rest[nl+1:], " ")
		sp := strings.LastIndexByte(last, ' ')
		if nl < 0 || sp < 0 {
			return rlRec{Tag: "?", Level: level, Bad: "nano: error record without value/tid line"}
		}
		return rlRec{Tag: "ERR", Level: level, Panic: last[:sp], Tid: last[sp+1:]}
	}
	f := strings.Split(strings.TrimPrefix(rest, " "), " ")
	switch {
	case len(f) == 5 && f[0] == "REQ_BEG":
		return rlRec{Tag: "REQ_BEG", Level: level, IP: f[1], Method: f[2], Path: f[3], Tid: f[4]}
	case len(f) == 7 && f[0] == "REQ_END":
		c, err := strconv.Atoi(f[1])
		r := rlRec{Tag: "REQ_END", Level: level, Code: c, IP: f[3], Method: f[4], Path: f[5], Tid: f[6]}
		if err != nil {
			r.Bad = "nano: REQ_END code " + f[1]
		}
		return r
	}
	return rlRec{Tag: "?", Level: level, Bad: "nano: unexpected record shape"}
}

func rlParseLog(handler, raw string) []rlRec {
	raw = rlAnsi.ReplaceAllString(raw, "")
	var out []rlRec
	if handler == "nano" {
		var cur strings.Builder
		flush := func() {
			if cur.Len() > 0 {
				out = append(out, rlParseNano(cur.String()))
				cur.Reset()
			}
		}
		for _, line := range strings.SplitAfter(raw, "\n") {
			if line == "" {
				continue
			}
			if rlNanoStart.MatchString(line) {
				flush()
			}
			cur.WriteString(line)
		}
		flush()
		return out
	}
	for _, line := range strings.Split(raw, "\n") {
		if line == "" {
			continue
		}
		if handler == "text" {
			out = append(out, rlParseText(line))
		} else {
			out = append(out, rlParseJSON(line))
		}
	}
	return out
}

// ---- one request --------------------------------------------------------------------------------

type rlCase struct {
	Handler  string   `json:"handler"`
	Thr      int      `json:"threshold"`
	Colorful bool     `json:"colorful"`
	Scripted bool     `json:"scripted_noroute"`
	Method   string   `json:"method"`
	URI      string   `json:"uri"`
	Remote   string   `json:"remote_addr,omitempty"`
	Script   []string `json:"script"` // tokens executed by the real handler ("default-404" for the Mux's own no-route handler)
	Via      string   `json:"via"`    // recorder | recorder-concurrent | server
	key      string
}

type rlObs struct {
	code     int    // status the client / recorder received (0: nothing was sent and a panic escaped)
	body     string // response body
	escaped  any    // value caught by the harness' recover around ServeHTTP
	didPanic bool
	id       string // request id seen by the relay handler
	ip       string // expected client ip
	recs     []rlRec
}

// rlWriter notes whether anything was sent at all (needed only when a panic escapes).
type rlWriter struct {
	http.ResponseWriter
	sent bool
}

func (w *rlWriter) WriteHeader(c int)           { w.sent = true; w.ResponseWriter.WriteHeader(c) }
func (w *rlWriter) Write(b []byte) (int, error) { w.sent = true; return w.ResponseWriter.Write(b) }
func (w *rlWriter) Flush() {
	w.sent = true
	if f, ok := w.ResponseWriter.(http.Flusher); ok {
		f.Flush()
	}
}

func rlServe(m *rlMux, w http.ResponseWriter, r *http.Request) (escaped any, did bool) {
	defer func() {
		if e := recover(); e != nil {
			escaped, did = e, true
		}
	}()
	m.mux.ServeHTTP(w, r)
	return nil, false
}

func rlHostOf(remote string) string {
	i := strings.LastIndexByte(remote, ':')
	h := remote[:i]
	if strings.HasPrefix(h, "[") && strings.HasSuffix(h, "]") {
		h = h[1 : len(h)-1]
	}
	return h
}

func rlScriptOf(c rlCase) []string {
	if len(c.Script) == 1 && c.Script[0] == "default-404" {
		return []string{"E404"}
	}
	return c.Script
}

// rlRecorder runs one case through httptest.ResponseRecorder (records are NOT collected here).
func rlRecorder(m *rlMux, c rlCase) rlObs {
	req := httptest.NewRequest(c.Method, c.URI, nil)
	req.RemoteAddr = c.Remote
	req.Header.Set("X-Rl-Case", c.key)
	req.Header.Set("X-Rl-Script", strings.Join(c.Script, ","))
	rec := httptest.NewRecorder()
	w := &rlWriter{ResponseWriter: rec}
	esc, did := rlServe(m, w, req)
	o := rlObs{code: rec.Code, body: rec.Body.String(), escaped: esc, didPanic: did, ip: rlHostOf(c.Remote)}
	if did && !w.sent {
		o.code = 0
	}
	if id, ok := m.ids.LoadAndDelete(c.key); ok {
		o.id = id.(string)
	}
	return o
}

// ---- oracle + answer line -----------------------------------------------------------------------

func rlAnswer(c rlCase, o rlObs) (op, impl string) {
	beh := rlModelBeh(rlScriptOf(c))
	sem := rlSemOf(beh)
	b := "-"
	if len(beh) > 0 {
		b = strings.Join(beh, ",")
	}
	op = fmt.Sprintf("req %s %d %s %s %s %s %s", c.Handler, c.Thr, hxs(c.Method), hxs(c.URI), hxs(o.ip), hxs(o.id), b)
	esc := "none"
	if o.didPanic {
		switch {
		case o.escaped == http.ErrAbortHandler:
			esc = "abort"
		case sem.panicKind > 0:
			esc = strconv.Itoa(sem.panicKind)
		default:
			esc = "?"
		}
	}
	var recs []string
	for _, r := range o.recs {
		switch r.Tag {
		case "REQ_BEG":
			recs = append(recs, fmt.Sprintf("BEG:%s:%s:%s:%s", hxs(r.Method), hxs(r.Path), hxs(r.IP), hxs(r.Tid)))
		case "REQ_END":
			recs = append(recs, fmt.Sprintf("END:%d:%s:%s:%s:%s", r.Code, hxs(r.Method), hxs(r.Path), hxs(r.IP), hxs(r.Tid)))
		case "ERR":
			k := "?"
			if sem.panicKind > 0 && rlValueOK(sem.panicKind, r.Panic) {
				k = strconv.Itoa(sem.panicKind)
			} else if sem.panicKind == -1 {
				k = "0"
			}
			recs = append(recs, fmt.Sprintf("ERR:%s:%s", k, hxs(r.Tid)))
		default:
			recs = append(recs, "BAD")
		}
	}
	l := "-"
	if len(recs) > 0 {
		l = strings.Join(recs, ";")
	}
	impl = fmt.Sprintf("esc=%s r500=%v wire=%d log=%s", esc, rlRelaySent500(o), o.code, l)
	return
}

func rlRelaySent500(o rlObs) bool { return strings.Contains(o.body, "Internal Server Error") }

// rlContract evaluates C15 on one observed request. Returns (kind, detail) of the first failed clause.
func rlContract(c rlCase, o rlObs) (string, string) {
	beh := rlModelBeh(rlScriptOf(c))
	sem := rlSemOf(beh)
	for _, r := range o.recs {
		if r.Bad != "" {
			return "unparsable-record", r.Bad
		}
	}
	if !sem.inScope {
		return "", ""
	}
	if o.didPanic {
		return "panic-escaped", fmt.Sprintf("panic value %v (kind %s) escaped Relay", o.escaped, rlKindNames[sem.panicKind])
	}
	want500 := sem.panicKind > 0 && sem.status == 0
	if got := rlRelaySent500(o); got != want500 {
		return "relay-500-iff", fmt.Sprintf("Relay sent its 500 page: %v, handler panicked before any status: %v", got, want500)
	}
	wantCode := sem.status
	if wantCode == 0 {
		wantCode = 200
		if sem.panicKind > 0 {
			wantCode = 500
		}
	}
	if o.code != wantCode {
		return "client-status", fmt.Sprintf("client received %d, behaviour %v should give %d", o.code, beh, wantCode)
	}
	var beg, end, errs []rlRec
	for _, r := range o.recs {
		switch r.Tag {
		case "REQ_BEG":
			beg = append(beg, r)
		case "REQ_END":
			end = append(end, r)
		case "ERR":
			errs = append(errs, r)
		}
	}
	if c.Thr <= 4 {
		if len(beg) != 1 || len(end) != 1 {
			return "req-records-once", fmt.Sprintf("%d REQ_BEG and %d REQ_END records at Info level", len(beg), len(end))
		}
		b, e := beg[0], end[0]
		if b.Level != "I" || e.Level != "I" {
			return "req-records-level", "REQ_ records not at Info level"
		}
		for _, r := range []rlRec{b, e} {
			if r.Method != c.Method || r.Path != c.URI || r.IP != o.ip || r.Tid != o.id {
				return "req-record-fields", fmt.Sprintf("%s says method=%q path=%q ip=%q tid=%q, request was %q %q from %q id %q",
					r.Tag, r.Method, r.Path, r.IP, r.Tid, c.Method, c.URI, o.ip, o.id)
			}
		}
		if e.Code != o.code {
			return "req-end-code", fmt.Sprintf("REQ_END code=%d but the client received %d", e.Code, o.code)
		}
		if o.recs[0].Tag != "REQ_BEG" || o.recs[len(o.recs)-1].Tag != "REQ_END" {
			return "req-record-order", "REQ_BEG is not the first or REQ_END not the last record of the request"
		}
	} else if len(beg)+len(end) != 0 {
		return "level-gate", fmt.Sprintf("REQ_ records written at threshold %d", c.Thr)
	}
	if c.Thr <= 12 {
		want := 0
		if sem.panicKind > 0 {
			want = 1
		}
		if len(errs) != want {
			return "error-record-once", fmt.Sprintf("%d Error records, handler panicked: %v", len(errs), want == 1)
		}
		if want == 1 {
			r := errs[0]
			if r.Level != "E" {
				return "error-record-level", "panic record not at Error level"
			}
			if r.Tid != o.id {
				return "error-record-id", fmt.Sprintf("Error record tid=%q, request id %q", r.Tid, o.id)
			}
			if !rlValueOK(sem.panicKind, r.Panic) {
				return "error-record-value", fmt.Sprintf("Error record shows %q for a panic value of kind %s", r.Panic, rlKindNames[sem.panicKind])
			}
		}
	} else if len(o.recs) != 0 {
		return "level-gate", fmt.Sprintf("%d records written at threshold %d", len(o.recs), c.Thr)
	}
	return "", ""
}

// ---- generators -----------------------------------------------------------------------------------

var rlMethods = []string{"GET", "POST", "PUT", "DELETE", "PATCH", "OPTIONS", "HEAD", "GET", "POST", "PROPFIND", "MKCOL", "PURGE", "QUERY", "get", "CONNECT", "TRACE"}
var rlRemotes = []string{"10.1.2.3:4567", "[::1]:8080", "[2001:db8::1]:443", "192.0.2.7:1", "localhost:99"}

func rlRandomTarget(r *Rng, scriptedNoRoute bool) (method, uri string, matched bool) {
	method = Pick(r, rlMethods)
	q := ""
	switch r.Intn(4) {
	case 0:
		q = "?q=" + strconv.Itoa(r.Intn(1000))
	case 1:
		q = "?a=b%20c&d=%22e%22"
	}
	switch r.Intn(7) {
	case 6:
		// request targets that net/url would spell differently from the wire (raw | { } and UTF-8)
		return method, "/s/n" + strconv.Itoa(r.Intn(50)) + Pick(r, []string{"|x", "{y}", "\u00fc", "^z", "`w"}) + q, true
	case 0, 1:
		return method, "/s/n" + strconv.Itoa(r.Intn(50)) + q, true
	case 2:
		return method, "/any/x/y/" + strconv.Itoa(r.Intn(9)) + q, true
	case 3:
		return "GET", "/get" + q, true
	case 4:
		if method == "GET" {
			method = "POST"
		}
		return method, "/get" + q, false // method mismatch: no route
	default:
		return method, "/nope/" + strconv.Itoa(r.Intn(99)) + q, false
	}
}

func rlRandomScript(r *Rng) []string {
	n := r.Intn(6)
	var s []string
	for i := 0; i < n; i++ {
		switch c := r.Intn(100); {
		case c < 22:
			codes := []int{200, 201, 204, 301, 304, 400, 403, 404, 418, 500, 503, 599}
			code := Pick(r, codes)
			if r.Chance(30) {
				code = 200 + r.Intn(400)
			}
			s = append(s, "h"+strconv.Itoa(code))
		case c < 45:
			s = append(s, "w")
		case c < 55:
			s = append(s, Pick(r, []string{"R", "Rw", "J", "E404", "E500", "flush", "flusherr", "flush", "flusherr", "copy", "copyfile", "wstr", "copy", "copyfile", "w0", "w0"}))
		case c < 90:
			s = append(s, "p"+strconv.Itoa(1+r.Intn(rlKinds)))
		case c < 94:
			s = append(s, "pa")
		default:
			s = append(s, "r")
		}
	}
	return s
}

// all scripts of length <= n over a small alphabet
func rlAllScripts(alpha []string, n int) [][]string {
	out := [][]string{{}}
	prev := [][]string{{}}
	for l := 1; l <= n; l++ {
		var next [][]string
		for _, p := range prev {
			for _, a := range alpha {
				next = append(next, append(append([]string{}, p...), a))
			}
		}
		out = append(out, next...)
		prev = next
	}
	return out
}

// ---- the stream -----------------------------------------------------------------------------------

type rlRun struct {
	s     *Stream
	muxes map[string]*rlMux
	n     int
}

func (rr *rlRun) mux(handler string, thr int, colorful bool) *rlMux {
	k := fmt.Sprintf("%s/%d/%v", handler, thr, colorful)
	m, ok := rr.muxes[k]
	if !ok {
		m = rlNewMux(handler, thr, colorful, colorful) // colourful muxes script the no-route handler too
		rr.muxes[k] = m
	}
	return m
}

// judge: oracle + correspondence line + statistics for one finished request.
func (rr *rlRun) judge(c rlCase, o rlObs, shrink bool) {
	s := rr.s
	op, impl := rlAnswer(c, o)
	s.Line(op, impl)
	s.Evaluations++
	sem := rlSemOf(rlModelBeh(rlScriptOf(c)))
	s.Count("via." + c.Via)
	s.Count("handler." + c.Handler)
	s.Count(fmt.Sprintf("threshold.%d", c.Thr))
	switch {
	case !sem.inScope:
		s.Count("behaviour.outside-quantifier(second status / ErrAbortHandler)")
	case sem.panicKind > 0 && sem.status == 0:
		s.Count("behaviour.panic-before-status")
	case sem.panicKind > 0:
		s.Count("behaviour.panic-after-status")
	case sem.status == 0:
		s.Count("behaviour.return-without-writing")
	default:
		s.Count("behaviour.return-after-writing")
	}
	for _, t := range c.Script {
		if t == "flush" || t == "flusherr" || t == "copy" || t == "copyfile" || t == "wstr" || t == "w0" {
			s.Count("behaviour.uses-" + t)
		}
	}
	if len(c.Script) > 0 && (c.Script[0] == "flush" || c.Script[0] == "flusherr") && sem.panicKind > 0 {
		s.Count("behaviour.flush-first-then-panic")
	}
	if sem.panicKind > 0 {
		s.Count("panic." + rlKindNames[sem.panicKind])
		if sem.inScope {
			s.Nontrivial(fmt.Sprintf("%s/%d/%v/%s", c.Handler, c.Thr, c.Colorful, strings.Join(c.Script, ",")))
		}
	}
	if len(c.Script) == 1 && c.Script[0] == "default-404" {
		s.Count("route.unmatched-default-handler")
	}
	if kind, detail := rlContract(c, o); kind != "" {
		if shrink && len(s.Violations) < 3 && len(c.Script) > 1 && c.Script[0] != "default-404" {
			c.Script = ddmin(c.Script, func(sc []string) bool {
				c2 := c
				c2.Script = sc
				k, _ := rlRunFresh(c2)
				return k != ""
			})
			if k2, d2 := rlRunFresh(c); k2 != "" {
				kind, detail = k2, d2
			}
		}
		s.Violate(kind, detail, c)
	}
	if len(s.Samples) < 4 && sem.panicKind > 0 {
		s.Sample(map[string]any{"case": c, "op": op, "answer": impl})
	}
}

// rlRunFresh replays one case sequentially on a fresh mux (shrinking, --replay).
func rlRunFresh(c rlCase) (string, string) {
	m := rlNewMux(c.Handler, c.Thr, c.Colorful, c.Scripted)
	c.key = "replay"
	if c.Remote == "" {
		c.Remote = "10.1.2.3:4567"
	}
	o := rlRecorder(m, c)
	o.recs = rlParseLog(c.Handler, m.buf.Take())
	return rlContract(c, o)
}

func (rr *rlRun) seq(c rlCase) {
	m := rr.mux(c.Handler, c.Thr, c.Colorful)
	c.Scripted = m.scripted
	rr.n++
	c.key = strconv.Itoa(rr.n)
	c.Via = "recorder"
	m.buf.Take()
	o := rlRecorder(m, c)
	o.recs = rlParseLog(c.Handler, m.buf.Take())
	rr.judge(c, o, true)
}

func rlFixScript(m *rlMux, matched bool, script []string) []string {
	if !matched && !m.scripted {
		return []string{"default-404"}
	}
	return script
}

// batch: many requests in flight on ONE mux; records are attributed by id afterwards.
func (rr *rlRun) batch(m *rlMux, cases []rlCase, via string, do func(c rlCase) rlObs) {
	s := rr.s
	m.buf.Take()
	obs := make([]rlObs, len(cases))
	var wg sync.WaitGroup
	next := make(chan int)
	for g := 0; g < 32; g++ {
		wg.Add(1)
		go func() {
			defer wg.Done()
			for i := range next {
				obs[i] = do(cases[i])
			}
		}()
	}
	for i := range cases {
		next <- i
	}
	close(next)
	wg.Wait()
	recs := rlParseLog(m.handler, m.buf.Take())
	byID := map[string]int{}
	for i := range cases {
		if obs[i].id == "" {
			s.Violate("no-request-id", "relay handler did not see an id", cases[i])
			continue
		}
		if j, dup := byID[obs[i].id]; dup {
			s.Violate("duplicate-id", fmt.Sprintf("requests %d and %d share id %q", j, i, obs[i].id), cases[i])
		}
		byID[obs[i].id] = i
	}
	for _, r := range recs {
		i, ok := byID[r.Tid]
		if !ok {
			s.Violate("orphan-record", fmt.Sprintf("record %+v belongs to no request of the batch", r), nil)
			continue
		}
		obs[i].recs = append(obs[i].recs, r)
	}
	for i, c := range cases {
		c.Via = via
		rr.judge(c, obs[i], false)
	}
	s.Traces++
}

func runRelay(cfg Cfg) {
	s := NewStream(cfg.Out, "relay")
	defer s.Close()
	s.Rule = "handler behaviour scripts (WriteHeader/Write/Flush/FlushError/io.Copy from a plain reader and from an *os.File/io.WriteString/Respond200/RespondJson/Error404/Error500/return/panic with 11 kinds of values/ErrAbortHandler) on the real Mux+Relay, 3 handlers x 5 thresholds x plain/colourful, matched, unmatched (default and scripted no-route handler) and method-mismatch routes; exhaustive scripts up to length 3 (quick) / 4 (thorough) over {h200,h404,h500,w,flush,p1,pa,r}, random longer ones, 32 requests in flight through recorders and through a real loopback server (both tiers: all scripts of length <= 2 over the writing entry points, plus random ones); plus (direct oracle only) nested dispatch through the same Mux with the outer store.W, refused protocol upgrades in an http.HandlerFunc mounted with CreateHandler, a ~20 KB request target followed by ordinary requests; evaluation = the C15 contract on one request; non-trivial = in-scope request whose handler panics, distinct by (handler, threshold, colour, script)"
	defer func() {
		if rlCopyFile.path != "" {
			os.Remove(rlCopyFile.path)
		}
	}()
	rng := NewRng(cfg.Seed)
	rr := &rlRun{s: s, muxes: map[string]*rlMux{}}
	handlers := []string{"nano", "text", "json"}

	if cfg.Replay != "" {
		rlReplay(cfg, rr)
		return
	}

	rlExtras(s, rng.Fork()) // nested dispatch, refused upgrades through CreateHandler, very large records (direct oracle only)

	// 1. exhaustive small scripts, every threshold, every handler
	all := rlAllScripts([]string{"h200", "h404", "h500", "w", "flush", "p1", "pa", "r"}, cfg.N(3, 4))
	for i, sc := range all {
		for _, thr := range rlLevels {
			for hi, h := range handlers {
				colorful := (i+hi+thr/4)%2 == 1
				m := rr.mux(h, thr, colorful)
				method, uri, matched := "GET", "/s/x", true
				if i%5 == 4 {
					method, uri, matched = "POST", "/nope", false
				}
				rr.seq(rlCase{Handler: h, Thr: thr, Colorful: colorful, Method: method, URI: uri,
					Remote: rlRemotes[i%len(rlRemotes)], Script: rlFixScript(m, matched, sc)})
			}
		}
	}
	s.Exhaustive = true
	s.Notes = append(s.Notes, fmt.Sprintf("exhaustive: %d scripts x 5 thresholds x 3 handlers", len(all)))

	// 2. random scripts: all panic kinds, all writing APIs, random targets
	nRand := cfg.N(1500, 20000)
	for i := 0; i < nRand; i++ {
		r := rng.Fork()
		sc := rlRandomScript(r)
		thr := Pick(r, rlLevels)
		if r.Chance(50) {
			thr = 4
		}
		colorful := r.Chance(30)
		for _, h := range handlers {
			m := rr.mux(h, thr, colorful)
			method, uri, matched := rlRandomTarget(r, m.scripted)
			rr.seq(rlCase{Handler: h, Thr: thr, Colorful: colorful, Method: method, URI: uri,
				Remote: Pick(r, rlRemotes), Script: rlFixScript(m, matched, sc)})
		}
	}

	// 3. 32 requests in flight through recorders
	nConc := cfg.N(320, 3000)
	for _, h := range handlers {
		for _, thr := range []int{0, 4} {
			r := rng.Fork()
			m := rlNewMux(h, thr, false, thr == 0)
			cases := make([]rlCase, nConc)
			for i := range cases {
				method, uri, matched := rlRandomTarget(r, m.scripted)
				cases[i] = rlCase{Handler: h, Thr: thr, Scripted: m.scripted, Method: method, URI: uri, Remote: Pick(r, rlRemotes),
					Script: rlFixScript(m, matched, rlRandomScript(r)), key: "c" + strconv.Itoa(i)}
			}
			rr.batch(m, cases, "recorder-concurrent", func(c rlCase) rlObs { return rlRecorder(m, c) })
		}
	}

	// 4. a real loopback server (net/http's own ResponseWriter: Flusher, FlushError, io.ReaderFrom, …),
	// 32 requests in flight — in BOTH tiers: every script of length <= 2 over the writing entry points
	// and terminators (so e.g. "copy,p1", "copyfile,p1", "flusherr,p1", "wstr,p1"), then random ones
	small := rlAllScripts([]string{"h200", "h404", "w", "w0", "flush", "flusherr", "copy", "copyfile", "wstr", "p1", "pa", "r"}, 2)
	for _, h := range handlers {
		r := rng.Fork()
		m := rlNewMux(h, 4, false, true)
		var cases []rlCase
		for i, sc := range small {
			method := "GET"
			if i%3 == 1 {
				method = "POST"
			}
			cases = append(cases, rlCase{Handler: h, Thr: 4, Scripted: true, Method: method, URI: "/s/x" + strconv.Itoa(i),
				Script: sc, key: "e" + strconv.Itoa(i)})
		}
		for i := 0; i < cfg.N(60, 3000); i++ {
			method, uri, matched := rlRandomTarget(r, m.scripted)
			if method == "HEAD" {
				method = "GET" // the body tells whether Relay sent its own 500 page
			}
			cases = append(cases, rlCase{Handler: h, Thr: 4, Scripted: true, Method: method, URI: uri,
				Script: rlFixScript(m, matched, rlRandomScript(r)), key: "n" + strconv.Itoa(i)})
		}
		rlServerBatch(rr, m, cases)
	}
	s.Notes = append(s.Notes, fmt.Sprintf("real loopback server (both tiers): %d scripts of length <= 2 over 11 tokens + %d random per handler", len(small), cfg.N(60, 3000)))
}

// rlServerBatch: the cases go through a real http.Server on a loopback port.
func rlServerBatch(rr *rlRun, m *rlMux, cases []rlCase) {
	var escMu sync.Mutex
	escaped := map[string]any{}
	outer := http.HandlerFunc(func(w http.ResponseWriter, r *http.Request) {
		if e, did := rlServe(m, w, r); did {
			escMu.Lock()
			escaped[r.Header.Get("X-Rl-Case")] = e
			escMu.Unlock()
		}
	})
	ln, err := net.Listen("tcp", "127.0.0.1:0")
	if err != nil {
		fatal(err)
	}
	srv := &http.Server{Handler: outer, ErrorLog: log.New(io.Discard, "", 0)}
	go srv.Serve(ln)
	defer srv.Close()
	client := &http.Client{
		Transport:     &http.Transport{MaxIdleConnsPerHost: 64},
		Timeout:       20 * time.Second,
		CheckRedirect: func(*http.Request, []*http.Request) error { return http.ErrUseLastResponse },
	}
	base := "http://" + ln.Addr().String()
	// Go's HTTP client percent-encodes characters such as { | } in the request line; "the request's
	// URI" is what travels on the wire, so the expectation uses that spelling
	for i := range cases {
		if u, err := url.Parse(base + cases[i].URI); err == nil {
			cases[i].URI = u.RequestURI()
		}
	}
	rr.batch(m, cases, "server", func(c rlCase) rlObs {
		req, err := http.NewRequest(c.Method, base+c.URI, nil)
		if err != nil {
			fatal(err)
		}
		req.Header.Set("X-Rl-Case", c.key)
		req.Header.Set("X-Rl-Script", strings.Join(c.Script, ","))
		o := rlObs{ip: "127.0.0.1"}
		resp, err := client.Do(req)
		if err == nil {
			b, _ := io.ReadAll(resp.Body)
			resp.Body.Close()
			o.code, o.body = resp.StatusCode, string(b)
		}
		escMu.Lock()
		if e, ok := escaped[c.key]; ok {
			o.escaped, o.didPanic = e, true
		}
		escMu.Unlock()
		if err != nil && !o.didPanic {
			o.body = "client error: " + err.Error()
		}
		if id, ok := m.ids.LoadAndDelete(c.key); ok {
			o.id = id.(string)
		}
		return o
	})
}

func rlReplay(cfg Cfg, rr *rlRun) {
	data, err := os.ReadFile(cfg.Replay)
	if err != nil {
		fatal(err)
	}
	var obj struct {
		Replay rlCase `json:"replay"`
	}
	if err := json.Unmarshal(data, &obj); err != nil {
		fatal(err)
	}
	c := obj.Replay
	if c.Remote == "" {
		c.Remote = "10.1.2.3:4567"
	}
	m := rlNewMux(c.Handler, c.Thr, c.Colorful, c.Scripted)
	c.key, c.Via = "replay", "recorder"
	o := rlRecorder(m, c)
	o.recs = rlParseLog(c.Handler, m.buf.Take())
	rr.judge(c, o, false)
}
