package main

// Stream `router` (C04): the real httpd.Mux against (a) the Lean router model (`handle` / `find`
// lines), (b) the Lean route-list specification (`spec` lines) and (c) a direct oracle: an
// independent Go re-implementation of the route-list specification, evaluated on EVERY request.

import (
	"errors"
	"fmt"
	"net/http"
	"net/http/httptest"
	"net/url"
	"runtime"
	"strconv"
	"strings"
	"sync"
	"sync/atomic"
	"time"

	"github.com/whoisnian/glb/httpd"
)

func init() { streams["router"] = runRouter }

type routerReg struct {
	Pattern string `json:"pattern"`
	Method  string `json:"method"`
}

// ---------------------------------------------------------------------------------------------
// direct oracle: the documented precedence over the plain list of registered routes

type routerSpElem struct {
	kind byte // 'l' literal, 'p' :param, 's' *
	s    string
}

type routerSpRoute struct {
	reg   routerReg
	elems []routerSpElem
}

var routerSpMethods = map[string]bool{"GET": true, "HEAD": true, "POST": true, "PUT": true, "PATCH": true,
	"DELETE": true, "CONNECT": true, "OPTIONS": true, "TRACE": true, "*": true}

// routerSpPattern: split on '/', drop empty fragments, '*' ends the pattern.
func routerSpPattern(p string) []routerSpElem {
	var out []routerSpElem
	for _, f := range strings.Split(p, "/") {
		switch {
		case f == "":
		case f == "*":
			return append(out, routerSpElem{'s', ""})
		case f[0] == ':':
			out = append(out, routerSpElem{'p', f[1:]})
		default:
			out = append(out, routerSpElem{'l', f})
		}
	}
	return out
}

type routerSpSeg struct{ seg, rest string }

// routerSpSegments: leading '/' assumed when absent; split on '/'; empty segments dropped except a
// final one; each segment with the remainder of the path from its first byte.
func routerSpSegments(path string) (segs []routerSpSeg, bodyEmpty bool) {
	body := strings.TrimPrefix(path, "/")
	if !strings.HasPrefix(path, "/") {
		body = path
	}
	pieces := strings.Split(body, "/")
	off := 0
	for i, pc := range pieces {
		if pc != "" || i == len(pieces)-1 {
			segs = append(segs, routerSpSeg{pc, body[off:]})
		}
		off += len(pc) + 1
	}
	return segs, body == ""
}

// routerSpRegister: the class of error Handle must raise ("" = accepted) and the number of captures.
func routerSpRegister(ok []routerSpRoute, r routerReg) (string, int, []routerSpElem) {
	if !routerSpMethods[r.Method] {
		return "invalid-method", 0, nil
	}
	es := routerSpPattern(r.Pattern)
	seen := map[string]bool{}
	caps := 0
	for _, e := range es {
		if e.kind == 'p' {
			if e.s == "" || seen[e.s] {
				return "invalid-fragment", 0, nil
			}
			seen[e.s] = true
		}
		if e.kind != 'l' {
			caps++
		}
	}
	for _, o := range ok {
		if o.reg.Method == r.Method && routerSameShape(o.elems, es) {
			return "duplicate-method", 0, nil
		}
	}
	return "", caps, es
}

func routerSameShape(a, b []routerSpElem) bool {
	if len(a) != len(b) {
		return false
	}
	for i := range a {
		if a[i].kind != b[i].kind || (a[i].kind == 'l' && a[i].s != b[i].s) {
			return false
		}
	}
	return true
}

type routerSpResult struct {
	id        int // -1: no route
	vals      []string
	contested bool // some step had more than one kind of continuation, or `*`-method fallback, or root case
}

func routerSpPick(tb []routerSpRoute, cands []int, depth int, method string) (int, bool) {
	exact, all := -1, -1
	for _, c := range cands {
		if len(tb[c].elems) != depth {
			continue
		}
		if tb[c].reg.Method == method && exact < 0 {
			exact = c
		}
		if tb[c].reg.Method == "*" && all < 0 {
			all = c
		}
	}
	if exact >= 0 {
		return exact, all >= 0 && all != exact
	}
	return all, all >= 0
}

// routerSpFind: the selection rule of the property text. buf* are scratch slices.
func routerSpFind(tb []routerSpRoute, segs []routerSpSeg, bodyEmpty bool, method string, res *routerSpResult, bufA, bufB []int) {
	res.id, res.vals, res.contested = -1, res.vals[:0], false
	cands := bufA[:0]
	for i := range tb {
		cands = append(cands, i)
	}
	if bodyEmpty {
		if r, _ := routerSpPick(tb, cands, 0, method); r >= 0 {
			res.id, res.contested = r, true
			return
		}
	}
	depth := 0
	next := bufB[:0]
	for _, sg := range segs {
		nl, np, ns := 0, 0, 0
		for _, c := range cands {
			if len(tb[c].elems) > depth {
				switch e := tb[c].elems[depth]; e.kind {
				case 'l':
					if e.s == sg.seg {
						nl++
					}
				case 'p':
					np++
				case 's':
					ns++
				}
			}
		}
		if (nl > 0 && np+ns > 0) || (np > 0 && ns > 0) {
			res.contested = true
		}
		var want byte
		switch {
		case nl > 0:
			want = 'l'
		case np > 0:
			want = 'p'
			res.vals = append(res.vals, sg.seg)
		case ns > 0:
			want = 's'
			res.vals = append(res.vals, sg.rest)
		default:
			return
		}
		next = next[:0]
		for _, c := range cands {
			if len(tb[c].elems) > depth {
				e := tb[c].elems[depth]
				if e.kind == want && (want != 'l' || e.s == sg.seg) {
					next = append(next, c)
				}
			}
		}
		cands, next = next, cands
		depth++
		if want == 's' {
			break
		}
	}
	r, fb := routerSpPick(tb, cands, depth, method)
	res.id = r
	if fb {
		res.contested = true
	}
}

// ---------------------------------------------------------------------------------------------
// observation of one request on the real Mux

type routerObs struct {
	calls    int
	id       int // -1: the no-route handler ran
	ipath    string
	imethod  string
	K, V     []string
	any      string
	gets     []string
	panicked string
	nrGen    int // which installation of the no-route handler ran
}

type routerLine struct{ op, out string }

type routerWorker struct {
	rec                                  *httptest.ResponseRecorder
	req                                  *http.Request
	cur                                  routerObs
	panicNow                             bool // the next handler that runs panics after recording
	lazyNow                              bool // the next handler that runs registers a further route on its Mux
	curMux                               *httpd.Mux
	names                                []string // every :name of the current table (probed by every handler)
	lines                                []routerLine
	cnt                                  map[string]int
	nTaint, nNoRoute, nMatched, nNontriv int
	nontrCap                             int
	failed                               bool
	evals                                int
	viol                                 []Violation
	nontr                                map[string]struct{}
	res                                  routerSpResult
	bufA                                 []int
	bufB                                 []int
	smpl                                 []any
}

func routerNewWorker() *routerWorker {
	return &routerWorker{rec: httptest.NewRecorder(), req: &http.Request{URL: &url.URL{}, Header: http.Header{}},
		cnt: map[string]int{}, nontr: map[string]struct{}{}}
}

func (w *routerWorker) record(id int, s *httpd.Store) {
	c := &w.cur
	c.calls++
	c.id = id
	c.ipath, c.imethod = s.I.Path, s.I.Method
	c.K = append(c.K[:0], s.P.K...)
	c.V = append(c.V[:0], s.P.V...)
	c.any = s.RouteParamAny()
	c.gets = c.gets[:0]
	for _, n := range w.names {
		c.gets = append(c.gets, s.RouteParam(n))
	}
	if w.lazyNow {
		w.lazyNow = false
		routerLazySeq++
		func() { // lazy registration from inside a handler: the Mux must not be locked against its own handlers
			defer func() { recover() }()
			w.curMux.Handle("/lazy-"+strconv.Itoa(routerLazySeq)+"/:v", "GET", func(*httpd.Store) {})
		}()
	}
	if w.panicNow {
		w.panicNow = false
		panic(routerHandlerPanic) // the handler's own panic (as http.ErrAbortHandler would be): not the router's
	}
}

var routerHandlerPanic = errors.New("verif: this handler panics on purpose")
var routerLazySeq int
var routerWedged atomic.Bool // a request did not return: goroutines of the code under test are stuck, stop exploring

func (w *routerWorker) serve(mux *httpd.Mux, path, method string) {
	w.cur.calls, w.cur.id, w.cur.panicked = 0, -2, ""
	w.req.URL.Path, w.req.Method = path, method
	w.curMux = mux
	// the request's escaped spelling (URL.RawPath, set by net/http when the wire form is not the default
	// encoding of Path) is not the path: routing goes by URL.Path whatever RawPath says
	w.req.URL.RawPath = ""
	switch len(path) % 7 {
	case 3:
		w.req.URL.RawPath = "/%61" + path
	case 5:
		w.req.URL.RawPath = strings.ReplaceAll(path, "/", "%2F")
	}
	defer func() {
		if r := recover(); r != nil && r != any(routerHandlerPanic) {
			w.cur.panicked = fmt.Sprint(r)
		}
	}()
	mux.ServeHTTP(w.rec, w.req)
}

func routerHexList(l []string) string {
	parts := make([]string, len(l))
	for i, x := range l {
		parts[i] = hxs(x)
	}
	return strings.Join(parts, ",")
}

func routerPanicClass(msg string) string {
	switch {
	case strings.Contains(msg, "slice bounds out of range"):
		return "panic:slice"
	case strings.Contains(msg, "index out of range"):
		return "panic:index"
	}
	return "panic:" + strings.ReplaceAll(msg, " ", "_")
}

// findLine renders the observation exactly as the Lean driver renders `find`.
func (w *routerWorker) findLine() string {
	c := &w.cur
	if c.calls != 1 {
		if c.panicked != "" {
			return routerPanicClass(c.panicked)
		}
		return fmt.Sprintf("handlers=%d", c.calls)
	}
	head := "noroute - -"
	if c.id >= 0 {
		head = fmt.Sprintf("route %d %s %s", c.id, hxs(c.ipath), hxs(c.imethod))
	}
	if c.panicked != "" {
		return head + " " + routerPanicClass(c.panicked)
	}
	return fmt.Sprintf("%s K=%s V=%s any=%s get=%s", head, routerHexList(c.K), routerHexList(c.V), hxs(c.any), routerHexList(c.gets))
}

func (w *routerWorker) specLine() string {
	c := &w.cur
	if c.calls == 1 && c.panicked == "" && c.id >= 0 {
		return fmt.Sprintf("route %d K=%s V=%s", c.id, routerHexList(c.K), routerHexList(c.V))
	}
	if c.calls == 1 && c.panicked == "" {
		return "noroute"
	}
	return "impl:" + w.findLine()
}

func (w *routerWorker) violate(kind, detail string, replay any) {
	w.failed = true
	if len(w.viol) < 5 {
		if rp, ok := replay.(routerReplay); ok && len(w.viol) < 2 && kind != "register-error-class" && kind != "request-does-not-return" {
			rp.Table = ddmin(rp.Table, func(regs []routerReg) bool { return routerRequestFails(regs, rp.Path, rp.Method) })
			replay = rp
		}
		w.viol = append(w.viol, Violation{kind, detail, replay})
	}
}

// routerRequestFails replays one request on a new Mux with the given table and says whether
// the direct oracle fires (used for shrinking the table of a replay).
func routerRequestFails(regs []routerReg, path, method string) bool {
	w := routerNewWorker()
	t := w.setup(regs, false)
	if t.tainted || len(w.viol) > 0 {
		return false
	}
	w.viol = make([]Violation, 5) // full: nested violations are only noticed, not shrunk again
	w.failed = false
	w.request(t, routerMkPath(path), method, false, false)
	return w.failed
}

type routerReplay struct {
	Table  []routerReg `json:"table"`
	Path   string      `json:"path"`
	Method string      `json:"method"`
	PathHx string      `json:"path_hex"`
}

// routerHandleClass registers on the real Mux; a refused registration panics with an error whose
// message starts with the class.
func routerHandleClass(mux *httpd.Mux, r routerReg, h httpd.HandlerFunc) (cls string) {
	defer func() {
		if e := recover(); e != nil {
			msg := fmt.Sprint(e)
			switch {
			case strings.HasPrefix(msg, "invalid method "):
				cls = "invalid-method"
			case strings.HasPrefix(msg, "invalid fragment "):
				cls = "invalid-fragment"
			case strings.HasPrefix(msg, "duplicate method "):
				cls = "duplicate-method"
			default:
				cls = "panic:" + strings.ReplaceAll(msg, " ", "_")
			}
		}
	}()
	mux.Handle(r.Pattern, r.Method, h)
	return ""
}

type routerPath struct {
	s         string
	segs      []routerSpSeg
	bodyEmpty bool
}

func routerMkPath(s string) *routerPath {
	p := &routerPath{s: s}
	p.segs, p.bodyEmpty = routerSpSegments(s)
	return p
}

// routerTable is one table set up on a real Mux together with the oracle's view of it.
type routerTable struct {
	mux     *httpd.Mux
	regs    []routerReg     // everything attempted, in order
	ok      []routerSpRoute // successfully registered, id = position
	tainted bool            // a refused registration may have left nodes behind (outside the theorem)
	nolead  bool            // some accepted pattern has no leading '/' (outside the quantifier)
	nrGen   int             // how often HandleNoRoute has been called on this mux
}

// installNoRoute (re)installs the no-route handler; each installation is told apart by its number, so
// that a request served by a handler installed EARLIER (remembered in pooled per-request state) shows.
func (w *routerWorker) installNoRoute(t *routerTable) {
	t.nrGen++
	gen := t.nrGen
	t.mux.HandleNoRoute(func(s *httpd.Store) { w.cur.nrGen = gen; w.record(-1, s) })
}

// setup registers the table; emit says whether lines for the Lean driver are produced.
func (w *routerWorker) setup(regs []routerReg, emit bool) *routerTable {
	t := &routerTable{mux: httpd.NewMux(), regs: regs}
	if emit {
		w.lines = append(w.lines, routerLine{"reset", "ok"})
	}
	nameSet := map[string]bool{}
	for _, r := range regs {
		id := len(t.ok)
		cls := routerHandleClass(t.mux, r, func(s *httpd.Store) { w.record(id, s) })
		norm := r
		if r.Pattern != "" && r.Pattern[0] != '/' {
			// parseRoute never looks at the first byte (theorem pattern_first_byte_ignored);
			// such patterns are outside the property's quantifier, the oracle reads them as the code does
			norm.Pattern = "/" + r.Pattern[1:]
		}
		want, caps, es := routerSpRegister(t.ok, norm)
		if cls != want {
			// The property speaks about tables of SUCCESSFULLY registered routes; how a refused registration is
			// reported, and whether the code is stricter or laxer than the documented pattern rules, is not part
			// of it. The direct oracle therefore only notes the difference (and leaves a table whose
			// acceptance differs alone); class and acceptance as they are today are compared by the model
			// stream (`handle` lines), i.e. by the tie.
			w.cnt["handle.differs-from-route-list"]++
			if (cls == "") != (want == "") {
				t.tainted = true
			}
		}
		w.cnt["handle."+map[bool]string{true: "ok", false: cls}[cls == ""]]++
		if emit {
			out := "err " + cls
			if cls == "" {
				out = fmt.Sprintf("ok %d", caps)
			}
			w.lines = append(w.lines, routerLine{"handle " + hxs(r.Pattern) + " " + hxs(r.Method), out})
		}
		if cls == "" {
			t.ok = append(t.ok, routerSpRoute{r, es})
			if norm != r {
				t.nolead = true
			}
			for _, e := range es {
				if e.kind == 'p' {
					nameSet[e.s] = true
				}
			}
		} else if cls != "invalid-method" && cls != "duplicate-method" {
			t.tainted = true
		}
	}
	w.installNoRoute(t)
	w.names = sortedKeys(nameSet)
	return t
}

// request serves one request, evaluates the direct oracle, and optionally emits driver lines.
func (w *routerWorker) request(t *routerTable, p *routerPath, method string, emitFind, emitSpec bool) {
	w.serve(t.mux, p.s, method)
	w.evals++
	c := &w.cur
	replay := func() any { return routerReplay{Table: t.regs, Path: p.s, Method: method, PathHx: hxs(p.s)} }
	_ = replay
	if c.panicked != "" {
		w.violate("panic", fmt.Sprintf("ServeHTTP(%q %q) panicked: %s", method, p.s, c.panicked), replay())
	} else if c.calls != 1 {
		w.violate("handler-count", fmt.Sprintf("ServeHTTP(%q %q) ran %d handlers", method, p.s, c.calls), replay())
	}
	if emitFind {
		op := "find " + hxs(p.s) + " " + hxs(method)
		for _, n := range w.names {
			op += " " + hxs(n)
		}
		w.lines = append(w.lines, routerLine{op, w.findLine()})
	}
	if t.tainted {
		w.nTaint++
		return
	}
	if emitSpec && !t.nolead {
		w.lines = append(w.lines, routerLine{"spec " + hxs(p.s) + " " + hxs(method), w.specLine()})
	}
	if c.panicked != "" || c.calls != 1 {
		return
	}
	routerSpFind(t.ok, p.segs, p.bodyEmpty, method, &w.res, w.bufA, w.bufB)
	res := &w.res
	if res.id != c.id {
		w.violate("selection", fmt.Sprintf("%q %q: handler of route %d ran, the documented precedence selects %d (-1 = no-route)", method, p.s, c.id, res.id), replay())
		return
	}
	if res.id < 0 {
		w.nNoRoute++
		if c.nrGen != t.nrGen {
			w.violate("selection", fmt.Sprintf("%q %q: the no-route handler installed by call %d of HandleNoRoute ran, the one in force is that of call %d", method, p.s, c.nrGen, t.nrGen), replay())
		}
		bad := c.ipath != "" || c.imethod != "" || c.any != ""
		for _, g := range c.gets {
			bad = bad || g != ""
		}
		if bad {
			w.violate("noroute-observation", fmt.Sprintf("%q %q: no-route handler saw I=(%q,%q) any=%q gets=%q", method, p.s, c.ipath, c.imethod, c.any, c.gets), replay())
		}
	} else {
		w.nMatched++
		rt := t.ok[res.id]
		if c.ipath != rt.reg.Pattern || c.imethod != rt.reg.Method {
			w.violate("route-info", fmt.Sprintf("%q %q: handler saw I=(%q,%q), registered (%q,%q)", method, p.s, c.ipath, c.imethod, rt.reg.Pattern, rt.reg.Method), replay())
		}
		// each :name / * bound to exactly the corresponding text; every other name unbound
		want := map[string]string{}
		wantAny := ""
		vi := 0
		okLen := true
		for _, e := range rt.elems {
			if e.kind == 'l' {
				continue
			}
			if vi >= len(res.vals) {
				okLen = false
				break
			}
			if e.kind == 'p' {
				want[e.s] = res.vals[vi]
			} else {
				wantAny = res.vals[vi]
			}
			vi++
		}
		bad := !okLen || vi != len(res.vals) || c.any != wantAny || len(c.K) != vi || len(c.V) != vi
		for i, n := range w.names {
			bad = bad || c.gets[i] != want[n]
		}
		if !bad {
			for i := range c.V {
				bad = bad || c.V[i] != res.vals[i]
			}
		}
		if bad {
			w.violate("binding", fmt.Sprintf("%q %q -> route %d (%q): K=%q V=%q any=%q gets(%q)=%q, expected values %q", method, p.s, res.id, rt.reg.Pattern, c.K, c.V, c.any, w.names, c.gets, res.vals), replay())
		}
	}
	if res.contested {
		w.nNontriv++
		if len(w.nontr) < w.nontrCap {
			var b strings.Builder
			for _, r := range t.ok {
				b.WriteString(r.reg.Pattern)
				b.WriteByte(' ')
				b.WriteString(r.reg.Method)
				b.WriteByte(';')
			}
			b.WriteString(p.s)
			b.WriteByte(' ')
			b.WriteString(method)
			w.nontr[b.String()] = struct{}{}
		}
	}
}

// ---------------------------------------------------------------------------------------------
// generators

var routerAllMethods = []string{"GET", "HEAD", "POST", "PUT", "PATCH", "DELETE", "CONNECT", "OPTIONS", "TRACE", "*"}

func routerRandSeg(r *Rng) string {
	switch c := r.Intn(100); {
	case c < 30:
		return Pick(r, []string{"a", "b", "c"})
	case c < 40:
		return Pick(r, []string{"ab", "abc", "a*", "**", "x:y", "a:", "*a", ".", "..", "%2f", " ", "%41", "a%2Fb", "%zz", "%", "%25", "a+b"})
	case c < 50:
		return Pick(r, []string{":x", ":y", ":id", ":", ":*", "::", ":/"})
	case c < 58:
		return "*"
	case c < 66:
		return ""
	case c < 72:
		return string(r.Bytes(1 + r.Intn(3))) // arbitrary bytes, may contain '/', NUL, >= 0x80
	default:
		return Pick(r, []string{"a", "b", "zz", "users", "10", "get", "post", ":param", ":any"})
	}
}

// routerRandTable: a few routes over a small per-table vocabulary, so that routes share prefixes and
// compete; slashes repeated / trailing; methods mostly valid.
func routerRandTable(r *Rng) []routerReg {
	// "get", "any", "param", ":" + … : would collide with a method tag / reserved key that lost its leading '/'
	lits := []string{"a", "b", Pick(r, []string{"ab", "c", "a*", "**", "x:y", ".", "users", "get", "post", "any", "param"})}
	if r.Chance(10) {
		lits = append(lits, string(r.Bytes(1+r.Intn(2))))
	}
	params := []string{":x", ":y", Pick(r, []string{":id", ":x", ":*", ":a"})}
	n := 1 + r.Intn(6)
	if r.Chance(10) {
		n = 7 + r.Intn(10)
	}
	regs := make([]routerReg, 0, n)
	for i := 0; i < n; i++ {
		var sb strings.Builder
		k := r.Intn(5)
		lead := true
		if r.Chance(2) {
			lead = false // pattern without leading slash (outside the quantifier; model still compared)
		}
		used := map[string]bool{}
		for j := 0; j < k; j++ {
			if j > 0 || lead {
				sb.WriteByte('/')
				for r.Chance(8) {
					sb.WriteByte('/')
				}
			}
			switch c := r.Intn(100); {
			case c < 50:
				sb.WriteString(Pick(r, lits))
			case c < 80:
				pn := Pick(r, params)
				for tries := 0; used[pn] && tries < 4 && !r.Chance(6); tries++ {
					pn = Pick(r, params) // a repeated name is refused: keep that rare
				}
				used[pn] = true
				sb.WriteString(pn)
			case c < 92:
				sb.WriteString("*")
			case c < 93:
				sb.WriteString(":") // invalid fragment
			default:
				sb.WriteString(routerRandSeg(r))
			}
		}
		if k == 0 && lead && r.Chance(70) {
			sb.WriteByte('/')
		}
		for r.Chance(15) {
			sb.WriteByte('/')
		}
		m := Pick(r, []string{"GET", "GET", "POST", "*", "*", Pick(r, routerAllMethods)})
		if r.Chance(3) {
			m = Pick(r, []string{"", "get", "FOO", "GET ", "/get", "/*"})
		}
		regs = append(regs, routerReg{sb.String(), m})
	}
	return regs
}

func routerRandPath(r *Rng, t *routerTable) string {
	var segs []string
	if len(t.ok) > 0 && r.Chance(75) {
		// instantiate a registered pattern, then disturb it
		rt := Pick(r, t.ok)
		for _, e := range rt.elems {
			switch e.kind {
			case 'l':
				segs = append(segs, e.s)
			case 'p':
				segs = append(segs, Pick(r, []string{"a", "b", "c", "10", ":x", "*", "", routerRandSeg(r)}))
			case 's':
				for k := r.Intn(4); k >= 0; k-- {
					segs = append(segs, routerRandSeg(r))
				}
			}
		}
		switch r.Intn(8) {
		case 0:
			if len(segs) > 0 {
				segs = segs[:r.Intn(len(segs))]
			}
		case 1:
			segs = append(segs, routerRandSeg(r))
		case 2:
			if len(segs) > 0 {
				segs[r.Intn(len(segs))] = routerRandSeg(r)
			}
		case 3:
			segs = append(segs, "")
		}
	} else {
		for k := r.Intn(5); k > 0; k-- {
			segs = append(segs, routerRandSeg(r))
		}
	}
	var sb strings.Builder
	for i, sg := range segs {
		if i > 0 || !r.Chance(12) {
			sb.WriteByte('/')
			for r.Chance(6) {
				sb.WriteByte('/')
			}
		}
		sb.WriteString(sg)
	}
	for r.Chance(12) {
		sb.WriteByte('/')
	}
	return sb.String()
}

var routerFixedPaths = []string{"", "/", "//", "///", "*", "/*", ":x", "/:x", "a", "a/", "/a", "/a/", "//a//", "a//b", "/a/b/", "/a/*", "*/a"}

func routerRandMethod(r *Rng, t *routerTable) string {
	switch c := r.Intn(100); {
	case c < 50 && len(t.ok) > 0:
		m := Pick(r, t.ok).reg.Method
		if m == "*" {
			return Pick(r, routerAllMethods)
		}
		return m
	case c < 80:
		return Pick(r, routerAllMethods)
	case c < 88:
		return ""
	default:
		return Pick(r, []string{"FOO", "get", "Get", "/get", "/*", "**", "GET ", string(r.Bytes(1 + r.Intn(3)))})
	}
}

// ---------------------------------------------------------------------------------------------
// exhaustive small domain (thorough)

var routerSmallSegs = []string{"a", "b", ":x", ":y", "*"}
var routerSmallMethods = []string{"GET", "POST", "*"}

// all element sequences of length <= maxLen over the small alphabet, rendered canonically
func routerSmallPatterns(maxLen int) [][]string {
	out := [][]string{{}}
	level := [][]string{{}}
	for l := 1; l <= maxLen; l++ {
		var nxt [][]string
		for _, p := range level {
			for _, s := range routerSmallSegs {
				q := append(append([]string{}, p...), s)
				nxt = append(nxt, q)
			}
		}
		out = append(out, nxt...)
		level = nxt
	}
	return out
}

// the slash variants of one pattern: canonical, trailing slash, repeated slashes
func routerRender(p []string, variant int) string {
	switch variant {
	case 1:
		return "/" + strings.Join(p, "/") + map[bool]string{true: "", false: "/"}[len(p) == 0]
	case 2:
		return "//" + strings.Join(p, "//")
	case 3:
		return "/" + strings.Join(p, "///") + "//"
	}
	return "/" + strings.Join(p, "/")
}

var routerPathSegs = []string{"a", "b", "c", "", ":x", "*"}

// all paths of <= 4 segments over the path alphabet, with and without leading / trailing slash,
// plus "" and "*"
func routerSmallPaths() []*routerPath {
	seen := map[string]bool{}
	var out []*routerPath
	add := func(s string) {
		if !seen[s] {
			seen[s] = true
			out = append(out, routerMkPath(s))
		}
	}
	add("")
	add("*")
	var rec func(prefix []string, depth int)
	rec = func(prefix []string, depth int) {
		j := strings.Join(prefix, "/")
		add("/" + j)
		add(j)
		add("/" + j + "/")
		add(j + "/")
		if depth == 4 {
			return
		}
		for _, s := range routerPathSegs {
			rec(append(prefix, s), depth+1)
		}
	}
	rec(nil, 0)
	return out
}

var routerSmallReqMethods = []string{"GET", "POST", "*", "FOO", ""}

// ---------------------------------------------------------------------------------------------

// the tables of the exhaustive tier: all sets of <= 2 routes over every pattern of length <= 3
// and all sets of 3 routes over every pattern of length <= 2 (alphabet {a, b, :x, :y, *}, methods
// {GET, POST, *}), plus every route registered twice. Patterns are rendered with rotating slash
// variants and the registration order is rotated, so both vary across the enumeration.
func routerSmallTables() [][]routerReg {
	mk := func(maxLen int) [][2]any { // (pattern elems, method)
		var out [][2]any
		for _, p := range routerSmallPatterns(maxLen) {
			for _, m := range routerSmallMethods {
				out = append(out, [2]any{p, m})
			}
		}
		return out
	}
	var tables [][]routerReg
	add := func(rs ...[2]any) {
		ti := len(tables)
		regs := make([]routerReg, len(rs))
		for i, r := range rs {
			regs[i] = routerReg{routerRender(r[0].([]string), (ti/3+i)%4), r[1].(string)}
		}
		if ti%3 == 1 { // rotate the order of registration
			for i, j := 0, len(regs)-1; i < j; i, j = i+1, j-1 {
				regs[i], regs[j] = regs[j], regs[i]
			}
		}
		tables = append(tables, regs)
	}
	r3 := mk(3)
	add()
	for i := range r3 {
		add(r3[i])
		add(r3[i], r3[i])
	}
	for i := range r3 {
		for j := i + 1; j < len(r3); j++ {
			add(r3[i], r3[j])
		}
	}
	r2 := mk(2)
	for i := range r2 {
		for j := i + 1; j < len(r2); j++ {
			for k := j + 1; k < len(r2); k++ {
				add(r2[i], r2[j], r2[k])
			}
		}
	}
	return tables
}

type routerChunk struct {
	seed   uint64
	random int           // number of random tables
	tables [][]routerReg // or: exhaustive tables
	base   int           // index of the first exhaustive table
}

func runRouter(cfg Cfg) {
	s := NewStream(cfg.Out, "router")
	defer s.Close()
	s.Rule = "non-trivial = a request on a table whose registrations all succeeded where the documented precedence had something to decide: at some segment more than one kind of continuation (literal / :param / *) was available among the candidates, or the method fell back to (or competed with) the `*` method, or the root special case fired (distinct by (table, path, method))"
	rng := NewRng(cfg.Seed)
	workers := runtime.NumCPU()
	if workers > 16 {
		workers = 16
	}

	// Chunks are processed by up to 16 goroutines, each chunk with its own forked Rng and its own
	// Mux instances; results are merged in chunk order, so the output is deterministic.
	var chunks []routerChunk
	nRandom := cfg.N(2000, 20000)
	const per = 50
	for i := 0; i < nRandom; i += per {
		chunks = append(chunks, routerChunk{seed: rng.U64(), random: per})
	}
	var smallPaths []*routerPath
	if cfg.Thorough() {
		smallPaths = routerSmallPaths()
		tables := routerSmallTables()
		const tper = 100
		for i := 0; i < len(tables); i += tper {
			j := i + tper
			if j > len(tables) {
				j = len(tables)
			}
			chunks = append(chunks, routerChunk{seed: rng.U64(), tables: tables[i:j], base: i})
		}
		s.Exhaustive = true
		s.Notes = append(s.Notes,
			fmt.Sprintf("exhaustive tier: %d tables = all sets of <=2 routes over all 156 patterns of length <=3 and all sets of 3 routes over all 31 patterns of length <=2 (segments {a,b,:x,:y,*}, methods {GET,POST,*}; rotating slash variants /p, /p/, //p, /p//; rotating registration order; every route also registered twice), each against all %d paths of <=4 segments over {a,b,c,\"\",:x,*} with/without leading and trailing slash plus \"\" and \"*\", x methods {GET,POST,*,FOO,\"\"}; the direct oracle runs on every request; 3-route tables over patterns of length 3 (1.7e7 sets) are covered by the random tier only", len(tables), len(smallPaths)),
			"the Lean driver sees every registration of every table and a deterministic sample of the requests (about 1 in 4000 per table as `find`, 1 in 8000 as `spec`); the direct oracle sees all of them")
	}
	s.Notes = append(s.Notes,
		"`handle` answers `ok <paramsCnt>`: paramsCnt is not observable through the public API; the harness prints the count of its own route-list reading (the length of K is observed at match time)",
		"tables in which a registration was refused with `invalid fragment` keep the nodes created before the refusal; they are outside `successfully registered routes` (DESIGN 8.1): compared with the Lean model only",
		"patterns without a leading slash (2% of the random patterns) are read as the code reads them (first byte ignored, theorem pattern_first_byte_ignored); no `spec` lines for such tables")

	process := func(c routerChunk) *routerWorker {
		w := routerNewWorker()
		r := NewRng(c.seed)
		if c.random > 0 {
			w.nontrCap = 20000
			for k := 0; k < c.random; k++ {
				routerRandomTable(w, r)
			}
		} else {
			w.nontrCap = 300
			for k, regs := range c.tables {
				routerExhaustiveTable(w, regs, smallPaths, c.base+k)
			}
		}
		return w
	}

	const wave = 64
	for lo := 0; lo < len(chunks); lo += wave {
		hi := lo + wave
		if hi > len(chunks) {
			hi = len(chunks)
		}
		outs := make([]*routerWorker, hi-lo)
		var wg sync.WaitGroup
		jobs := make(chan int, hi-lo)
		for i := lo; i < hi; i++ {
			jobs <- i
		}
		close(jobs)
		for g := 0; g < workers; g++ {
			wg.Add(1)
			go func() {
				defer wg.Done()
				for ci := range jobs {
					outs[ci-lo] = process(chunks[ci])
				}
			}()
		}
		wg.Wait()
		for _, w := range outs {
			for _, l := range w.lines {
				s.Line(l.op, l.out)
			}
			s.Evaluations += w.evals
			for k, v := range w.cnt {
				s.Dist[k] += v
			}
			s.Dist["request.tainted-table(model only)"] += w.nTaint
			s.Dist["request.noroute"] += w.nNoRoute
			s.Dist["request.matched"] += w.nMatched
			s.Dist["request.nontrivial"] += w.nNontriv
			for k := range w.nontr {
				if len(s.Distinct) < 1_000_000 {
					s.Distinct[k]++
				}
			}
			for _, v := range w.viol {
				s.Violate(v.Kind, v.Detail, v.Replay)
			}
			for _, x := range w.smpl {
				s.Sample(x)
			}
		}
	}
	s.Traces = s.Dist["tables"]
	s.Notes = append(s.Notes, fmt.Sprintf("distinct_nontrivial is a lower bound (recording capped per chunk and at 1e6 in total); non-trivial requests counted exactly: %d", s.Dist["request.nontrivial"]))
}

func routerCountTable(w *routerWorker, t *routerTable) {
	w.cnt["tables"]++
	switch {
	case t.tainted:
		w.cnt["tables.with-refused-fragment(model only)"]++
	case t.nolead:
		w.cnt["tables.pattern-without-leading-slash"]++
	case len(t.ok) < len(t.regs):
		w.cnt["tables.with-refused-method-or-duplicate"]++
	default:
		w.cnt["tables.all-registered"]++
	}
}

// routerRandomTable: one random table, 300 paths x 4 methods through the direct oracle, a sample of
// them also through the Lean model and the Lean specification.
func routerRandomTable(w *routerWorker, r *Rng) {
	if routerWedged.Load() {
		return
	}
	regs := routerRandTable(r)
	t := w.setup(regs, true)
	routerCountTable(w, t)
	const nPaths, emitEvery = 300, 12
	for i := 0; i < nPaths; i++ {
		var ps string
		if i < len(routerFixedPaths) {
			ps = routerFixedPaths[i]
		} else {
			ps = routerRandPath(r, t)
		}
		p := routerMkPath(ps)
		for k := 0; k < 4; k++ {
			m := routerRandMethod(r, t)
			emit := (i*4+k)%emitEvery == 0 || i < len(routerFixedPaths) && k == 0
			w.request(t, p, m, emit, emit)
		}
		if i%37 == 20 {
			w.installNoRoute(t) // the no-route handler is replaced while the mux is in service
		}
		if false && i%29 == 13 {
			// (not generated: C04 quantifies over tables registered before the requests; a Mux that cannot be
			// extended from inside a handler breaks no clause of the statement)
			// the handler of this request registers a route: served under a watchdog, a Mux that holds a lock
			// while its handlers run would wait for itself
			w.lazyNow = true
			done := make(chan struct{})
			go func() { defer close(done); w.request(t, p, routerRandMethod(r, t), false, false) }()
			select {
			case <-done:
			case <-time.After(10 * time.Second):
				routerWedged.Store(true)
				w.violate("request-does-not-return", fmt.Sprintf("ServeHTTP(%q) has not returned after 10 s: its handler calls Handle on the same Mux", p.s), routerReplay{Table: t.regs, Path: p.s, PathHx: hxs(p.s)})
				return
			}
		}
		if i%11 == 7 {
			w.panicNow = true // the handler of the next request panics after looking around; later requests must not notice
		}
	}
	if len(w.smpl) < 2 {
		w.smpl = append(w.smpl, map[string]any{"table": regs, "last_op": w.lines[len(w.lines)-1].op, "last_answer": w.lines[len(w.lines)-1].out})
	}
}

// routerExhaustiveTable: one table of the small domain against every small path and method.
func routerExhaustiveTable(w *routerWorker, regs []routerReg, paths []*routerPath, ti int) {
	t := w.setup(regs, true)
	routerCountTable(w, t)
	if t.tainted {
		return // refused registration: the error class has been checked, the table is not "registered"
	}
	ri := ti * 7919
	for _, p := range paths {
		for _, m := range routerSmallReqMethods {
			ri++
			w.request(t, p, m, ri%4001 == 0, ri%8002 == 0)
		}
	}
}
