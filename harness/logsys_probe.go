package main

// Stream `logsys` (C02 — logging is atomic per record: one Write, one whole line, never interleaved).
//
// N goroutines log through the root logger, through loggers derived before the run (shared by all
// goroutines) and through loggers they derive during the run, for the three REAL handlers. The
// destination is a probe io.Writer that records (enter, bytes, leave) of every Write call with an
// atomic overlap detector and sleeps / yields inside Write to widen the window. Records carry a
// unique id token; lines range from a few bytes to ~70 KB (crossing the 1 KiB initial buffer and
// the 16 KiB pool limit); the threshold takes all five levels.
//
// Direct oracle (independent of the Lean model): no two Write calls overlap; the number of Write
// calls equals the number of records at an enabled level; every payload is one whole line ending
// in '\n' that contains exactly its own id and equals the line the same record produces when it is
// logged alone (the same call repeated sequentially afterwards; the time field is canonicalised on
// both sides); nothing is written for a record below the threshold; the buffer handed to Write is
// not modified while Write runs.
//
// Correspondence with Glb/Model/LogSys.lean (trace inclusion): the programs (per goroutine: derive /
// log handler level rid, with the sequential line as `render`) and the observed Write events in
// their real order are given to the driver, which accepts an event iff the model can perform it
// after internal steps; the implementation side of every line is "ok".

import (
	"bytes"
	"context"
	"fmt"
	"io"
	"io/fs"
	"log/slog"
	"os"
	"runtime"
	"strconv"
	"strings"
	"sync"
	"sync/atomic"
	"syscall"
	"time"

	"github.com/whoisnian/glb/logger"
)

func init() { streams["logsys"] = runLogSys }

// ---- probe writer -----------------------------------------------------------------------------

type lsProbeEvent struct {
	enter   bool
	seq     int
	payload []byte
}

type lsProbeWriter struct {
	inside   int32
	overlaps int32
	mutated  int32
	seqMode  int32 // 1: sequential re-rendering, just capture
	errEvery int   // > 0: every errEvery-th Write fails with a "closed"/EPIPE error (after taking the bytes' record)
	panicAt  int   // >= 0: that Write call panics (a destination with a bug; the caller recovers)
	short    int   // > 0: a destination that takes at most this many bytes per call (n < len(p), io.ErrShortWrite)

	mu     sync.Mutex
	events []lsProbeEvent
	writes int
	last   [][]byte
}

func (w *lsProbeWriter) Write(p []byte) (int, error) {
	if atomic.LoadInt32(&w.seqMode) == 1 {
		w.mu.Lock()
		w.last = append(w.last, append([]byte(nil), p...))
		w.mu.Unlock()
		return len(p), nil
	}
	if atomic.AddInt32(&w.inside, 1) != 1 {
		atomic.AddInt32(&w.overlaps, 1)
	}
	cp := append([]byte(nil), p...)
	w.mu.Lock()
	seq := w.writes
	w.writes++
	w.events = append(w.events, lsProbeEvent{enter: true, seq: seq, payload: cp})
	w.mu.Unlock()
	switch seq % 5 { // widen the window in which a second writer could slip in
	case 0:
		runtime.Gosched()
	case 1:
		time.Sleep(20 * time.Microsecond)
	case 2:
		for i := 0; i < 3; i++ {
			runtime.Gosched()
		}
	case 3:
		time.Sleep(time.Duration(seq%7) * 30 * time.Microsecond)
	}
	if !bytes.Equal(p, cp) { // the pooled buffer was recycled / reused while still being written
		atomic.AddInt32(&w.mutated, 1)
	}
	w.mu.Lock()
	w.events = append(w.events, lsProbeEvent{enter: false, seq: seq, payload: cp})
	w.mu.Unlock()
	atomic.AddInt32(&w.inside, -1)
	if w.panicAt >= 0 && seq == w.panicAt {
		panic("verif: this destination panics in Write")
	}
	if w.errEvery > 0 && seq%w.errEvery == 1 {
		if seq%2 == 0 {
			return 0, fs.ErrClosed
		}
		return 0, &os.PathError{Op: "write", Path: "/var/log/app.log", Err: syscall.EPIPE}
	}
	if w.short > 0 && len(p) > w.short {
		return w.short, io.ErrShortWrite // the record is still ONE Write: what to do about the rest is the destination's owner's business
	}
	return len(p), nil
}

func (w *lsProbeWriter) takeSeq() [][]byte {
	w.mu.Lock()
	defer w.mu.Unlock()
	l := w.last
	w.last = nil
	return l
}

// ---- system description ---------------------------------------------------------------------------

type lsNode struct {
	id    int
	h     logger.Handler
	lg    *logger.Logger
	chain []drvChainOp
}

func lsDerive(p *lsNode, id int, co drvChainOp) *lsNode {
	n := &lsNode{id: id, chain: append(append([]drvChainOp{}, p.chain...), co)}
	if co.Group {
		n.h, n.lg = p.h.WithGroup(co.Name), p.lg.WithGroup(co.Name)
	} else {
		as := drvBuildAttrs(co.Attrs)
		n.h, n.lg = p.h.WithAttrs(as), p.lg.With(drvAttrsAsArgs(as)...)
	}
	return n
}

type lsOp struct {
	Derive bool       `json:"derive,omitempty"`
	Parent int        `json:"parent,omitempty"` // node id derived from
	New    int        `json:"new,omitempty"`    // node id created
	Chain  drvChainOp `json:"chain,omitempty"`

	Node  int           `json:"node,omitempty"` // node id logged through
	Rid   int           `json:"rid,omitempty"`
	Level int           `json:"level,omitempty"`
	Via   string        `json:"via,omitempty"` // handle | log | logattrs | logf | named | namedf
	Pad   int           `json:"pad,omitempty"`
	Attrs []drvAttrSpec `json:"attrs,omitempty"`
	msg   string
}

const lsTimeToken = "T"

// lsCanonTime replaces the value of the time field by a constant.
func lsCanonTime(kind string, line []byte) ([]byte, bool) {
	switch kind {
	case "json":
		const p = `{"time":"`
		if !bytes.HasPrefix(line, []byte(p)) {
			return line, false
		}
		i := bytes.IndexByte(line[len(p):], '"')
		if i < 0 {
			return line, false
		}
		return append(append([]byte(p), lsTimeToken...), line[len(p)+i:]...), true
	case "text":
		if !bytes.HasPrefix(line, []byte("time=")) {
			return line, false
		}
		i := bytes.IndexByte(line, ' ')
		if i < 0 {
			return line, false
		}
		return append(append([]byte("time="), lsTimeToken...), line[i:]...), true
	}
	if len(line) < 19 {
		return line, false
	}
	return append([]byte(lsTimeToken), line[19:]...), true
}

func lsRidToken(rid int) string { return fmt.Sprintf("IDZ%07dZ", rid) }

const lsRidTokenLen = 11

// lsIdsIn lists the record ids whose token occurs in a payload.
func lsIdsIn(p []byte) []int {
	var out []int
	for i := 0; i+lsRidTokenLen <= len(p); {
		j := bytes.Index(p[i:], []byte("IDZ"))
		if j < 0 {
			break
		}
		i += j
		if i+lsRidTokenLen <= len(p) && p[i+lsRidTokenLen-1] == 'Z' {
			n, ok := 0, true
			for _, c := range p[i+3 : i+10] {
				if c < '0' || c > '9' {
					ok = false
					break
				}
				n = n*10 + int(c-'0')
			}
			if ok {
				out = append(out, n)
				i += lsRidTokenLen
				continue
			}
		}
		i += 3
	}
	return out
}

var lsLevels = []slog.Level{logger.LevelDebug, logger.LevelInfo, logger.LevelWarn, logger.LevelError, logger.LevelFatal}

// lsDoLog performs one log call on the real code.
var lsDeadCtx = func() context.Context {
	c, cancel := context.WithCancel(context.Background())
	cancel()
	return c
}()

// lsFmtArgs: the formatted entry points are called either as ("%s", msg) or - when the message has no
// verb of its own - as (msg) with ZERO variadic arguments: same text, different path through a
// formatting front end (a 'nothing to format' fast path must keep the level gate; seed C02-r10-3)
func lsFmtArgs(op *lsOp) (string, []any) {
	if op.Rid%2 == 0 && !strings.Contains(op.msg, "%") {
		return op.msg, nil
	}
	return "%s", []any{op.msg}
}

func lsDoLog(n *lsNode, op *lsOp) {
	defer func() { recover() }() // a panicking destination: the caller goes on
	ctx := context.Background()
	if op.Rid%9 == 4 {
		ctx = lsDeadCtx // logging on behalf of a request whose context is already cancelled: the record is written all the same
	}
	lv := slog.Level(op.Level)
	as := drvBuildAttrs(op.Attrs)
	switch op.Via {
	case "handle":
		r := slog.NewRecord(deriveTime.Add(time.Duration(op.Rid%3)*time.Second), lv, op.msg, 0) // records of neighbouring seconds meet in one run
		r.AddAttrs(as...)
		n.h.Handle(ctx, r)
	case "log":
		n.lg.Log(ctx, lv, op.msg, drvAttrsAsArgs(as)...)
	case "logattrs":
		n.lg.LogAttrs(ctx, lv, op.msg, as...)
	case "logf":
		f, a := lsFmtArgs(op)
		n.lg.Logf(ctx, lv, f, a...)
	case "named":
		switch lv {
		case logger.LevelDebug:
			n.lg.Debug(op.msg, drvAttrsAsArgs(as)...)
		case logger.LevelInfo:
			n.lg.Info(op.msg, drvAttrsAsArgs(as)...)
		case logger.LevelWarn:
			n.lg.Warn(op.msg, drvAttrsAsArgs(as)...)
		case logger.LevelError:
			if len(op.msg)%2 == 0 {
				n.lg.Error(op.msg, drvAttrsAsArgs(as)...)
			} else { // Panic = one Error-level record, then panic(msg)
				func() {
					defer func() { recover() }()
					n.lg.Panic(op.msg, drvAttrsAsArgs(as)...)
				}()
			}
		default:
			n.lg.Log(ctx, lv, op.msg, drvAttrsAsArgs(as)...)
		}
	default: // namedf
		f, a := lsFmtArgs(op)
		switch lv {
		case logger.LevelDebug:
			n.lg.Debugf(f, a...)
		case logger.LevelInfo:
			n.lg.Infof(f, a...)
		case logger.LevelWarn:
			n.lg.Warnf(f, a...)
		case logger.LevelError:
			if len(op.msg)%2 == 0 {
				n.lg.Errorf(f, a...)
			} else {
				func() {
					defer func() { recover() }()
					n.lg.Panicf(f, a...)
				}()
			}
		default:
			n.lg.Logf(ctx, lv, f, a...)
		}
	}
}

func lsPadString(r *Rng, n int) string {
	b := make([]byte, n)
	for i := range b {
		b[i] = deriveAlphabet[r.Intn(len(deriveAlphabet))]
	}
	return string(b)
}

type lsSystem struct {
	Kind      string   `json:"kind"`
	Threshold int      `json:"threshold"`
	Colorful  bool     `json:"colorful"`
	Procs     int      `json:"gomaxprocs"`
	Programs  [][]lsOp `json:"programs"`
	pre       []drvChainOp
	preParent []int
}

func lsGenSystem(r *Rng, cfg Cfg, idx int, s *Stream) *lsSystem {
	sys := &lsSystem{Kind: deriveKinds[idx%3], Threshold: int(lsLevels[(idx/3)%5]), Colorful: r.Chance(15)}
	if idx%11 == 10 {
		// thresholds are plain integers: between, below and above the five named levels
		sys.Threshold = Pick(r, []int{-4, -1, 1, 2, 6, 9, 13, 15})
		s.Count("system.unnamed-threshold")
	}
	quiet := &Stream{Dist: map[string]int{}, Distinct: map[string]int{}}
	nPre := 1 + r.Intn(4)
	for i := 0; i < nPre; i++ {
		parent := 0
		if i > 0 && r.Chance(50) {
			parent = 1 + r.Intn(i)
		}
		var co drvChainOp
		if r.Chance(30) {
			co = drvChainOp{Group: true, Name: Pick(r, []string{"g", "req", "a.b"})}
		} else {
			co = drvChainOp{Attrs: drvGenAttrs(r, 1, 3, quiet)}
		}
		sys.pre = append(sys.pre, co)
		sys.preParent = append(sys.preParent, parent)
	}
	G := 2 + r.Intn(cfg.N(5, 15))
	if r.Chance(5) {
		G = 1
	}
	nextNode := 1 + nPre
	nextRid := 0
	for g := 0; g < G; g++ {
		K := 4 + r.Intn(cfg.N(24, 40))
		usable := make([]int, 0, 8)
		for i := 0; i <= nPre; i++ {
			usable = append(usable, i)
		}
		var own []int
		var prog []lsOp
		for k := 0; k < K; k++ {
			if r.Chance(15) {
				parent := Pick(r, usable)
				if len(own) > 0 && r.Chance(40) {
					parent = Pick(r, own)
				}
				var co drvChainOp
				if r.Chance(25) {
					co = drvChainOp{Group: true, Name: Pick(r, []string{"sub", "x.y", "g"})}
				} else {
					co = drvChainOp{Attrs: drvGenAttrs(r, 1, 2, quiet)}
				}
				prog = append(prog, lsOp{Derive: true, Parent: parent, New: nextNode, Chain: co})
				own = append(own, nextNode)
				usable = append(usable, nextNode)
				nextNode++
				s.Count("op.derive-during-run")
				continue
			}
			op := lsOp{Node: Pick(r, usable), Rid: nextRid, Level: int(Pick(r, lsLevels))}
			if len(own) > 0 && r.Chance(30) {
				op.Node = Pick(r, own)
			}
			nextRid++
			c := r.Intn(100)
			lim := cfg.N(92, 85)
			switch {
			case c < 55:
				op.Pad = r.Intn(200)
			case c < 62:
				op.Pad = 0
			case c < 80:
				op.Pad = 850 + r.Intn(400) // around the 1 KiB initial buffer
			case c < lim:
				op.Pad = 2000 + r.Intn(6000)
			case c < lim+(100-lim)*2/3:
				op.Pad = 15800 + r.Intn(1200) // around the 16 KiB pool limit
			default:
				op.Pad = 20000 + r.Intn(50000)
			}
			op.msg = lsRidToken(op.Rid)
			pad := lsPadString(r, op.Pad)
			via := []string{"handle", "log", "logattrs", "logf", "named", "namedf"}
			op.Via = Pick(r, via)
			if r.Chance(8) {
				// a level between (or below) the five named ones, just under the threshold: slog levels are
				// plain integers, "below the threshold" is a numeric comparison
				op.Level = sys.Threshold - 1 - r.Intn(3)
				op.Via = Pick(r, []string{"log", "logattrs", "logf"})
				s.Count("op.unnamed-level-below-threshold")
			}
			if op.Level < sys.Threshold && op.Via == "handle" {
				op.Via = "log" // Handler.Handle has no gate of its own (the caller checks Enabled)
			}
			if op.Via == "logf" || op.Via == "namedf" || r.Chance(50) {
				op.msg += pad
			} else {
				op.Attrs = append(drvGenAttrs(r, 0, 2, quiet), drvAttrSpec{K: "pad", T: "s", S: pad})
			}
			prog = append(prog, op)
		}
		sys.Programs = append(sys.Programs, prog)
	}
	return sys
}

// lsRunSystem executes one system on the real code and checks it.
func lsRunSystem(s *Stream, sys *lsSystem, idx int) {
	if sys.Procs > 0 {
		defer runtime.GOMAXPROCS(runtime.GOMAXPROCS(sys.Procs))
	}
	kind := sys.Kind
	w := &lsProbeWriter{panicAt: -1}
	switch idx % 7 {
	case 5: // a destination that fails now and then (rotation window, reader restarted): later records are still written
		w.errEvery = 4
		s.Count("system.failing-destination")
	case 6: // a destination whose Write panics once (recovered by the caller, as net/http or Relay would)
		w.panicAt = 3
		s.Count("system.panicking-destination")
	}
	if idx%5 == 4 {
		w.short = 96 // a capacity-limited destination
		s.Count("system.short-writing-destination")
	}
	// every third system reports the call site: the lines then also depend on per-call state
	// (program counter -> file:line) that must not leak between concurrently logging goroutines
	opts := logger.NewOptions(slog.Level(sys.Threshold), sys.Colorful, idx%3 == 1)
	var rootH logger.Handler
	switch kind {
	case "json":
		rootH = logger.NewJsonHandler(io.Writer(w), opts)
	case "text":
		rootH = logger.NewTextHandler(io.Writer(w), opts)
	default:
		rootH = logger.NewNanoHandler(io.Writer(w), opts)
	}
	var nodesMu sync.Mutex
	nodes := map[int]*lsNode{0: {id: 0, h: rootH, lg: logger.New(rootH)}}
	for i, co := range sys.pre {
		nodes[i+1] = lsDerive(nodes[sys.preParent[i]], i+1, co)
	}
	getNode := func(id int) *lsNode {
		nodesMu.Lock()
		defer nodesMu.Unlock()
		return nodes[id]
	}
	replay := func(extra map[string]any) any {
		m := map[string]any{"system": idx, "kind": kind, "threshold": sys.Threshold, "gomaxprocs": sys.Procs,
			"goroutines": len(sys.Programs), "pre_derived": sys.pre}
		for k, v := range extra {
			m[k] = v
		}
		return m
	}
	// ---- concurrent phase
	var wg sync.WaitGroup
	start := make(chan struct{})
	for g := range sys.Programs {
		wg.Add(1)
		go func(g int) {
			defer wg.Done()
			<-start
			for i := range sys.Programs[g] {
				op := &sys.Programs[g][i]
				if op.Derive {
					n := lsDerive(getNode(op.Parent), op.New, op.Chain)
					nodesMu.Lock()
					nodes[op.New] = n
					nodesMu.Unlock()
					continue
				}
				lsDoLog(getNode(op.Node), op)
			}
		}(g)
	}
	close(start)
	done := make(chan struct{})
	go func() { wg.Wait(); close(done) }()
	select {
	case <-done:
	case <-time.After(30 * time.Second):
		buf := make([]byte, 1<<16)
		buf = buf[:runtime.Stack(buf, true)]
		s.Violate("deadlock", "goroutines did not finish logging within 30 s (a log call never returns)", replay(map[string]any{"stacks": string(buf)}))
		fmt.Fprintln(os.Stderr, "logsys: watchdog expired")
		return
	}
	events := w.events
	nWrites := w.writes
	// ---- sequential phase: the same calls, alone
	atomic.StoreInt32(&w.seqMode, 1)
	type recInfo struct {
		g        int
		op       *lsOp
		enabled  bool
		expected []byte
	}
	recs := map[int]*recInfo{}
	nEnabled := 0
	for g := range sys.Programs {
		for i := range sys.Programs[g] {
			op := &sys.Programs[g][i]
			if op.Derive {
				continue
			}
			ri := &recInfo{g: g, op: op, enabled: op.Level >= sys.Threshold}
			recs[op.Rid] = ri
			w.takeSeq()
			lsDoLog(getNode(op.Node), op)
			alone := w.takeSeq()
			if ri.enabled {
				nEnabled++
				if len(alone) == 1 {
					ri.expected, _ = lsCanonTime(kind, alone[0])
				} else {
					s.Violate("one-write", fmt.Sprintf("logged alone, record %d caused %d Write calls", op.Rid, len(alone)), replay(map[string]any{"op": op}))
				}
			} else if len(alone) != 0 {
				s.Violate("below-threshold-written", fmt.Sprintf("logged alone, record %d (level %d < threshold %d) caused %d Write calls", op.Rid, op.Level, sys.Threshold, len(alone)), replay(map[string]any{"op": op}))
			}
		}
	}
	// ---- direct oracle
	if n := atomic.LoadInt32(&w.overlaps); n > 0 {
		s.Violate("overlap", fmt.Sprintf("%d Write calls began while another Write call was in progress", n), replay(nil))
	}
	if n := atomic.LoadInt32(&w.mutated); n > 0 {
		s.Violate("buffer-reused-during-write", fmt.Sprintf("%d Write calls saw their buffer change while they were running", n), replay(nil))
	}
	open := -1
	for _, e := range events {
		if e.enter {
			if open >= 0 {
				s.Violate("overlap", fmt.Sprintf("Write #%d entered while Write #%d had not returned", e.seq, open), replay(nil))
			}
			open = e.seq
		} else {
			open = -1
		}
	}
	if nWrites != nEnabled {
		s.Violate("one-write", fmt.Sprintf("%d Write calls for %d records at an enabled level", nWrites, nEnabled), replay(nil))
	}
	seen := map[int]int{}
	for _, e := range events {
		if e.enter {
			continue
		}
		s.Evaluations++
		p := e.payload
		ids := lsIdsIn(p)
		if len(p) == 0 || p[len(p)-1] != '\n' || bytes.Count(p, []byte{'\n'}) != 1 {
			s.Violate("whole-line", fmt.Sprintf("Write #%d carries %d bytes with %d newlines (ids %v): not exactly one whole line: %.200q", e.seq, len(p), bytes.Count(p, []byte{'\n'}), ids, p), replay(nil))
			continue
		}
		if len(ids) != 1 {
			s.Violate("whole-line", fmt.Sprintf("Write #%d carries the ids %v instead of exactly one: %.200q", e.seq, ids, p), replay(nil))
			continue
		}
		ri := recs[ids[0]]
		if ri == nil {
			s.Violate("whole-line", fmt.Sprintf("Write #%d carries an unknown record id %d", e.seq, ids[0]), replay(nil))
			continue
		}
		seen[ids[0]]++
		if !ri.enabled {
			s.Violate("below-threshold-written", fmt.Sprintf("record %d (level %d < threshold %d) was written", ids[0], ri.op.Level, sys.Threshold), replay(map[string]any{"op": ri.op}))
			continue
		}
		got, ok := lsCanonTime(kind, p)
		if !ok || !bytes.Equal(got, ri.expected) {
			s.Violate("not-the-line-logged-alone", fmt.Sprintf("record %d: written %.300q, logged alone it is %.300q", ids[0], got, ri.expected), replay(map[string]any{"op": ri.op}))
			continue
		}
		s.Nontrivial(drvLineKey(kind, got))
		switch {
		case len(p) > 16<<10:
			s.Count("line.over-16KiB")
		case len(p) > 1<<10:
			s.Count("line.1KiB-16KiB")
		default:
			s.Count("line.under-1KiB")
		}
		s.Count("via." + ri.op.Via)
	}
	for rid, ri := range recs {
		if ri.enabled && seen[rid] != 1 {
			s.Violate("one-write", fmt.Sprintf("record %d at an enabled level was written %d times", rid, seen[rid]), replay(map[string]any{"op": ri.op}))
		}
		if !ri.enabled {
			s.Count("record.below-threshold")
		}
	}
	s.Count(fmt.Sprintf("system.%s.threshold%d", kind, sys.Threshold))
	s.Count(fmt.Sprintf("system.goroutines.%02d", len(sys.Programs)))
	if sys.Procs > 0 {
		s.Count(fmt.Sprintf("system.gomaxprocs.%d", sys.Procs))
	}
	// ---- model side
	s.Line(fmt.Sprintf("sys %d %d %d", sys.Threshold, 16<<10, 1<<10), "ok")
	for i := range sys.pre {
		_ = i // loggers derived before the run are just handler ids for the model
	}
	for g := range sys.Programs {
		for i := range sys.Programs[g] {
			op := &sys.Programs[g][i]
			if op.Derive {
				s.Line(fmt.Sprintf("drv %d %d", g, op.Parent), "ok")
			} else {
				s.Line(fmt.Sprintf("rec %d %d %d %d %s", g, op.Node, op.Level, op.Rid, hx(recs[op.Rid].expected)), "ok")
			}
		}
	}
	s.Line("go", fmt.Sprintf("ok goroutines=%d expected=%d", len(sys.Programs), nEnabled))
	for _, e := range events {
		ids := lsIdsIn(e.payload)
		g, rid := 999999, 999999
		if len(ids) == 1 && recs[ids[0]] != nil {
			g, rid = recs[ids[0]].g, ids[0]
		}
		if e.enter {
			s.Line(fmt.Sprintf("W+ %d %d", g, rid), "ok")
		} else {
			c, _ := lsCanonTime(kind, e.payload)
			s.Line(fmt.Sprintf("W- %d %d %s", g, rid, hx(c)), "ok")
		}
	}
	s.Line("done", fmt.Sprintf("ok writes=%d clean=true", nWrites))
}

func runLogSys(cfg Cfg) {
	s := NewStream(cfg.Out, "logsys")
	defer s.Close()
	s.Rule = "N goroutines x (root logger + loggers derived before and during the run) x three real handlers x five thresholds, lines from a few bytes to ~70 KB, through Handler.Handle and every non-exiting Logger method; non-trivial = a record written during a concurrent run whose payload passed every oracle clause (distinct by handler kind and canonical line)"
	rng := NewRng(cfg.Seed)
	nSys := cfg.N(300, 1000)
	procs := []int{0}
	if cfg.Thorough() {
		procs = []int{1, 4, 16, 0}
	}
	for i := 0; i < nSys; i++ {
		sys := lsGenSystem(rng.Fork(), cfg, i, s)
		sys.Procs = procs[(i/15)%len(procs)]
		lsRunSystem(s, sys, i)
		stuck := false
		for _, v := range s.Violations {
			if v.Kind == "deadlock" {
				stuck = true
			}
		}
		if stuck {
			break // goroutines are stuck for good: later systems would only repeat the 30 s wait
		}
		if i < 2 && len(sys.Programs) > 0 && len(sys.Programs[0]) > 0 {
			s.Sample(map[string]any{"kind": sys.Kind, "threshold": sys.Threshold, "goroutines": len(sys.Programs), "first_op": sys.Programs[0][0]})
		}
	}
	lsTimeHammer(s, cfg)
	s.Traces = nSys
	s.Notes = append(s.Notes,
		"time fields are canonicalised on both sides (Logger methods stamp time.Now())",
		"Handler.Handle has no level gate of its own; records below the threshold are logged through Logger methods only",
		"Fatal* are not called (they exit by contract); Panic/Panicf are called and recovered; every 7th system has a destination that fails every 4th Write, every 7th one whose 4th Write panics (recovered by the caller), every 5th a destination taking at most 96 bytes per call; one record in nine is logged with an already cancelled context",
		"thorough runs the systems under GOMAXPROCS 1, 4, 16 and the default in turn; VERIF_RACE=1 builds the harness with -race")
}

// lsLineSink embeds its mutex, as many writers do: it IS a sync.Locker, and it locks itself inside Write.
type lsLineSink struct {
	sync.Mutex
	lines map[string]int
}

func (k *lsLineSink) Write(p []byte) (int, error) {
	k.Lock()
	k.lines[string(p)]++
	k.Unlock()
	return len(p), nil
}

// lsTimeHammer: 16 goroutines log, through the root and a derived handler, two kinds of records that differ
// in their second (…:59 and …:00 of the next minute) as fast as they can. Every line written is one of the two
// lines the same records give when logged alone - whatever the handlers remember between records.
func lsTimeHammer(s *Stream, cfg Cfg) {
	t0 := time.Date(2024, 5, 6, 7, 8, 59, 0, time.UTC)
	times := [2]time.Time{t0, t0.Add(time.Second).In(time.FixedZone("", 3600))}
	for _, kind := range deriveKinds {
		mk := func(w io.Writer) logger.Handler {
			opts := logger.NewOptions(logger.LevelDebug, false, false)
			switch kind {
			case "json":
				return logger.NewJsonHandler(w, opts)
			case "text":
				return logger.NewTextHandler(w, opts)
			}
			return logger.NewNanoHandler(w, opts)
		}
		rec := func(par int) slog.Record {
			r := slog.NewRecord(times[par], slog.LevelInfo, "PARITY"+strconv.Itoa(par), 0)
			r.AddAttrs(slog.Int("p", par))
			return r
		}
		// alone
		alone := &lsLineSink{lines: map[string]int{}}
		adone := make(chan struct{})
		go func() {
			defer close(adone)
			ha := mk(alone)
			hb := ha.WithAttrs([]slog.Attr{slog.String("d", "x")})
			for par := 0; par < 2; par++ {
				ha.Handle(context.Background(), rec(par))
				hb.Handle(context.Background(), rec(par))
			}
		}()
		select {
		case <-adone:
		case <-time.After(20 * time.Second):
			s.Violate("deadlock", fmt.Sprintf("%s handler: four records logged by one goroutine into a destination that locks its own (embedded) mutex in Write have not been written after 20 s", kind), map[string]any{"kind": kind})
			return
		}
		// together
		sink := &lsLineSink{lines: map[string]int{}}
		root := mk(sink)
		der := root.WithAttrs([]slog.Attr{slog.String("d", "x")})
		n := cfg.N(1500, 20000)
		var wg sync.WaitGroup
		for g := 0; g < 16; g++ {
			wg.Add(1)
			go func(g int) {
				defer wg.Done()
				h := root
				if g%4 >= 2 {
					h = der
				}
				for i := 0; i < n; i++ {
					h.Handle(context.Background(), rec(g%2))
				}
			}(g)
		}
		hdone := make(chan struct{})
		go func() { wg.Wait(); close(hdone) }()
		select {
		case <-hdone:
		case <-time.After(30 * time.Second):
			s.Violate("deadlock", fmt.Sprintf("%s handler, 16 goroutines logging into a destination that locks its own (embedded) mutex in Write: not finished after 30 s", kind), map[string]any{"kind": kind})
			return
		}
		for line, cnt := range sink.lines {
			if alone.lines[line] == 0 {
				s.Violate("not-the-line-logged-alone", fmt.Sprintf("%s handler, 16 goroutines logging records of two neighbouring seconds: %d lines read %q, which is none of the lines these records give when logged alone", kind, cnt, line),
					map[string]any{"kind": kind, "lines_alone": alone.lines})
				break
			}
		}
		s.Evaluations += 16 * n
		s.Count("time-hammer." + kind)
	}
}
