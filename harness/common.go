package main

import (
	"bufio"
	"encoding/hex"
	"encoding/json"
	"fmt"
	"os"
	"path/filepath"
	"sort"
	"sync"
)

// ---------------------------------------------------------------------------------------------
// One PRNG (splitmix64) drives every random choice, seeded from VERIF_SEED, so that any
// disagreement replays exactly.

type Rng struct{ s uint64 }

// NewRng mixes the seed so that neighbouring seeds give unrelated streams (a plain linear seeding
// would make seed k+1 the stream of seed k shifted by one draw).
func NewRng(seed uint64) *Rng {
	z := seed*0x9E3779B97F4A7C15 + 0x1234567
	z = (z ^ (z >> 30)) * 0xBF58476D1CE4E5B9
	z = (z ^ (z >> 27)) * 0x94D049BB133111EB
	return &Rng{s: z ^ (z >> 31)}
}

func (r *Rng) U64() uint64 {
	r.s += 0x9E3779B97F4A7C15
	z := r.s
	z = (z ^ (z >> 30)) * 0xBF58476D1CE4E5B9
	z = (z ^ (z >> 27)) * 0x94D049BB133111EB
	return z ^ (z >> 31)
}
func (r *Rng) Intn(n int) int {
	if n <= 0 {
		return 0
	}
	return int(r.U64() % uint64(n))
}
func (r *Rng) Bool() bool        { return r.U64()&1 == 1 }
func (r *Rng) Chance(p int) bool { return r.Intn(100) < p } // p percent
func (r *Rng) Fork() *Rng        { return NewRng(r.U64()) }
func (r *Rng) Bytes(n int) []byte {
	b := make([]byte, n)
	for i := range b {
		b[i] = byte(r.U64())
	}
	return b
}

func Pick[T any](r *Rng, xs []T) T { return xs[r.Intn(len(xs))] }

// ---------------------------------------------------------------------------------------------
// Wire format: lowercase hex, "-" for the empty string.

func hx(b []byte) string {
	if len(b) == 0 {
		return "-"
	}
	return hex.EncodeToString(b)
}
func hxs(s string) string { return hx([]byte(s)) }

// ---------------------------------------------------------------------------------------------
// Output of one stream: ops (fed to the Lean driver), impl (what the real code answered, same
// line format as the driver's output), and stats (distribution, oracle violations, samples).

type Violation struct {
	Kind   string `json:"kind"`   // which clause of the property failed
	Detail string `json:"detail"` // human readable: expected vs got
	Replay any    `json:"replay"` // the concrete input / history / schedule
}

type Stream struct {
	Name string
	dir  string
	ops  *bufio.Writer
	impl *bufio.Writer
	fo   *os.File
	fi   *os.File

	Lines int
	mu    sync.Mutex // Count/Nontrivial/Sample/Violate may be called from several goroutines

	Evaluations        int            `json:"evaluations"`
	Distinct           map[string]int `json:"-"`
	DistinctNontrivial int            `json:"distinct_nontrivial"`
	Rule               string         `json:"rule"`
	Samples            []any          `json:"samples"`
	Dist               map[string]int `json:"distribution"`
	Violations         []Violation    `json:"violations"`
	KnownHits          []string       `json:"known_hits"`
	Notes              []string       `json:"notes"`
	Exhaustive         bool           `json:"exhaustive"`
	Traces             int            `json:"traces_validated_against_impl"`
}

func NewStream(dir, name string) *Stream {
	s := &Stream{Name: name, dir: dir, Distinct: map[string]int{}, Dist: map[string]int{}}
	var err error
	if s.fo, err = os.Create(filepath.Join(dir, name+".ops")); err != nil {
		fatal(err)
	}
	if s.fi, err = os.Create(filepath.Join(dir, name+".impl")); err != nil {
		fatal(err)
	}
	s.ops = bufio.NewWriterSize(s.fo, 1<<20)
	s.impl = bufio.NewWriterSize(s.fi, 1<<20)
	return s
}

// Line records one operation and the implementation's canonical answer.
func (s *Stream) Line(op, implOut string) {
	s.ops.WriteString(op)
	s.ops.WriteByte('\n')
	s.impl.WriteString(implOut)
	s.impl.WriteByte('\n')
	s.Lines++
}

func (s *Stream) Count(key string) {
	s.mu.Lock()
	s.Dist[key]++
	s.mu.Unlock()
}

// Nontrivial records a canonical form of a non-trivial case; distinct ones are counted.
func (s *Stream) Nontrivial(canon string) {
	s.mu.Lock()
	defer s.mu.Unlock()
	if len(s.Distinct) < 5_000_000 {
		s.Distinct[canon]++
	}
}

func (s *Stream) Sample(v any) {
	s.mu.Lock()
	defer s.mu.Unlock()
	if len(s.Samples) < 5 {
		s.Samples = append(s.Samples, v)
	}
}

func (s *Stream) Violate(kind, detail string, replay any) {
	s.mu.Lock()
	defer s.mu.Unlock()
	if len(s.Violations) < 20 {
		s.Violations = append(s.Violations, Violation{kind, detail, replay})
	}
}

func (s *Stream) Close() {
	s.ops.Flush()
	s.impl.Flush()
	s.fo.Close()
	s.fi.Close()
	s.DistinctNontrivial = len(s.Distinct)
	type out struct {
		*Stream
		Lines int `json:"lines"`
	}
	data, err := json.MarshalIndent(out{s, s.Lines}, "", " ")
	if err != nil {
		fatal(err)
	}
	if err := os.WriteFile(filepath.Join(s.dir, s.Name+".stats.json"), data, 0o644); err != nil {
		fatal(err)
	}
}

func fatal(err error) {
	fmt.Fprintln(os.Stderr, "harness:", err)
	os.Exit(3)
}

func sortedKeys[V any](m map[string]V) []string {
	ks := make([]string, 0, len(m))
	for k := range m {
		ks = append(ks, k)
	}
	sort.Strings(ks)
	return ks
}
