package main

import (
	"fmt"
	"net"
	"runtime"
	"sync"
	"sync/atomic"
	"time"

	"github.com/whoisnian/glb/util/netutil"
)

func init() { streams["filterconc"] = runFilterConc }

// C12 direct oracle: concurrent writers (each owning its own ranges, together crossing the
// list->maps switch while readers run) and readers. A reader knows, for the address it probes,
// whether a covering range is present for the whole call (always-present ranges are added before
// the readers start and never removed) or no covering range exists at any time (never-present
// addresses lie in a block no writer ever touches), except for 0.0.0.0/0 which one writer toggles
// and publishes through an epoch protocol so that readers can tell "definitely absent during my
// whole call" from "maybe present".
// Afterwards the final membership is compared with the prefix set obtained by applying each
// writer's operations in order, and (model side) with the Lean model run on one linearisation.

const (
	zeroAbsent  = 0
	zeroUnknown = 1
	zeroPresent = 2
)

func runFilterConc(cfg Cfg) {
	s := NewStream(cfg.Out, "filterconc")
	defer s.Close()
	s.Rule = "W writers churn disjoint ranges (each adds/removes only prefixes inside its own /8 block), in total more ranges than the list holds so the switch happens while R readers probe always-present addresses (must be true), never-present addresses (must be false unless 0.0.0.0/0 may be present) and churned addresses; one writer toggles 0.0.0.0/0; every third run in three waves (grow, all writers remove everything they own and meet at a barrier, grow again); final membership = per-writer sequential prefix set; non-trivial = a probe of an always-present or never-present address (distinct by (kind, address, state of /0))"
	rng := NewRng(cfg.Seed)
	runs := cfg.N(3, 30)
	W, R := cfg.N(4, 16), cfg.N(4, 16)
	for run := 0; run < runs; run++ {
		f := netutil.NewIPv4Filter()
		s.Line("reset", "ok")
		// always-present ranges: 200.k.0.0/16, added up front
		var always []uint32
		// every third run has three waves: grow, shrink to (almost) nothing - all writers meet at a
		// barrier when they own nothing any more -, grow again: a filter may have several lives
		waves := run%3 == 2
		nAlways := 40
		if waves {
			nAlways = 6
		}
		var emptied atomic.Int32
		for k := 0; k < nAlways; k++ {
			a := uint32(200)<<24 | uint32(k)<<16
			f.Add(&net.IPNet{IP: ip4(a), Mask: net.CIDRMask(16, 32)})
			s.Line("add "+hx(ip4(a))+" "+hx(net.CIDRMask(16, 32)), "nil "+filterBrief(f))
			always = append(always, a)
		}
		// prologue, still in list mode: a range announced twice (with another one in between) and withdrawn once
		// is gone - the set does not count announcements
		{
			m16 := net.CIDRMask(16, 32)
			step := func(add bool, a uint32) {
				n := &net.IPNet{IP: ip4(a), Mask: m16}
				if add {
					f.Add(n)
					s.Line("add "+hx(ip4(a))+" "+hx(m16), "nil "+filterBrief(f))
				} else {
					f.Remove(n)
					s.Line("rem "+hx(ip4(a))+" "+hx(m16), "nil "+filterBrief(f))
				}
			}
			A, B := uint32(150)<<24|uint32(1+run%200)<<16, uint32(150)<<24|uint32(201)<<16
			step(true, A)
			step(true, B)
			step(true, A)
			step(false, A)
			if f.Contains(ip4(A | 7)) {
				s.Violate("final-disagreement", fmt.Sprintf("Add(%v/16), Add(other), Add(%v/16), Remove(%v/16): Contains(%v) is still true", ip4(A), ip4(A), ip4(A), ip4(A|7)), map[string]any{"run": run, "phase": "prologue (one goroutine)"})
			}
			s.Line("has "+hx(ip4(A|7)), fmt.Sprint(f.Contains(ip4(A|7))))
			step(false, B)
			s.Evaluations++
		}
		halfPresent := run%4 == 1
		if halfPresent {
			// a stable range of prefix length 1 (the shortest map): everything from 128.0.0.0 up is present
			// for the whole run, before and after the representation changes
			f.Add(&net.IPNet{IP: ip4(128 << 24), Mask: net.CIDRMask(1, 32)})
			s.Line("add "+hx(ip4(128<<24))+" "+hx(net.CIDRMask(1, 32)), "nil "+filterBrief(f))
			s.Count("run.stable-slash-1")
		}
		var zeroState atomic.Int64 // zeroAbsent / zeroUnknown / zeroPresent
		var zeroEpoch atomic.Int64
		var stop atomic.Bool
		var probeCnt [3]atomic.Int64
		var selfProbes atomic.Int64
		var wops atomic.Int64 // writer calls that returned
		var wgW, wgR sync.WaitGroup
		type wop struct {
			add  bool
			net  uint32
			ones int
		}
		logs := make([][]wop, W)
		perWriter := cfg.N(150, 400)
		if run == runs-1 {
			perWriter = cfg.N(9000, 1200) // one long life: thousands of removals in maps mode (the thorough tier has four times the writers)
			s.Count("run.long-life")
		}
		toggle := run%2 == 0
		for w := 0; w < W; w++ {
			wr := rng.Fork()
			wgW.Add(1)
			go func(w int) {
				defer wgW.Done()
				block := uint32(10+w) << 24
				own := prefixSet{} // EVERY range this writer currently has in the filter (all lie in its own block, which nobody else touches)
				var mine []wop
				var dup *wop // a range this writer will announce once more
				for i := 0; i < perWriter; i++ {
					wops.Add(1)
					if w == 0 && toggle && i%25 == 7 {
						zeroState.Store(zeroUnknown)
						zeroEpoch.Add(1)
						f.Add(&net.IPNet{IP: ip4(0), Mask: net.CIDRMask(0, 32)})
						logs[w] = append(logs[w], wop{true, 0, 0})
						zeroState.Store(zeroPresent)
						zeroEpoch.Add(1)
						continue
					}
					if w == 0 && toggle && i%25 == 15 {
						zeroState.Store(zeroUnknown)
						zeroEpoch.Add(1)
						f.Remove(&net.IPNet{IP: ip4(0), Mask: net.CIDRMask(0, 32)})
						logs[w] = append(logs[w], wop{false, 0, 0})
						zeroState.Store(zeroAbsent)
						zeroEpoch.Add(1)
						continue
					}
					if waves && i == perWriter/2 {
						for k := range own {
							f.Remove(&net.IPNet{IP: ip4(k.net), Mask: net.CIDRMask(k.ones, 32)})
							logs[w] = append(logs[w], wop{false, k.net, k.ones})
							delete(own, k)
						}
						mine = mine[:0]
						emptied.Add(1)
						for spin := 0; emptied.Load() < int32(W) && spin < 200000; spin++ {
							runtime.Gosched()
						}
					}
					if w == 1%W && i%40 == 9 {
						// a dual-stack route feed: IPv6 ranges are not for this filter - refused, and nothing changes
						v6 := Pick(wr, []*net.IPNet{
							{IP: net.ParseIP("::"), Mask: net.CIDRMask(0, 128)},
							{IP: net.ParseIP("2001:db8::"), Mask: net.CIDRMask(32, 128)},
							{IP: net.ParseIP("::ffff:10.0.0.0"), Mask: net.CIDRMask(104, 128)},
						})
						var err error
						if i%80 == 9 {
							err = f.Add(v6)
						} else {
							err = f.Remove(v6)
						}
						if err != netutil.ErrInvalidIPv4CIDR {
							s.Violate("invalid-cidr-accepted", fmt.Sprintf("writer %d: Add/Remove(%v) = %v, want ErrInvalidIPv4CIDR", w, v6, err), map[string]any{"run": run, "cidr": v6.String()})
						}
						continue
					}
					if i%3 == 1 {
						// hot address of this writer's block: toggle a range covering it and check, as the only
						// goroutine that ever changes ranges inside this block, that the own update is visible
						hot := block | 0x010203
						ones := 24 + wr.Intn(9)
						k := pfx{hot & maskN(ones), ones}
						if own[k] {
							f.Remove(&net.IPNet{IP: ip4(hot), Mask: net.CIDRMask(ones, 32)})
							delete(own, k)
							logs[w] = append(logs[w], wop{false, hot, ones})
						} else {
							f.Add(&net.IPNet{IP: ip4(hot), Mask: net.CIDRMask(ones, 32)})
							own[k] = true
							logs[w] = append(logs[w], wop{true, hot, ones})
						}
						want := own.mem(hot)
						for rep := 0; rep < 2; rep++ {
							e1, z1 := zeroEpoch.Load(), zeroState.Load()
							got := f.Contains(ip4(hot))
							z2, e2 := zeroState.Load(), zeroEpoch.Load()
							zeroAbsentThroughout := e1 == e2 && z1 == zeroAbsent && z2 == zeroAbsent
							selfProbes.Add(1)
							if want && !got {
								s.Violate("own-update-not-visible", fmt.Sprintf("writer %d: Contains(%v) = false right after its own Add returned (the range is present for the whole call)", w, ip4(hot)), map[string]any{"ip": ip4(hot).String(), "run": run, "writer": w})
							}
							if !want && got && zeroAbsentThroughout {
								s.Violate("own-update-not-visible", fmt.Sprintf("writer %d: Contains(%v) = true right after its own Remove returned (no range covering it exists during the call)", w, ip4(hot)), map[string]any{"ip": ip4(hot).String(), "run": run, "writer": w})
							}
						}
						continue
					}
					if len(mine) > 0 && wr.Chance(30) {
						o := Pick(wr, mine)
						f.Remove(&net.IPNet{IP: ip4(o.net), Mask: net.CIDRMask(o.ones, 32)})
						delete(own, pfx{o.net & maskN(o.ones), o.ones})
						logs[w] = append(logs[w], wop{false, o.net, o.ones})
					} else {
						if dup != nil && wr.Chance(60) {
							// the same range announced a second time (harmless: the set does not change)
							f.Add(&net.IPNet{IP: ip4(dup.net), Mask: net.CIDRMask(dup.ones, 32)})
							logs[w] = append(logs[w], *dup)
							own[pfx{dup.net & maskN(dup.ones), dup.ones}] = true // (it may have been removed in between)
							dup = nil
						}
						ones := 9 + wr.Intn(24)
						if waves && i < perWriter/2 {
							ones = 24 // first wave: a single prefix length; the others first appear after the switch
						}
						a := block | uint32(wr.U64())&0x00ffffff
						o := wop{true, a, ones}
						f.Add(&net.IPNet{IP: ip4(a), Mask: net.CIDRMask(ones, 32)})
						own[pfx{a & maskN(ones), ones}] = true
						mine = append(mine, o)
						logs[w] = append(logs[w], o)
						if dup == nil && wr.Chance(25) {
							d := o
							dup = &d
						}
					}
					if i%4 == 0 {
						runtime.Gosched()
					}
				}
			}(w)
		}
		for r := 0; r < R; r++ {
			rr := rng.Fork()
			wgR.Add(1)
			go func() {
				defer wgR.Done()
				for !stop.Load() {
					kind := rr.Intn(3)
					var a uint32
					switch kind {
					case 0:
						a = Pick(rr, always) | uint32(rr.U64())&0xffff
						if halfPresent && rr.Chance(50) {
							a = 128<<24 | uint32(rr.U64())&0x7fffffff
						}
					case 1:
						a = uint32(100)<<24 | uint32(rr.U64())&0x00ffffff // block 100/8: never touched
					default:
						a = uint32(10+rr.Intn(W))<<24 | uint32(rr.U64())&0x00ffffff
						if rr.Chance(60) {
							a = uint32(10+rr.Intn(W))<<24 | 0x010203 // a writer's hot address
						}
					}
					var ip net.IP = ip4(a)
					if rr.Chance(30) {
						ip = ip16(a)
					}
					probeCnt[kind].Add(1)
					e1, z1 := zeroEpoch.Load(), zeroState.Load()
					got := f.Contains(ip)
					z2, e2 := zeroState.Load(), zeroEpoch.Load()
					switch kind {
					case 0:
						if !got {
							s.Violate("present-range-missed", fmt.Sprintf("Contains(%v) = false although a range covering it (200.x.0.0/16, or 128.0.0.0/1 in this run) is present for the whole call", ip), map[string]any{"ip": ip.String(), "run": run})
						}
					case 1:
						if got && e1 == e2 && z1 == zeroAbsent && z2 == zeroAbsent {
							s.Violate("absent-address-matched", fmt.Sprintf("Contains(%v) = true although no range covering it was present at any time during the call", ip), map[string]any{"ip": ip.String(), "run": run})
						}
						if !got && e1 == e2 && z1 == zeroPresent && z2 == zeroPresent {
							s.Violate("present-range-missed", fmt.Sprintf("Contains(%v) = false although 0.0.0.0/0 was present for the whole call", ip), map[string]any{"ip": ip.String(), "run": run})
						}
					}
				}
			}()
		}
		// wait for the writers under a watchdog: a filter on which no call returns any more is a deadlock
		{
			wdone := make(chan struct{})
			go func() { wgW.Wait(); close(wdone) }()
			last, still := int64(-1), 0
		watch:
			for {
				select {
				case <-wdone:
					break watch
				case <-time.After(2 * time.Second):
					now := wops.Load() + probeCnt[0].Load() + probeCnt[1].Load() + probeCnt[2].Load() + selfProbes.Load()
					if now == last {
						still++
					} else {
						last, still = now, 0
					}
					if still >= 8 {
						buf := make([]byte, 1<<16)
						buf = buf[:runtime.Stack(buf, true)]
						s.Violate("no-progress", fmt.Sprintf("run %d: no Add/Remove/Contains call has returned for 16 s (%d writers, %d readers, 4- and 16-byte lookups): the filter is deadlocked", run, W, R),
							map[string]any{"run": run, "goroutines": string(buf[:min(len(buf), 6000)])})
						return
					}
				}
			}
		}
		stop.Store(true)
		wgR.Wait()
		// final agreement: per-writer sequential application (writers own disjoint keys)
		spec := prefixSet{}
		for _, a := range always {
			spec[pfx{a, 16}] = true
		}
		if halfPresent {
			spec[pfx{128 << 24, 1}] = true
		}
		nOps := 0
		for w := 0; w < W; w++ {
			for _, o := range logs[w] {
				nOps++
				k := pfx{o.net & maskN(o.ones), o.ones}
				if o.add {
					spec[k] = true
				} else {
					delete(spec, k)
				}
			}
		}
		st := f.VerifState()
		if waves {
			s.Count("run.three-waves")
		}
		if !st.MapsMode {
			s.Count("run.list-only")
		} else {
			s.Count("run.crossed-switch")
		}
		probes := 0
		for p := range spec {
			for _, a := range []uint32{p.net, p.net | ^maskN(p.ones), p.net - 1, (p.net | ^maskN(p.ones)) + 1} {
				got, want := f.Contains(ip4(a)), spec.mem(a)
				probes++
				if got != want {
					s.Violate("final-disagreement", fmt.Sprintf("after all writers stopped Contains(%v) = %v, per-writer sequential prefix set says %v", ip4(a), got, want), map[string]any{"ip": ip4(a).String(), "run": run})
				}
				if want {
					s.Nontrivial(fmt.Sprintf("final/%d/%d", run, a))
				}
			}
		}
		// model side: replay one linearisation (writer after writer — legal by theorem
		// final_agreement) in the Lean model and compare the answers of the final probes.
		s.Line("quiet 1", "ok")
		for w := 0; w < W; w++ {
			for _, o := range logs[w] {
				op := "rem "
				if o.add {
					op = "add "
				}
				s.Line(op+hx(ip4(o.net))+" "+hx(net.CIDRMask(o.ones, 32)), "skip")
			}
		}
		cnt := 0
		for p := range spec {
			if cnt >= 300 {
				break
			}
			cnt++
			for _, a := range []uint32{p.net, p.net - 1, (p.net | ^maskN(p.ones)) + 1} {
				s.Line("has "+hx(ip4(a)), fmt.Sprint(f.Contains(ip4(a))))
			}
		}
		s.Line("quiet 0", "ok")
		s.Evaluations += probes + int(probeCnt[0].Load()+probeCnt[1].Load()+probeCnt[2].Load())
		s.Dist["reader-probes.always-present"] += int(probeCnt[0].Load())
		s.Dist["reader-probes.never-present"] += int(probeCnt[1].Load())
		s.Dist["reader-probes.churned"] += int(probeCnt[2].Load())
		s.Dist["writer-self-probes"] += int(selfProbes.Load())
		s.Evaluations += int(selfProbes.Load())
		s.Count(fmt.Sprintf("writer-ops=%d", nOps))
	}
	s.Traces = runs
	filterDuel(s, cfg)
}

// filterDuel: one writer toggles a single range and checks after every call that its own update is
// visible, while readers hammer exactly the address that range covers. Any state that answers a
// lookup without looking at the set (a remembered last answer, a stale snapshot) shows up here
// within milliseconds, because reader and writer meet on the same address all the time.
func filterDuel(s *Stream, cfg Cfg) {
	for round := 0; round < cfg.N(4, 40); round++ {
		f := netutil.NewIPv4Filter()
		// put the filter in list mode (even rounds) or maps mode (odd rounds) first
		n := 10
		if round%2 == 1 {
			n = netutil.VerifListSize() + 10
		}
		for i := 0; i < n; i++ {
			f.Add(&net.IPNet{IP: ip4(uint32(50)<<24 | uint32(i)<<8), Mask: net.CIDRMask(24, 32)})
		}
		hot := uint32(99)<<24 | 0x010203
		ones := []int{32, 24, 9}[round%3]
		var stop atomic.Bool
		var wg sync.WaitGroup
		var reads atomic.Int64
		for r := 0; r < 3; r++ {
			wg.Add(1)
			go func(r int) {
				defer wg.Done()
				ip := ip4(hot)
				if r == 2 {
					ip = ip16(hot)
				}
				for !stop.Load() {
					f.Contains(ip)
					reads.Add(1)
				}
			}(r)
		}
		cidr := &net.IPNet{IP: ip4(hot), Mask: net.CIDRMask(ones, 32)}
		toggles := 0
		for end := time.Now().Add(40 * time.Millisecond); time.Now().Before(end) && !tlEnough(s); toggles++ {
			f.Add(cidr)
			if !f.Contains(ip4(hot)) {
				s.Violate("own-update-not-visible", fmt.Sprintf("duel: Contains(%v) = false right after Add(%v/%d) returned (only this goroutine changes that range)", ip4(hot), ip4(hot), ones), map[string]any{"ip": ip4(hot).String(), "ones": ones, "round": round, "toggle": toggles, "readers": "3 goroutines looking up the same address concurrently"})
			}
			f.Remove(cidr)
			if f.Contains(ip4(hot)) {
				s.Violate("own-update-not-visible", fmt.Sprintf("duel: Contains(%v) = true right after Remove(%v/%d) returned (no other range covers it)", ip4(hot), ip4(hot), ones), map[string]any{"ip": ip4(hot).String(), "ones": ones, "round": round, "toggle": toggles, "readers": "3 goroutines looking up the same address concurrently"})
			}
		}
		stop.Store(true)
		wg.Wait()
		s.Evaluations += 2 * toggles
		s.Dist["duel.toggles"] += toggles
		s.Dist["duel.reader-lookups"] += int(reads.Load())
		s.Nontrivial(fmt.Sprintf("duel/%d/%d", round%2, ones))
	}
}
