package main

// Stream `config` (C09): priority of configuration sources, on the REAL config.NewFlagSet / Parse.
//
// Struct types are built at run time with reflect.StructOf (all nine kinds, nested to depth 3, both
// tag syntaxes and untagged fields, random defaults). For every leaf field independently the four
// sources (command line, environment, JSON, tag default) are present or not; JSON travels in a file
// named by -config or in CFG_CONFIG_B64.
//
//   - correspondence: the Lean model (driver stream `config`) is given the struct description, every
//     text-parsing result it needs (computed here with strconv / time / base64: `pt` lines), the
//     environment, the carrier contents and the JSON overlay; it answers with the flag table of
//     NewFlagSet (name, environment key, kind, value after the default, usage) and with the outcome of
//     Parse (every flag's value + Args(), or the error class).
//   - direct oracle: the priority rule itself, evaluated here in Go on the generator's knowledge:
//     first present of [command-line text, environment text] read for the type ("" = zero), else the
//     JSON value, else the parsed default; Parse fails iff the vector is ungrammatical, the carrier
//     is unreadable / invalid, or an EFFECTIVE text is unreadable.
//
// JSON `null` is never generated (DESIGN §8.1: not a "mention").

import (
	"encoding/base64"
	"encoding/json"
	"fmt"
	"math"
	"os"
	"path/filepath"
	"reflect"
	"sort"
	"strconv"
	"strings"

	"github.com/whoisnian/glb/config"
)

func init() { streams["config"] = prioRun }

// ---- struct descriptions -------------------------------------------------------------------------------

type prioField struct {
	GoName string
	Kind   configKind // ckStruct for a nested struct
	Tag    string     // content of the `flag` tag; "" = no tag
	Sub    []*prioField

	// the generator's intent = the documented meaning of the tag (independent of the repo code)
	Name, Def, Usage string
	// derived
	Group  string // "Outer_Inner_"
	EnvKey string
	Index  []int
	Path   []string // Go names from the root, for JSON
}

type prioStruct struct {
	Fields []*prioField
	Leaves []*prioField // depth first
	Type   reflect.Type
}

// prioSnakeUpper: upper snake case, specified with a three-byte window (the documented rules:
// separators vanish; `_` before a byte that follows a separator, before an upper-case letter that
// follows a lower-case one, and before an upper-case letter followed by a lower-case one).
func prioSnakeUpper(s string) string {
	lower := func(c byte) bool { return 'a' <= c && c <= 'z' }
	upper := func(c byte) bool { return 'A' <= c && c <= 'Z' }
	digit := func(c byte) bool { return '0' <= c && c <= '9' }
	alnum := func(c byte) bool { return lower(c) || upper(c) || digit(c) }
	var out []byte
	for i := 0; i < len(s); i++ {
		c := s[i]
		if !alnum(c) {
			continue
		}
		if len(out) > 0 && i > 0 {
			p := s[i-1]
			nextLower := i+1 < len(s) && lower(s[i+1])
			if !alnum(p) || (upper(c) && (lower(p) || nextLower)) {
				out = append(out, '_')
			}
		}
		if lower(c) {
			c -= 'a' - 'A'
		}
		out = append(out, c)
	}
	return string(out)
}

var prioGoNames = []string{"A", "B", "Ab", "AB", "ABc", "HTTPPort", "ListenAddr", "X1", "X1y", "A_b", "Sub", "DB", "Db2Url", "URL2", "Z9Z",
	"Base64URL", "Http2TLS", "S3AccessKey", "Utf8BOM", "A1B", "Ab12CD", "X9Yz", "Md5Sum", "Sha256ID", "V2", "I18nKey", "OAuth2URL",
	"ConfigB64", "Port", "Name", "N", "V", "Debug", "TimeoutMs", "I64", "Key_ID", "Q_", "R2D2", "Inner", "Opt", "LogLevel", "Y"}

var prioTagNames = []string{"p", "port", "a-b", "x.y", "n1", "é", "listen", "v", "d", "level", "t-5", "k", "q", "name", "w", "0", "x y", "a_b",
	"V", "Port", "P", "K", "Name", "É"} // names are case-sensitive: v and V are two flags

func prioGenFields(r *Rng, depth int, counter *int) []*prioField {
	n := 1 + r.Intn(4)
	used := map[string]bool{}
	var out []*prioField
	if r.Chance(6) {
		// a sibling pair whose names (and so whose environment variables) differ by a common suffix only:
		// Token / TokenFile -> CFG_TOKEN / CFG_TOKEN_FILE. Each is a field of its own.
		base := Pick(r, []string{"Token", "Key", "Cert"})
		suffix := Pick(r, []string{"File", "Path", "B64"})
		for _, g := range []string{base, base + suffix} {
			used[g] = true
			*counter++
			out = append(out, &prioField{GoName: g, Kind: ckString, Name: strings.ToLower(g)})
		}
		n += 2
	}
	for len(out) < n {
		g := Pick(r, prioGoNames)
		if used[g] {
			continue
		}
		used[g] = true
		f := &prioField{GoName: g}
		if depth < 3 && r.Chance(22) {
			f.Kind = ckStruct
			f.Sub = prioGenFields(r, depth+1, counter)
			out = append(out, f)
			continue
		}
		f.Kind = configKind(r.Intn(9))
		*counter++
		// name
		switch c := r.Intn(100); {
		case c < 30:
			f.Name = "" // => lower-cased field name
		case c < 96:
			f.Name = Pick(r, prioTagNames)
			if r.Chance(70) {
				f.Name += strconv.Itoa(*counter) // keep names mostly unique
			}
		default:
			f.Name = Pick(r, []string{"-x", "a=b", "help", "config", "=", "--"})
		}
		// default
		if r.Chance(50) {
			f.Def = configValidText(r, f.Kind)
		}
		if r.Chance(2) && f.Kind != ckString {
			f.Def = configInvalidText(r, f.Kind)
		}
		f.Usage = Pick(r, []string{"", "usage", "a, b | c", "with,commas,and|bars", "x"})
		// syntax
		form := r.Intn(100)
		switch {
		case form < 20 && f.Name == "" && f.Def == "":
			f.Tag, f.Usage = "", "" // no tag at all
		case form < 60 && !strings.ContainsAny(f.Name+f.Def, ",") && !strings.HasPrefix(f.Name, "|"):
			switch {
			case f.Usage == "" && f.Def == "" && r.Bool():
				f.Tag = f.Name
			case f.Usage == "" && r.Bool():
				f.Tag = f.Name + "," + f.Def
			default:
				f.Tag = f.Name + "," + f.Def + "," + f.Usage
			}
		default:
			if strings.ContainsAny(f.Name+f.Def, "|") {
				f.Name, f.Def = strings.ReplaceAll(f.Name, "|", "!"), ""
			}
			switch {
			case f.Usage == "" && f.Def == "" && r.Bool():
				f.Tag = "|" + f.Name
			case f.Usage == "" && r.Bool():
				f.Tag = "|" + f.Name + "|" + f.Def
			default:
				f.Tag = "|" + f.Name + "|" + f.Def + "|" + f.Usage
			}
		}
		if f.Name == "" {
			f.Name = strings.ToLower(f.GoName)
		}
		out = append(out, f)
	}
	return out
}

func prioFinish(fields []*prioField) *prioStruct {
	st := &prioStruct{Fields: fields}
	var build func(fs []*prioField, group string, index []int, path []string) reflect.Type
	build = func(fs []*prioField, group string, index []int, path []string) reflect.Type {
		var sf []reflect.StructField
		for i, f := range fs {
			f.Group = group
			f.Index = append(append([]int{}, index...), i)
			f.Path = append(append([]string{}, path...), f.GoName)
			var tag reflect.StructTag
			if f.Tag != "" {
				tag = reflect.StructTag(`flag:` + strconv.Quote(f.Tag))
			}
			if f.Kind == ckStruct {
				t := build(f.Sub, group+f.GoName+"_", f.Index, f.Path)
				sf = append(sf, reflect.StructField{Name: f.GoName, Type: t})
				continue
			}
			f.EnvKey = prioSnakeUpper("CFG_" + group + f.GoName)
			st.Leaves = append(st.Leaves, f)
			sf = append(sf, reflect.StructField{Name: f.GoName, Type: configKindTypes[f.Kind], Tag: tag})
		}
		return reflect.StructOf(sf)
	}
	st.Type = build(fields, "", nil, nil)
	return st
}

func prioFieldTokens(fs []*prioField) string {
	var parts []string
	for _, f := range fs {
		if f.Kind == ckStruct {
			parts = append(parts, "G", hxs(f.GoName), strconv.Itoa(len(f.Sub)), prioFieldTokens(f.Sub))
		} else {
			parts = append(parts, "L", hxs(f.GoName), strconv.Itoa(int(f.Kind)), hxs(f.Tag))
		}
	}
	return strings.Join(parts, " ")
}

func (st *prioStruct) describe() any {
	var d func(fs []*prioField) []any
	d = func(fs []*prioField) []any {
		var out []any
		for _, f := range fs {
			if f.Kind == ckStruct {
				out = append(out, map[string]any{"struct": f.GoName, "fields": d(f.Sub)})
			} else {
				out = append(out, fmt.Sprintf("%s %s `flag:%q`", f.GoName, configKindNames[f.Kind], f.Tag))
			}
		}
		return out
	}
	return d(st.Fields)
}

// expected outcome of NewFlagSet by the documented rules, in field order
func (st *prioStruct) newErr() (class, arg string) {
	seen := map[string]bool{"help": true, "config": true}
	for _, f := range st.Leaves {
		switch {
		case strings.HasPrefix(f.Name, "-"):
			return "nameDash", f.Name
		case strings.Contains(f.Name, "="):
			return "nameEq", f.Name
		case seen[f.Name]:
			return "redefined", f.Name
		}
		if _, ok := configOracleText(f.Kind, f.Def); !ok {
			return "badDefault", ""
		}
		seen[f.Name] = true
	}
	return "", ""
}

var prioNewErrPrefixes = [][2]string{
	{"config: flag name begins with -: ", "nameDash"},
	{"config: flag name contains =: ", "nameEq"},
	{"config: flag name redefined: ", "redefined"},
}

func prioClassifyNewErr(err error) (class, arg string) {
	msg := err.Error()
	for _, p := range prioNewErrPrefixes {
		if strings.HasPrefix(msg, p[0]) {
			return p[1], msg[len(p[0]):]
		}
	}
	return "badDefault", ""
}

var prioTypeKinds = map[string]configKind{"bool": ckBool, "int": ckInt, "int64": ckInt64, "uint": ckUint, "uint64": ckUint64,
	"string": ckString, "float64": ckFloat64, "duration": ckDuration, "bytes": ckBytes}

// ---- cases ------------------------------------------------------------------------------------------------

type prioJSONVal struct {
	Lit   string // JSON literal
	Canon string // canonical value of the field afterwards
}

func prioGenJSON(r *Rng, k configKind) prioJSONVal {
	switch k {
	case ckBool:
		b := r.Bool()
		return prioJSONVal{strconv.FormatBool(b), strconv.FormatBool(b)}
	case ckInt, ckInt64:
		v := Pick(r, []int64{0, 5, -5, 42, math.MaxInt64, math.MinInt64, 1000000, 9007199254740993, -9007199254740995, 1<<62 + 1})
		return prioJSONVal{strconv.FormatInt(v, 10), strconv.FormatInt(v, 10)}
	case ckUint, ckUint64:
		v := Pick(r, []uint64{0, 5, 42, math.MaxUint64, 1 << 40, 9007199254740993, 1<<63 + 3})
		return prioJSONVal{strconv.FormatUint(v, 10), strconv.FormatUint(v, 10)}
	case ckString:
		s := Pick(r, []string{"", "a", "a=b", "héllo", "-b", "x y", "json\"quoted\"", "tab\t", "日本",
			"$HOME", "pa$$w0rd-${x}", "bob$smith", "${PATH}", "100%", "%s %d", "line\n", "crlf\r\n", " lead", "trail ", "{\"a\":1}", "back\\slash", "~/x", "#c", "\u0000nul", "<&>",
			"C:\\logs\\", "/var/*/logs/*/current", "// not a comment", "/* nor this */", "/etc/hostname"})
		b, _ := json.Marshal(s)
		return prioJSONVal{string(b), s}
	case ckFloat64:
		f := Pick(r, []float64{0, 1.5, -2e10, 1e308, 5e-324, 0.1, math.Copysign(0, -1)})
		return prioJSONVal{strconv.FormatFloat(f, 'g', -1, 64), configCanonFloat(f)}
	case ckDuration:
		v := Pick(r, []int64{0, 1e9, -5400e9, math.MaxInt64, 1})
		return prioJSONVal{strconv.FormatInt(v, 10), strconv.FormatInt(v, 10)}
	case ckBytes:
		b := Pick(r, [][]byte{{}, []byte("hi"), {0, 255}, []byte("whoisnian")})
		return prioJSONVal{`"` + base64.StdEncoding.EncodeToString(b) + `"`, fmt.Sprintf("%x", b)}
	}
	return prioJSONVal{"0", "0"}
}

type prioCase struct {
	Argv    []string
	Env     map[string]string   // everything set in the environment for this case
	JSON    map[int]prioJSONVal // leaf index -> value
	Carrier string              // "", "file", "b64"
	Broken  string              // "", "missing-file", "bad-b64", "bad-json", "type-mismatch"
	Extra   bool                // carrier "file": CFG_CONFIG_B64 is ALSO set (must be ignored)
	ExtraJ  map[int]prioJSONVal // content of that ignored CFG_CONFIG_B64
	Path    string              // file path given to -config
	cliOf   map[int]bool        // which leaves got a command-line group (statistics)
}

func prioText(r *Rng, k configKind) string {
	c := r.Intn(100)
	switch {
	case c < 72:
		return configValidText(r, k)
	case c < 82:
		return ""
	case c < 90:
		return configInvalidText(r, k)
	default:
		return Pick(r, []string{"-b", "a=b", "--", "=", " ", "0"})
	}
}

func prioNoNUL(s string) string { return strings.ReplaceAll(s, "\x00", "\x01") }

// prioJSONText renders the JSON document that mentions exactly the given leaves.
func prioJSONText(st *prioStruct, vals map[int]prioJSONVal, typeMismatch int) string {
	leafIdx := map[*prioField]int{}
	for i, l := range st.Leaves {
		leafIdx[l] = i
	}
	var render func(fs []*prioField) (string, bool)
	render = func(fs []*prioField) (string, bool) {
		var parts []string
		for _, f := range fs {
			if f.Kind == ckStruct {
				if sub, any := render(f.Sub); any {
					k, _ := json.Marshal(f.GoName)
					parts = append(parts, string(k)+":"+sub)
				}
				continue
			}
			if v, ok := vals[leafIdx[f]]; ok {
				k, _ := json.Marshal(f.GoName)
				lit := v.Lit
				if leafIdx[f] == typeMismatch {
					if f.Kind == ckString || f.Kind == ckBytes {
						lit = "17"
					} else {
						lit = `"text"`
					}
				}
				parts = append(parts, string(k)+":"+lit)
			}
		}
		return "{" + strings.Join(parts, ",") + "}", len(parts) > 0
	}
	s, _ := render(st.Fields)
	return s
}

func prioGenCase(r *Rng, st *prioStruct, dir string, id int, forced []int) *prioCase {
	c := &prioCase{Env: map[string]string{}, JSON: map[int]prioJSONVal{}, cliOf: map[int]bool{}}
	var groups [][]string
	for i, f := range st.Leaves {
		mask := r.Intn(8)
		if forced != nil {
			mask = forced[i]
		}
		if mask&1 != 0 { // command line
			c.cliOf[i] = true
			reps := 1
			if r.Chance(12) {
				reps = 2 // repeated flag: the last one wins
			}
			for ; reps > 0; reps-- {
				t := prioText(r, f.Kind)
				d := "-"
				if r.Bool() {
					d = "--"
				}
				switch {
				case f.Kind == ckBool && r.Chance(40):
					groups = append(groups, []string{d + f.Name})
				case f.Kind == ckBool || r.Bool():
					groups = append(groups, []string{d + f.Name + "=" + t})
				default:
					groups = append(groups, []string{d + f.Name, t})
				}
			}
		}
		if mask&2 != 0 { // environment
			c.Env[f.EnvKey] = prioNoNUL(prioText(r, f.Kind))
		}
		if mask&4 != 0 { // JSON
			c.JSON[i] = prioGenJSON(r, f.Kind)
		}
	}
	// junk that must not matter: the built-in flags have no environment variable
	if r.Chance(6) {
		c.Env["CFG_CONFIG"] = filepath.Join(dir, "never-read.json")
	}
	if r.Chance(6) {
		c.Env["CFG_HELP"] = "true"
	}
	// carrier
	if len(c.JSON) > 0 || r.Chance(20) {
		if r.Bool() {
			c.Carrier = "file"
			c.Path = filepath.Join(dir, fmt.Sprintf("c%d.json", id))
			if id%4 == 1 {
				c.Path = filepath.Join(dir, "app.json") // one well-known path, rewritten before each Parse: every Parse reads the file as it is now
			}
		} else {
			c.Carrier = "b64"
		}
		if r.Chance(7) {
			c.Broken = Pick(r, []string{"missing", "bad-json", "type-mismatch"})
			if c.Carrier == "b64" && c.Broken == "missing" {
				c.Broken = "bad-b64"
			}
			if c.Broken == "type-mismatch" && len(c.JSON) == 0 {
				c.Broken = "bad-json"
			}
		}
		if c.Carrier == "file" && r.Chance(15) {
			c.Extra = true
			c.ExtraJ = map[int]prioJSONVal{}
			for i, f := range st.Leaves {
				if r.Bool() {
					c.ExtraJ[i] = prioGenJSON(r, f.Kind)
				}
			}
		}
	}
	// CFG_CONFIG_B64 is the carrier's variable: a field that happens to share it (ConfigB64) sees the
	// carrier's text, never a text of its own
	delete(c.Env, "CFG_CONFIG_B64")
	// shuffle the groups, add the -config group somewhere
	if c.Carrier == "file" {
		if r.Bool() {
			groups = append(groups, []string{"-config=" + c.Path})
		} else {
			groups = append(groups, []string{"--config", c.Path})
		}
	}
	// -help (a built-in bool flag) along with everything else: Parse must still apply every source
	if r.Chance(8) {
		groups = append(groups, Pick(r, [][]string{{"-help"}, {"--help"}, {"-help=true"}, {"-help=false"}, {"--help=1"}}))
	}
	for i := len(groups) - 1; i > 0; i-- {
		j := r.Intn(i + 1)
		groups[i], groups[j] = groups[j], groups[i]
	}
	for _, g := range groups {
		c.Argv = append(c.Argv, g...)
	}
	if r.Chance(15) {
		c.Argv = append(c.Argv, Pick(r, [][]string{{"--", "-zz=3", "x"}, {"rest", "-x"}, {"--"}, {"-"}, {""}})...)
	} else if r.Chance(12) {
		// positional arguments that look like values (after a bare boolean flag they are still positional)
		c.Argv = append(c.Argv, Pick(r, [][]string{{"false"}, {"0", "x"}, {"true"}, {"f"}, {"1"}, {"F", "T"}, {"5"}, {"a=b"}})...)
	}
	if r.Chance(2) { // ungrammatical vector
		bad := Pick(r, []string{"---x", "-=", "-zz-undefined", "--=v"})
		pos := r.Intn(len(c.Argv) + 1)
		c.Argv = append(c.Argv[:pos], append([]string{bad}, c.Argv[pos:]...)...)
	}
	return c
}

// carrierText: the JSON document and the environment / file that carries it
func (c *prioCase) materialise(st *prioStruct) (doc string, b64 string, err error) {
	mismatch := -1
	if c.Broken == "type-mismatch" {
		keys := make([]int, 0, len(c.JSON))
		for k := range c.JSON {
			keys = append(keys, k)
		}
		sort.Ints(keys)
		mismatch = keys[0]
	}
	doc = prioJSONText(st, c.JSON, mismatch)
	if c.Broken == "bad-json" {
		doc = doc[:len(doc)-1] + ",]"
	}
	switch c.Carrier {
	case "file":
		os.Remove(c.Path)
		if c.Broken != "missing" {
			err = os.WriteFile(c.Path, []byte(doc), 0o644)
		}
		if c.Extra {
			b64 = base64.StdEncoding.EncodeToString([]byte(prioJSONText(st, c.ExtraJ, -1)))
		}
	case "b64":
		b64 = base64.StdEncoding.EncodeToString([]byte(doc))
		if c.Broken == "bad-b64" {
			b64 = "!" + b64
		}
	}
	return
}

type prioObs struct {
	Panic   string
	Err     error
	Class   string // "", arg class, carrier, badValue
	Arg     string
	Args    []string
	Vals    []string // canonical value of every flag (help, config, leaves…)
	ArgVals []*string
}

// prioRunCase drives the real code: environment, file, fresh struct, NewFlagSet, Parse.
func prioRunCase(st *prioStruct, c *prioCase) (obs prioObs, b64 string, doc string) {
	doc, b64, _ = c.materialise(st)
	env := map[string]string{}
	for k, v := range c.Env {
		env[k] = v
	}
	if b64 != "" || c.Carrier == "b64" {
		env["CFG_CONFIG_B64"] = b64
	}
	keys := sortedKeys(env)
	for _, k := range keys {
		os.Setenv(k, env[k])
	}
	defer func() {
		for _, k := range keys {
			os.Unsetenv(k)
		}
		if c.Path != "" {
			os.Remove(c.Path)
		}
	}()
	ptr := reflect.New(st.Type)
	prioPrefill(ptr.Elem())
	fs, err := config.NewFlagSet(ptr.Interface())
	if err != nil {
		obs.Err, obs.Class = err, "newflagset"
		return
	}
	func() {
		defer func() {
			if p := recover(); p != nil {
				obs.Panic = fmt.Sprint(p)
			}
		}()
		obs.Err = fs.Parse(append([]string(nil), c.Argv...))
	}()
	if obs.Panic != "" {
		obs.Class = "panic"
		return
	}
	obs.Class, obs.Arg = configClassifyParseErr(obs.Err)
	if obs.Class == "other" {
		// an error of parseConfigJson (carrier) or of a Value.Set (badValue): tell them apart by type;
		// a base64 error is the carrier's iff CFG_CONFIG_B64 was consulted and does not decode
		obs.Class = "badValue"
		switch obs.Err.(type) {
		case *os.PathError, *json.SyntaxError, *json.UnmarshalTypeError:
			obs.Class = "carrier"
		case base64.CorruptInputError:
			if c.Carrier == "b64" {
				if _, e := base64.StdEncoding.DecodeString(b64); e != nil {
					obs.Class = "carrier"
				}
			}
		default:
			if strings.Contains(obs.Err.Error(), "JSON input") || strings.HasPrefix(obs.Err.Error(), "json:") {
				obs.Class = "carrier"
			}
		}
	}
	obs.Args = fs.Args()
	obs.Vals = append(obs.Vals, strconv.FormatBool(fs.ShowUsage()), fs.Lookup("config").Value.String())
	for _, f := range st.Leaves {
		obs.Vals = append(obs.Vals, configFieldCanon(ptr.Elem().FieldByIndex(f.Index), f.Kind))
	}
	return
}

func (st *prioStruct) flags() []configFlagInfo {
	fl := configBuiltinFlags()
	for _, f := range st.Leaves {
		fl = append(fl, configFlagInfo{f.Name, f.Kind, f.Def, f.Index})
	}
	return fl
}

// prioExpect evaluates the PRIORITY RULE directly. ok=false: Parse must fail (why says which clause).
func prioExpect(st *prioStruct, c *prioCase) (vals []string, rest []string, ok bool, why string) {
	isBool := map[string]bool{"help": true, "config": false}
	for _, f := range st.Leaves {
		isBool[f.Name] = f.Kind == ckBool
	}
	g := argvSpec(isBool, c.Argv)
	if g.Class != "" {
		return nil, nil, false, "ungrammatical argument vector (" + g.Class + ")"
	}
	// the JSON carrier: the file named on the command line, else CFG_CONFIG_B64
	path, _ := argvLastAssign(g.Assigns, "config")
	var mention map[int]prioJSONVal
	switch {
	case path != "":
		if c.Carrier != "file" || path != c.Path || c.Broken != "" {
			return nil, nil, false, "configuration file unreadable or invalid (" + c.Broken + ")"
		}
		mention = c.JSON
	case c.Carrier == "b64":
		if c.Broken != "" {
			return nil, nil, false, "CFG_CONFIG_B64 unreadable or invalid (" + c.Broken + ")"
		}
		mention = c.JSON
	case c.Extra: // the -config group was not reached by the parser: CFG_CONFIG_B64 is the carrier
		mention = c.ExtraJ
	}
	env := map[string]string{}
	for k, v := range c.Env {
		env[k] = v
	}
	if c.Carrier == "b64" || c.Extra {
		_, b64, _ := c.materialise(st)
		if c.Path != "" {
			os.Remove(c.Path)
		}
		env["CFG_CONFIG_B64"] = b64
	}
	help, _ := argvLastAssign(g.Assigns, "help")
	hv, hok := configOracleText(ckBool, help)
	if !hok {
		return nil, nil, false, "effective text of -help unreadable"
	}
	vals = append(vals, hv, path)
	for i, f := range st.Leaves {
		var text string
		var have bool
		if t, ok := argvLastAssign(g.Assigns, f.Name); ok {
			text, have = t, true
		} else if t, ok := env[f.EnvKey]; ok {
			text, have = t, true
		}
		switch {
		case have:
			v, good := configOracleText(f.Kind, text)
			if !good {
				return nil, nil, false, fmt.Sprintf("effective text %q of flag %q is not a %s", text, f.Name, configKindNames[f.Kind])
			}
			vals = append(vals, v)
		case mention != nil && func() bool { _, m := mention[i]; return m }():
			vals = append(vals, mention[i].Canon)
		default:
			v, _ := configOracleText(f.Kind, f.Def)
			vals = append(vals, v)
		}
	}
	return vals, g.Rest, true, ""
}

func prioOracle(st *prioStruct, c *prioCase, obs prioObs) (kind, detail string) {
	if obs.Panic != "" {
		return "panic", "Parse panicked: " + obs.Panic
	}
	want, rest, ok, why := prioExpect(st, c)
	if !ok {
		if obs.Err == nil {
			return "error-expected", "Parse returned nil but " + why
		}
		return "", ""
	}
	if obs.Err != nil {
		return "spurious-error", fmt.Sprintf("every source is readable but Parse returned %v", obs.Err)
	}
	if len(rest) != len(obs.Args) {
		return "args", fmt.Sprintf("Args() = %q, want %q", obs.Args, rest)
	}
	for i := range rest {
		if rest[i] != obs.Args[i] {
			return "args", fmt.Sprintf("Args() = %q, want %q", obs.Args, rest)
		}
	}
	for i := range want {
		if want[i] != obs.Vals[i] {
			name := []string{"help", "config"}
			who := ""
			if i < 2 {
				who = name[i]
			} else {
				f := st.Leaves[i-2]
				_, cli := c.cliOf[i-2]
				_, env := c.Env[f.EnvKey]
				_, js := c.JSON[i-2]
				who = fmt.Sprintf("%s (%s %s, flag %q, env %s; sources: cli=%v env=%v json=%v default=%q)", strings.Join(f.Path, "."),
					f.GoName, configKindNames[f.Kind], f.Name, f.EnvKey, cli, env, js, f.Def)
			}
			return "priority", fmt.Sprintf("field %s holds %q, the priority rule says %q", who, obs.Vals[i], want[i])
		}
	}
	return "", ""
}

func (c *prioCase) replay(st *prioStruct) any {
	doc, b64, _ := c.materialise(st)
	if c.Path != "" {
		os.Remove(c.Path)
	}
	q := make([]string, len(c.Argv))
	for i, a := range c.Argv {
		q[i] = strconv.Quote(a)
	}
	env := map[string]string{}
	for k, v := range c.Env {
		env[k] = strconv.Quote(v)
	}
	if b64 != "" {
		env["CFG_CONFIG_B64"] = b64
	}
	return map[string]any{"struct": st.describe(), "argv": q, "env": env, "carrier": c.Carrier, "broken": c.Broken, "json": doc}
}

// prioShrink greedily drops environment variables and argv tokens while the oracle still fails.
func prioShrink(st *prioStruct, c *prioCase) *prioCase {
	fails := func(x *prioCase) bool {
		o, _, _ := prioRunCase(st, x)
		if o.Class == "newflagset" {
			return false
		}
		k, _ := prioOracle(st, x, o)
		return k != ""
	}
	if !fails(c) {
		return c
	}
	cur := *c
	for _, k := range sortedKeys(c.Env) {
		t := cur
		t.Env = map[string]string{}
		for k2, v := range cur.Env {
			if k2 != k {
				t.Env[k2] = v
			}
		}
		if fails(&t) {
			cur = t
		}
	}
	argv := ddmin(cur.Argv, func(a []string) bool { t := cur; t.Argv = a; return fails(&t) })
	cur.Argv = argv
	return &cur
}

// ---- the stream ------------------------------------------------------------------------------------------

func prioRun(cfg Cfg) {
	s := NewStream(cfg.Out, "config")
	defer s.Close()
	s.Rule = "reflect.StructOf struct types (9 kinds, nesting <= 3, both tag syntaxes, untagged, random defaults); per leaf field independently cli/env/JSON present or not (x default present or not), JSON in a -config file or in CFG_CONFIG_B64, texts valid / empty / unreadable / flag-like, repeated flags, broken carriers, ungrammatical vectors, junk CFG_CONFIG / CFG_HELP; a systematic tier enumerates kind x 16 source combinations x carrier x tag syntax on one- and nested-field structs; non-trivial = a successful Parse in which at least one field is decided by a source above the default (distinct by (kind, source mask, deciding source, value))"
	restore := configCleanEnv()
	defer restore()
	dir, err := os.MkdirTemp("", "verif-config-")
	if err != nil {
		fatal(err)
	}
	defer os.RemoveAll(dir)
	rng := NewRng(cfg.Seed)
	caseID := 0

	zeroLines := func() {
		s.Line("world", "ok")
		for k := ckBool; k <= ckBytes; k++ {
			z, _ := configOracleText(k, "")
			s.Line(fmt.Sprintf("zero %d %s", int(k), hxs(z)), "ok")
		}
	}
	sent := map[string]bool{}
	pt := func(k configKind, text string) {
		if k == ckString || text == "" {
			return
		}
		key := strconv.Itoa(int(k)) + " " + hxs(text)
		if sent[key] {
			return
		}
		sent[key] = true
		v, ok := configOracleText(k, text)
		res := "!"
		if ok {
			res = hxs(v)
		}
		s.Line("pt "+key+" "+res, "ok")
	}

	// newfs: returns false when the struct is rejected (as expected or not)
	newfs := func(st *prioStruct) bool {
		for _, f := range st.Leaves {
			pt(f.Kind, f.Def)
		}
		ptr := reflect.New(st.Type)
		prioPrefill(ptr.Elem())
		fs, err := config.NewFlagSet(ptr.Interface())
		wantClass, wantArg := st.newErr()
		op := "newfs " + prioFieldTokens(st.Fields)
		if err != nil {
			class, arg := prioClassifyNewErr(err)
			line := "err:" + class
			if class != "badDefault" {
				line += ":" + hxs(arg)
			}
			s.Line(op, line)
			s.Count("newflagset." + class)
			if class != wantClass || arg != wantArg {
				s.Violate("newflagset", fmt.Sprintf("NewFlagSet returned %v, the documented rules say class=%q name=%q", err, wantClass, wantArg), st.describe())
			}
			return false
		}
		if wantClass != "" {
			s.Violate("newflagset", fmt.Sprintf("NewFlagSet accepted a struct the documented rules reject (%s %q)", wantClass, wantArg), st.describe())
		}
		parts := []string{}
		for i, fi := range st.flags() {
			flg := fs.Lookup(fi.Name)
			if flg == nil {
				parts = append(parts, "missing")
				s.Violate("flag-name", fmt.Sprintf("no flag named %q although the tag says so", fi.Name), st.describe())
				continue
			}
			var val string
			switch i {
			case 0:
				val = strconv.FormatBool(fs.ShowUsage())
			case 1:
				val = flg.Value.String()
			default:
				f := st.Leaves[i-2]
				val = configFieldCanon(ptr.Elem().FieldByIndex(f.Index), f.Kind)
				// direct oracle on construction: env key, usage, parsed default
				if flg.Env != f.EnvKey {
					s.Violate("env-key", fmt.Sprintf("field %s: Env = %q, upper snake case of CFG_+group+name is %q", strings.Join(f.Path, "."), flg.Env, f.EnvKey), st.describe())
				}
				if flg.Usage != f.Usage {
					s.Violate("tag", fmt.Sprintf("field %s tag %q: usage %q, want %q", f.GoName, f.Tag, flg.Usage, f.Usage), st.describe())
				}
				if w, _ := configOracleText(f.Kind, f.Def); w != val {
					s.Violate("default", fmt.Sprintf("field %s tag %q: holds %q after NewFlagSet, parsed default is %q", f.GoName, f.Tag, val, w), st.describe())
				}
			}
			usage := flg.Usage
			if i < 2 {
				usage = "" // the usage texts of the two built-ins are not modelled
			}
			parts = append(parts, fmt.Sprintf("%s:%s:%d:%s:%s", hxs(flg.Name), hxs(flg.Env), int(prioTypeKinds[flg.Value.Type()]), hxs(val), hxs(usage)))
		}
		s.Line(op, "ok "+strings.Join(parts, ","))
		s.Count("newflagset.ok")
		return true
	}

	runCase := func(st *prioStruct, c *prioCase) {
		obs, b64, doc := prioRunCase(st, c)
		// ---- model side: tell the driver everything the standard library computed
		s.Line("case", "ok")
		isBool := map[string]bool{"help": true, "config": false}
		kindOf := map[string]configKind{"help": ckBool, "config": ckString}
		for _, f := range st.Leaves {
			isBool[f.Name] = f.Kind == ckBool
			kindOf[f.Name] = f.Kind
		}
		g := argvSpec(isBool, c.Argv)
		for _, a := range g.Assigns {
			pt(kindOf[a[0]], a[1])
		}
		env := map[string]string{}
		for k, v := range c.Env {
			env[k] = v
		}
		if b64 != "" || c.Carrier == "b64" {
			env["CFG_CONFIG_B64"] = b64
		}
		for _, k := range sortedKeys(env) {
			s.Line("env "+hxs(k)+" "+hxs(env[k]), "ok")
			for _, f := range st.Leaves {
				if f.EnvKey == k {
					pt(f.Kind, env[k])
				}
			}
		}
		overlay := func(m map[int]prioJSONVal, broken string) string {
			if broken == "bad-json" || broken == "type-mismatch" {
				return "!"
			}
			if len(m) == 0 {
				return "-"
			}
			idx := make([]int, 0, len(m))
			for i := range m {
				idx = append(idx, i)
			}
			sort.Ints(idx)
			parts := make([]string, len(idx))
			for j, i := range idx {
				parts[j] = fmt.Sprintf("%d=%s", i+2, hxs(m[i].Canon))
			}
			return strings.Join(parts, ",")
		}
		switch c.Carrier {
		case "file":
			data := hxs(doc)
			if c.Broken == "missing" {
				data = "!"
			}
			s.Line("file "+hxs(c.Path)+" "+data, "ok")
			if data != "!" {
				s.Line("json "+hxs(doc)+" "+overlay(c.JSON, c.Broken), "ok")
			}
			if c.Extra {
				xdoc := prioJSONText(st, c.ExtraJ, -1)
				s.Line("b64 "+hxs(b64)+" "+hxs(xdoc), "ok")
				s.Line("json "+hxs(xdoc)+" "+overlay(c.ExtraJ, ""), "ok")
			}
		case "b64":
			if c.Broken == "bad-b64" {
				s.Line("b64 "+hxs(b64)+" !", "ok")
			} else {
				s.Line("b64 "+hxs(b64)+" "+hxs(doc), "ok")
				s.Line("json "+hxs(doc)+" "+overlay(c.JSON, c.Broken), "ok")
			}
		}
		toks := make([]string, len(c.Argv))
		for i, a := range c.Argv {
			toks[i] = hxs(a)
		}
		op := "run"
		if len(toks) > 0 {
			op += " " + strings.Join(toks, " ")
		}
		// ---- implementation side
		var line string
		switch obs.Class {
		case "panic":
			line = "err:panic:" + obs.Panic
		case "":
			v := make([]string, len(obs.Vals))
			for i, x := range obs.Vals {
				v[i] = hxs(x)
			}
			rest := make([]string, len(obs.Args))
			for i, x := range obs.Args {
				rest[i] = hxs(x)
			}
			line = "ok vals=[" + strings.Join(v, ",") + "] rest=[" + strings.Join(rest, ",") + "]"
		case "badSyntax", "undefined", "needsArg":
			line = "err:arg:" + obs.Class + ":" + hxs(obs.Arg)
		default:
			line = "err:" + obs.Class
		}
		s.Line(op, line)
		s.Evaluations++
		// ---- direct oracle
		if kind, detail := prioOracle(st, c, obs); kind != "" {
			min := c
			if len(s.Violations) < 3 {
				min = prioShrink(st, c)
				o2, _, _ := prioRunCase(st, min)
				if k2, d2 := prioOracle(st, min, o2); k2 != "" {
					kind, detail = k2, d2
				}
			}
			s.Violate(kind, detail, min.replay(st))
		}
		// ---- statistics
		cls := obs.Class
		if cls == "" {
			cls = "ok"
		}
		s.Count("result." + cls)
		if c.Carrier != "" {
			s.Count("carrier." + c.Carrier)
		}
		if c.Broken != "" {
			s.Count("carrier.broken." + c.Broken)
		}
		for i, f := range st.Leaves {
			_, cli := c.cliOf[i]
			_, envp := c.Env[f.EnvKey]
			_, js := c.JSON[i]
			mask := 0
			decider := "default"
			if js && c.Broken == "" {
				mask |= 4
				decider = "json"
			}
			if envp {
				mask |= 2
				decider = "env"
			}
			if cli {
				mask |= 1
				decider = "cli"
			}
			if f.Def != "" {
				mask |= 8
			}
			s.Count(fmt.Sprintf("sources.%04b", mask))
			s.Count("kind." + configKindNames[f.Kind])
			if obs.Class == "" && decider != "default" {
				s.Nontrivial(fmt.Sprintf("%d/%04b/%s/%s", f.Kind, mask, decider, obs.Vals[i+2]))
			}
		}
	}

	// 1. systematic tier: kind x 16 source combinations x carrier x tag syntax, flat and nested
	zeroLines()
	for k := ckBool; k <= ckBytes; k++ {
		for syntax := 0; syntax < 2; syntax++ {
			for nested := 0; nested < 2; nested++ {
				for _, hasDef := range []bool{false, true} {
					r := rng.Fork()
					f := &prioField{GoName: "TheField", Kind: k, Name: "the-flag", Usage: "u"}
					if hasDef {
						f.Def = configValidText(r, k)
						if strings.ContainsAny(f.Def, ",|") {
							f.Def = ""
						}
					}
					if syntax == 0 {
						f.Tag = f.Name + "," + f.Def + "," + f.Usage
					} else {
						f.Tag = "|" + f.Name + "|" + f.Def + "|" + f.Usage
					}
					fields := []*prioField{f}
					if nested == 1 {
						fields = []*prioField{{GoName: "Outer", Kind: ckStruct, Sub: []*prioField{{GoName: "In2", Kind: ckStruct, Sub: []*prioField{f}}}}}
					}
					st := prioFinish(fields)
					if !newfs(st) {
						continue
					}
					for mask := 0; mask < 8; mask++ {
						for rep := 0; rep < 4; rep++ {
							caseID++
							c := prioGenCase(rng.Fork(), st, dir, caseID, []int{mask})
							runCase(st, c)
						}
					}
				}
			}
		}
	}
	s.Notes = append(s.Notes, "systematic tier: 9 kinds x 2 tag syntaxes x flat/nested x default present/absent x 8 cli/env/JSON combinations x 4 repetitions (carrier file/b64 random)")
	s.Notes = append(s.Notes, "JSON null is excluded from the generator (DESIGN 8.1)")

	// 2. random structs
	nStructs := cfg.N(1500, 12000)
	perStruct := cfg.N(12, 25)
	for t := 0; t < nStructs; t++ {
		r := rng.Fork()
		counter := 0
		st := prioFinish(prioGenFields(r, 1, &counter))
		if t < 2 {
			s.Sample(st.describe())
		}
		s.Count(fmt.Sprintf("struct.leaves.%d", len(st.Leaves)))
		if !newfs(st) {
			continue
		}
		for i := 0; i < perStruct; i++ {
			caseID++
			runCase(st, prioGenCase(r, st, dir, caseID, nil))
		}
	}
	s.Traces = s.Evaluations
}

var prioPrefillSeq int

// prioPrefill: every other struct handed to NewFlagSet is not fresh but already holds non-zero
// values (a reused or pre-populated config struct). NewFlagSet must overwrite every field with its
// tag default - the zero value when the tag has none - so the starting content must not matter.
func prioPrefill(v reflect.Value) {
	prioPrefillSeq++
	if prioPrefillSeq%2 == 0 {
		return
	}
	prioPrefillRec(v)
}

func prioPrefillRec(v reflect.Value) {
	for i := 0; i < v.NumField(); i++ {
		f := v.Field(i)
		if !f.CanSet() {
			continue
		}
		switch f.Kind() {
		case reflect.Struct:
			prioPrefillRec(f)
		case reflect.Bool:
			f.SetBool(true)
		case reflect.Int, reflect.Int64:
			f.SetInt(7777)
		case reflect.Uint, reflect.Uint64:
			f.SetUint(7777)
		case reflect.String:
			f.SetString("prefilled")
		case reflect.Float64:
			f.SetFloat(77.5)
		case reflect.Slice:
			if f.Type().Elem().Kind() == reflect.Uint8 {
				f.SetBytes([]byte("prefilled"))
			}
		}
	}
}
