// harness drives the real whoisnian/glb code (built with -tags verif) in-process on generated
// inputs / operation sequences / schedules and writes, per stream,
//
//	<out>/<stream>.ops         the operations, one per line (input of the Lean driver)
//	<out>/<stream>.impl        the implementation's canonical answers, one per line
//	<out>/<stream>.stats.json  distribution, samples, direct-oracle violations
package main

import (
	"fmt"
	"os"
	"strconv"
)

type Cfg struct {
	Tier   string // quick | thorough
	Seed   uint64
	Out    string
	Replay string // optional: replay file
}

func (c Cfg) Thorough() bool { return c.Tier == "thorough" }

// N picks a size by tier.
func (c Cfg) N(quick, thorough int) int {
	if c.Thorough() {
		return thorough
	}
	return quick
}

var streams = map[string]func(Cfg){}

func main() {
	runEarlyHooks() // daemon re-exec roles (C20) must be served before anything else
	if len(os.Args) < 5 {
		fmt.Fprintln(os.Stderr, "usage: harness <stream> <quick|thorough> <seed> <outdir> [replay]")
		os.Exit(2)
	}
	seed, err := strconv.ParseUint(os.Args[3], 10, 64)
	if err != nil {
		fatal(err)
	}
	cfg := Cfg{Tier: os.Args[2], Seed: seed, Out: os.Args[4]}
	if len(os.Args) > 5 {
		cfg.Replay = os.Args[5]
	}
	if err := os.MkdirAll(cfg.Out, 0o755); err != nil {
		fatal(err)
	}
	run, ok := streams[os.Args[1]]
	if !ok {
		fmt.Fprintln(os.Stderr, "harness: unknown stream", os.Args[1])
		os.Exit(2)
	}
	run(cfg)
}
