package main

// Stream "trself": self-test of the Go→Lean translator (tools/extract/golean.go), part of the trusted
// base. The corpus /verif/harness/trtest (one small Go function per reading of Go the translator has to
// get right) is run here in Go, and its TRANSLATION (Glb/Generated/TrSelfTest.lean) is run by the Lean
// driver on the same inputs; answers must agree, including the class of a run-time panic (index /
// slice). Inputs: every pair of strings up to length 2 (quick) / 3 (thorough) over {a, b, /, A, 0xE9}
// x n in -2..5 x both booleans, plus random longer strings. No property of whoisnian/glb is involved:
// a disagreement means the translator (or Prelude.lean) reads Go wrongly.

import (
	"fmt"
	"runtime"
	"sort"
	"strings"

	"verif/harness/trtest"
)

func init() { streams["trself"] = runTrSelf }

func trCall(name string, f func(s, t string, n int, b bool) (string, int, bool), s, t string, n int, b bool) (out string) {
	defer func() {
		if r := recover(); r != nil {
			msg := fmt.Sprint(r)
			if re, ok := r.(runtime.Error); ok {
				msg = re.Error()
			}
			switch {
			case strings.Contains(msg, "slice bounds out of range"):
				out = "panic:slice"
			case strings.Contains(msg, "index out of range"):
				out = "panic:index"
			default:
				out = "panic:other:" + msg
			}
		}
	}()
	rs, ri, rb := f(s, t, n, b)
	return fmt.Sprintf("ok %s %d %v", hxs(rs), ri, rb)
}

func runTrSelf(cfg Cfg) {
	s := NewStream(cfg.Out, "trself")
	defer s.Close()
	s.Rule = "every function of the corpus x every pair of strings up to length 2 (quick) / 3 (thorough) over {a,b,/,A,0xE9} x n in -2..5 x {false,true}, plus random strings up to length 12; non-trivial = the Go run panicked or returned a non-zero triple; distinct by (function, answer)"
	names := make([]string, 0, len(trtest.All))
	for k := range trtest.All {
		names = append(names, k)
	}
	sort.Strings(names)
	alpha := []byte{'a', 'b', '/', 'A', 0xE9}
	maxLen := 2
	if cfg.Tier == "thorough" {
		maxLen = 3
	}
	var strs []string
	allStrings(alpha, maxLen, func(b []byte) { strs = append(strs, string(b)) })
	one := func(name, a, b string, n int, fl bool) {
		out := trCall(name, trtest.All[name], a, b, n, fl)
		s.Line(fmt.Sprintf("%s %s %s %d %v", name, hxs(a), hxs(b), n, fl), out)
		s.Evaluations++
		if strings.HasPrefix(out, "panic") {
			s.Count(name + ":panic")
			s.Nontrivial(name + "|" + out)
		} else {
			s.Count(name + ":ok")
			if out != "ok - 0 false" {
				s.Nontrivial(name + "|" + out)
			}
		}
	}
	for _, name := range names {
		for _, a := range strs {
			for _, b := range strs {
				for n := -2; n <= 5; n++ {
					one(name, a, b, n, false)
					one(name, a, b, n, true)
				}
			}
		}
	}
	rng := NewRng(cfg.Seed)
	wide := []byte{'a', 'b', 'c', '/', 'A', 'Z', 'z', '0', '9', ' ', '=', 0, 0x7f, 0x80, 0xE9, 0xff}
	randStr := func() string {
		k := rng.Intn(13)
		b := make([]byte, k)
		for i := range b {
			b[i] = wide[rng.Intn(len(wide))]
		}
		return string(b)
	}
	reps := 400
	if cfg.Tier == "thorough" {
		reps = 4000
	}
	for _, name := range names {
		for i := 0; i < reps; i++ {
			one(name, randStr(), randStr(), rng.Intn(16)-3, rng.Intn(2) == 0)
		}
	}
	s.Exhaustive = true
	s.Sample(map[string]any{"functions": names, "strings": len(strs)})
}
