package main

// Stream `argv` (C10): the REAL config.NewFlagSet(&struct).Parse(argv) against
//   - the Lean model of argParse (driver stream `argv`): error class + offending text, the effective
//     command-line text of every flag (Lookup(name).ArgValue), Args();
//   - the direct oracle: the documented grammar re-implemented independently below (argvSpec) and the
//     documented reading of textual values (configOracleText), evaluated on what Parse really did:
//     error / nil, Args(), ShowUsage(), ArgValue of every flag, the resulting field values, no panic.
//
// Shared with stream `config` (C09, config_prio.go): kinds, configOracleText, configFieldCanon, struct builder.

import (
	"encoding/base64"
	"encoding/hex"
	"fmt"
	"math"
	"os"
	"reflect"
	"strconv"
	"strings"
	"time"

	"github.com/whoisnian/glb/config"
)

func init() { streams["argv"] = argvRun }

// ---- kinds ------------------------------------------------------------------------------------

type configKind int

const (
	ckBool configKind = iota
	ckInt
	ckInt64
	ckUint
	ckUint64
	ckString
	ckFloat64
	ckDuration
	ckBytes
	ckStruct
)

var configKindNames = []string{"bool", "int", "int64", "uint", "uint64", "string", "float64", "duration", "bytes", "struct"}

var configKindTypes = []reflect.Type{
	reflect.TypeOf(false), reflect.TypeOf(int(0)), reflect.TypeOf(int64(0)), reflect.TypeOf(uint(0)),
	reflect.TypeOf(uint64(0)), reflect.TypeOf(""), reflect.TypeOf(float64(0)), reflect.TypeOf(time.Duration(0)),
	reflect.TypeOf([]byte(nil)),
}

func configCanonFloat(f float64) string {
	if math.IsNaN(f) {
		return "nan"
	}
	return fmt.Sprintf("%016x", math.Float64bits(f))
}

// configOracleText is the documented reading of a textual value: the empty text is the type's zero value,
// anything else goes through the standard parser of the type. Result: canonical rendering (the text
// itself for strings, lowercase hex of the content for []byte, decimal nanoseconds for Duration), ok.
func configOracleText(k configKind, s string) (string, bool) {
	switch k {
	case ckBool:
		if s == "" {
			return "false", true
		}
		b, err := strconv.ParseBool(s)
		return strconv.FormatBool(b), err == nil
	case ckInt:
		if s == "" {
			return "0", true
		}
		v, err := strconv.ParseInt(s, 0, strconv.IntSize)
		return strconv.FormatInt(v, 10), err == nil
	case ckInt64:
		if s == "" {
			return "0", true
		}
		v, err := strconv.ParseInt(s, 0, 64)
		return strconv.FormatInt(v, 10), err == nil
	case ckUint:
		if s == "" {
			return "0", true
		}
		v, err := strconv.ParseUint(s, 0, strconv.IntSize)
		return strconv.FormatUint(v, 10), err == nil
	case ckUint64:
		if s == "" {
			return "0", true
		}
		v, err := strconv.ParseUint(s, 0, 64)
		return strconv.FormatUint(v, 10), err == nil
	case ckString:
		return s, true
	case ckFloat64:
		if s == "" {
			return configCanonFloat(0), true
		}
		v, err := strconv.ParseFloat(s, 64)
		return configCanonFloat(v), err == nil
	case ckDuration:
		if s == "" {
			return "0", true
		}
		v, err := time.ParseDuration(s)
		return strconv.FormatInt(int64(v), 10), err == nil
	case ckBytes:
		if s == "" {
			return "", true
		}
		v, err := base64.StdEncoding.DecodeString(s)
		return hex.EncodeToString(v), err == nil
	}
	return "", false
}

// configFieldCanon renders a struct field in the same canonical form as configOracleText.
func configFieldCanon(v reflect.Value, k configKind) string {
	switch k {
	case ckBool:
		return strconv.FormatBool(v.Bool())
	case ckInt, ckInt64, ckDuration:
		return strconv.FormatInt(v.Int(), 10)
	case ckUint, ckUint64:
		return strconv.FormatUint(v.Uint(), 10)
	case ckString:
		return v.String()
	case ckFloat64:
		return configCanonFloat(v.Float())
	case ckBytes:
		return hex.EncodeToString(v.Bytes())
	}
	return "?"
}

// ---- the harness's own description of a flag set --------------------------------------------------

type configFlagInfo struct {
	Name  string
	Kind  configKind
	Def   string // default text of the tag
	Index []int  // reflect field index path; nil for the built-in flags help / config
}

func (fi configFlagInfo) isBool() bool { return fi.Kind == ckBool }

func configBuiltinFlags() []configFlagInfo {
	return []configFlagInfo{{Name: "help", Kind: ckBool}, {Name: "config", Kind: ckString}}
}

func argvTableEnc(fl []configFlagInfo) string {
	if len(fl) == 0 {
		return "-"
	}
	parts := make([]string, len(fl))
	for i, f := range fl {
		k := "v"
		if f.isBool() {
			k = "b"
		}
		parts[i] = hxs(f.Name) + ":" + k
	}
	return strings.Join(parts, ",")
}

// the fixed struct of the exhaustive tier: every kind, both tag syntaxes, nesting, an untagged field
type argvCfg struct {
	Flag    bool          `flag:"b,false,a boolean"`
	Verbose bool          `flag:"verbose,true,a boolean that defaults to true"`
	N       int           `flag:"n,7,an int"`
	I64     int64         `flag:"i64,-5,an int64"`
	U       uint          `flag:"u,3,a uint"`
	U64     uint64        `flag:"|u64|18446744073709551615|a uint64"`
	S       string        `flag:"s,dflt,a string"`
	F       float64       `flag:"f,1.5,a float"`
	D       time.Duration `flag:"d,1s,a duration"`
	Y       []byte        `flag:"y,aGk=,some bytes"`
	X       string        `flag:"x,,another string"`
	Long    string        `flag:"long-name,,a name with a dash inside"`
	Sub     struct {
		NX int  `flag:"|nx|3|a nested int"`
		NB bool `flag:"nb"`
	}
	NoTag int
}

func argvCfgFlags() []configFlagInfo {
	return append(configBuiltinFlags(),
		configFlagInfo{"b", ckBool, "false", []int{0}},
		configFlagInfo{"verbose", ckBool, "true", []int{1}},
		configFlagInfo{"n", ckInt, "7", []int{2}},
		configFlagInfo{"i64", ckInt64, "-5", []int{3}},
		configFlagInfo{"u", ckUint, "3", []int{4}},
		configFlagInfo{"u64", ckUint64, "18446744073709551615", []int{5}},
		configFlagInfo{"s", ckString, "dflt", []int{6}},
		configFlagInfo{"f", ckFloat64, "1.5", []int{7}},
		configFlagInfo{"d", ckDuration, "1s", []int{8}},
		configFlagInfo{"y", ckBytes, "aGk=", []int{9}},
		configFlagInfo{"x", ckString, "", []int{10}},
		configFlagInfo{"long-name", ckString, "", []int{11}},
		configFlagInfo{"nx", ckInt, "3", []int{12, 0}},
		configFlagInfo{"nb", ckBool, "", []int{12, 1}},
		configFlagInfo{"notag", ckInt, "", []int{13}},
	)
}

// ---- direct oracle: the documented grammar, written independently of argParse ------------------------

type argvSpecRes struct {
	Assigns [][2]string
	Rest    []string
	Class   string // "" | badSyntax | undefined | needsArg
	Arg     string // offending token / name
}

func argvSpec(isBool map[string]bool, argv []string) argvSpecRes {
	var res argvSpecRes
	i := 0
	for i < len(argv) {
		tok := argv[i]
		if len(tok) < 2 || !strings.HasPrefix(tok, "-") { // first non-flag: kept
			break
		}
		if tok == "--" { // terminator: consumed
			i++
			break
		}
		body := strings.TrimPrefix(strings.TrimPrefix(tok, "-"), "-") // one or two dashes
		if body == "" || body[0] == '-' || body[0] == '=' {
			return argvSpecRes{Class: "badSyntax", Arg: tok}
		}
		name, val, has := body, "", false
		if k := strings.IndexByte(body[1:], '='); k >= 0 { // first '=' after the first byte of the name
			name, val, has = body[:k+1], body[k+2:], true
		}
		b, defined := isBool[name]
		if !defined {
			return argvSpecRes{Class: "undefined", Arg: name}
		}
		i++
		if !has {
			switch {
			case b:
				val = "true"
			case i < len(argv):
				val = argv[i]
				i++
			default:
				return argvSpecRes{Class: "needsArg", Arg: name}
			}
		}
		res.Assigns = append(res.Assigns, [2]string{name, val})
	}
	res.Rest = argv[i:]
	return res
}

func argvLastAssign(as [][2]string, name string) (string, bool) {
	for i := len(as) - 1; i >= 0; i-- {
		if as[i][0] == name {
			return as[i][1], true
		}
	}
	return "", false
}

var argvErrPrefixes = [][2]string{
	{"config: bad flag syntax: ", "badSyntax"},
	{"config: flag provided but not defined: ", "undefined"},
	{"config: flag needs an argument: ", "needsArg"},
}

// configClassifyParseErr maps the error of Parse to the enum of the model (+ the text after the prefix).
func configClassifyParseErr(err error) (class, arg string) {
	if err == nil {
		return "", ""
	}
	msg := err.Error()
	for _, p := range argvErrPrefixes {
		if strings.HasPrefix(msg, p[0]) {
			return p[1], msg[len(p[0]):]
		}
	}
	return "other", msg
}

// ---- one case ---------------------------------------------------------------------------------------

type argvObs struct {
	Line     string // canonical line in the driver's format
	Panic    string
	ErrClass string
	ErrArg   string
	Err      error
	Args     []string
	Usage    bool
	ArgVals  []*string
	Fields   []string // canonical field values (struct flags only, "" for built-ins)
}

// argvRunParse drives the real code on a fresh struct of the given type.
func argvRunParse(structType reflect.Type, flags []configFlagInfo, argv []string) (obs argvObs, newErr error) {
	ptr := reflect.New(structType)
	fs, err := config.NewFlagSet(ptr.Interface())
	if err != nil {
		return obs, err
	}
	func() {
		defer func() {
			if p := recover(); p != nil {
				obs.Panic = fmt.Sprint(p)
			}
		}()
		obs.Err = fs.Parse(append([]string(nil), argv...))
	}()
	if obs.Panic != "" {
		obs.Line = "panic:" + obs.Panic
		return obs, nil
	}
	obs.ErrClass, obs.ErrArg = configClassifyParseErr(obs.Err)
	obs.Args = fs.Args()
	obs.Usage = fs.ShowUsage()
	var set []string
	for _, fi := range flags {
		var av *string
		if flg := fs.Lookup(fi.Name); flg != nil {
			av = flg.ArgValue
		}
		obs.ArgVals = append(obs.ArgVals, av)
		if av != nil {
			set = append(set, hxs(fi.Name)+"="+hxs(*av))
		}
		if fi.Index != nil {
			obs.Fields = append(obs.Fields, configFieldCanon(ptr.Elem().FieldByIndex(fi.Index), fi.Kind))
		} else {
			obs.Fields = append(obs.Fields, "")
		}
	}
	rest := make([]string, len(obs.Args))
	for i, a := range obs.Args {
		rest[i] = hxs(a)
	}
	class := "ok" // errors after the argParse phase are not the model's business (typed values: oracle)
	switch obs.ErrClass {
	case "badSyntax", "undefined", "needsArg":
		class = "err:" + obs.ErrClass + ":" + hxs(obs.ErrArg)
	}
	obs.Line = class + " set=[" + strings.Join(set, ",") + "] rest=[" + strings.Join(rest, ",") + "]"
	return obs, nil
}

// argvOracle evaluates the property statement on what the real Parse did. "" = holds.
func argvOracle(flags []configFlagInfo, argv []string, obs argvObs) (kind, detail string) {
	if obs.Panic != "" {
		return "panic", "Parse panicked: " + obs.Panic
	}
	isBool := map[string]bool{}
	for _, fi := range flags {
		isBool[fi.Name] = fi.isBool()
	}
	want := argvSpec(isBool, argv)
	if want.Class != "" {
		// the vector violates the grammar: "yields an error". The property fixes neither the wording nor
		// which violation is named, so the direct oracle asks for an error and nothing more; class and
		// culprit as the code reports them today are compared by the model stream (tie) only.
		if obs.Err == nil {
			return "grammar-error", fmt.Sprintf("grammar says %s(%q), Parse returned nil", want.Class, want.Arg)
		}
		return "", ""
	}
	switch obs.ErrClass {
	case "badSyntax", "undefined", "needsArg":
		return "spurious-error", fmt.Sprintf("grammatical vector rejected: %v", obs.Err)
	}
	if len(obs.Args) != len(want.Rest) {
		return "args", fmt.Sprintf("Args() = %q, grammar says %q", obs.Args, want.Rest)
	}
	for i := range want.Rest {
		if obs.Args[i] != want.Rest[i] {
			return "args", fmt.Sprintf("Args() = %q, grammar says %q", obs.Args, want.Rest)
		}
	}
	for i, fi := range flags {
		v, ok := argvLastAssign(want.Assigns, fi.Name)
		got := obs.ArgVals[i]
		if ok != (got != nil) || (ok && *got != v) {
			g := "nil"
			if got != nil {
				g = strconv.Quote(*got)
			}
			return "assignment", fmt.Sprintf("flag %q: command-line text %s, grammar says (%q, present=%v)", fi.Name, g, v, ok)
		}
	}
	// typed half: the effective text must be readable, else an error; on success the fields hold it
	if cp, ok := argvLastAssign(want.Assigns, "config"); ok && cp != "" {
		if obs.Err == nil {
			return "config-path", fmt.Sprintf("-config %q names no readable file but Parse returned nil", cp)
		}
		return "", ""
	}
	for _, fi := range flags {
		if v, ok := argvLastAssign(want.Assigns, fi.Name); ok {
			if _, good := configOracleText(fi.Kind, v); !good {
				if obs.Err == nil {
					return "unparsable-accepted", fmt.Sprintf("flag %q: effective text %q is not a %s but Parse returned nil", fi.Name, v, configKindNames[fi.Kind])
				}
				return "", ""
			}
		}
	}
	if obs.Err != nil {
		return "spurious-error", fmt.Sprintf("every effective value is readable but Parse returned %v", obs.Err)
	}
	for i, fi := range flags {
		text, assigned := argvLastAssign(want.Assigns, fi.Name)
		if fi.Index == nil {
			if fi.Name == "help" {
				w, _ := configOracleText(ckBool, text)
				if strconv.FormatBool(obs.Usage) != w {
					return "show-usage", fmt.Sprintf("ShowUsage() = %v, effective text %q (present=%v)", obs.Usage, text, assigned)
				}
			}
			continue
		}
		if !assigned {
			text = fi.Def
		}
		w, _ := configOracleText(fi.Kind, text)
		if obs.Fields[i] != w {
			return "field-value", fmt.Sprintf("field of flag %q = %s, want %s (text %q, from command line=%v)", fi.Name, obs.Fields[i], w, text, assigned)
		}
	}
	return "", ""
}

type argvReplay struct {
	Table string   `json:"table"`
	Argv  []string `json:"argv_hex"`
	Text  []string `json:"argv_quoted"`
}

func argvMkReplay(flags []configFlagInfo, argv []string) argvReplay {
	r := argvReplay{Table: argvTableEnc(flags)}
	for _, a := range argv {
		r.Argv = append(r.Argv, hxs(a))
		r.Text = append(r.Text, strconv.Quote(a))
	}
	return r
}

// ---- generators ---------------------------------------------------------------------------------------

// the alphabet of the exhaustive tier (35 tokens)
var argvAlphabet = []string{
	"", "-", "--", "---x", "-=", "-x=", "--=v", "=",
	"-b", "--b", "-b=false", "-b=maybe",
	"-n", "-n=5", "--n=x",
	"-s", "--s=a=b", "-s=-b",
	"-x", "-d", "1s",
	"-help", "--help=0", "-config", "-config=",
	"-nb", "--long-name", "-zz", "-zz=1",
	"5", "v", "true", "-5", "a=b",
	"-B", // an undefined name that differs from a defined one by case only
}

var argvNearMisses = []string{"-helpme", "--helpx=1", "-nn", "-bb=1", "-ss", "-config2", "-", "--", "---x", "-=", "-x=", "--=v", "---", "----", "-=x", "--=", "--==", "-x==", "- ", "-\x00", "--\xff", "-\xc3", "--x=", "=x", "-x-", "--x-=-"}

func configValidText(r *Rng, k configKind) string {
	switch k {
	case ckBool:
		return Pick(r, []string{"true", "false", "1", "0", "T", "F", "TRUE", "False", ""})
	case ckInt, ckInt64:
		return Pick(r, []string{"0", "5", "-5", "+7", "0x10", "0b11", "0o17", "1_000", "9223372036854775807", "-9223372036854775808", "",
			"0755", "022", "-010", "+017", "00", "0_7", "0X1f", "-0x8000000000000000", "123456789", "1234567890"}) // base 0: a leading zero means octal
	case ckUint, ckUint64:
		return Pick(r, []string{"0", "5", "0x10", "18446744073709551615", "017", "", "0644", "0b1", "1_0"})
	case ckString:
		return Pick(r, []string{"", "a", "a=b", "-b", "--", "-", "=", "x y", "\x00", "\xff\xfe", "-n=3", "true",
			"welcome\n", "\r\n", " lead", "trail ", "$HOME", "${x}", "%s", "tab\t", "a=b=c", "==", "QQ==", "\"q\"", "'q'", "~", "/etc/hostname", "C:\\dir\\", "/*x*/"})
	case ckFloat64:
		return Pick(r, []string{"0", "1.5", "-2e10", "inf", "-Inf", "nan", "0x1p-2", "1e308", "4.9e-324", ""})
	case ckDuration:
		return Pick(r, []string{"0", "1s", "-1.5h", "2h45m", "1ns", "2562047h47m16.854775807s", "1us", ""})
	case ckBytes:
		return Pick(r, []string{"", "aGk=", "AA==", "d2hvaXNuaWFu", "/+8="})
	}
	return ""
}

func configInvalidText(r *Rng, k configKind) string {
	switch k {
	case ckBool:
		return Pick(r, []string{"maybe", "yes", "2", "-b", " true", "tru"})
	case ckInt, ckInt64:
		return Pick(r, []string{"x", "1.5", "9223372036854775808", "--", "0x", "1e3", " 1", "-", "08", "-09", "0128", "1__0", "_1", "0b2", "7\r"})
	case ckUint, ckUint64:
		return Pick(r, []string{"-1", "x", "18446744073709551616", "1.0", "-", "09", "+1"})
	case ckFloat64:
		return Pick(r, []string{"x", "1e", "--", "1e400", "0x1", "1,5"})
	case ckDuration:
		return Pick(r, []string{"1", "s", "1x", "-", "1h1", "9999999h"})
	case ckBytes:
		return Pick(r, []string{"a", "aGk", "!!!!", "aGk=\n=", "-b", "QQ=", "QQ", "=", "QUI===", "QUJD=", "aGk=="})
	}
	return "\xff" // strings accept everything
}

func argvGenValue(r *Rng, k configKind) string {
	c := r.Intn(100)
	switch {
	case c < 55:
		return configValidText(r, k)
	case c < 70:
		return configInvalidText(r, k)
	case c < 80:
		return Pick(r, []string{"-b", "--", "-", "-n=3", "--x", "-zz", "---", "-="}) // looks like a flag
	case c < 88:
		return Pick(r, []string{"a=b", "=", "==", "=a", "a=", "a=b=c"})
	case c < 94:
		return ""
	default:
		return string(r.Bytes(r.Intn(5)))
	}
}

func argvGen(r *Rng, flags []configFlagInfo, s *Stream) []string {
	var argv []string
	n := r.Intn(9)
	if r.Chance(10) {
		n = r.Intn(3)
	}
	dashes := func() string {
		if r.Bool() {
			return "-"
		}
		return "--"
	}
	for len(argv) < n {
		c := r.Intn(100)
		switch {
		case c < 52: // a well-formed group of a defined flag
			fi := Pick(r, flags)
			if r.Chance(70) && len(flags) > 4 {
				fi = flags[r.Intn(4)+r.Intn(len(flags)-3)] // favour repeats of few flags
			}
			v := argvGenValue(r, fi.Kind)
			if fi.Name == "config" && !r.Chance(15) {
				v = "" // mostly keep the configuration file out of the way
			}
			switch {
			case r.Chance(50):
				argv = append(argv, dashes()+fi.Name+"="+v)
				s.Count("gen.name=value")
			case fi.isBool():
				argv = append(argv, dashes()+fi.Name)
				s.Count("gen.bool")
				if r.Chance(35) { // stray value after a boolean flag
					argv = append(argv, Pick(r, []string{"true", "false", "0", "x", ""}))
					s.Count("gen.bool+stray")
				}
			default:
				argv = append(argv, dashes()+fi.Name, v)
				s.Count("gen.name value")
			}
		case c < 62:
			argv = append(argv, Pick(r, argvNearMisses))
			s.Count("gen.near-miss")
		case c < 70: // unknown names, incl. prefixes / case variants of defined ones
			fi := Pick(r, flags)
			nm := Pick(r, []string{"zz", "B", "unknown", fi.Name + "2", strings.ToUpper(fi.Name), fi.Name[:len(fi.Name)-1] + "_", "é"})
			if r.Bool() {
				nm += "=" + argvGenValue(r, ckString)
			}
			argv = append(argv, dashes()+nm)
			s.Count("gen.unknown")
		case c < 76:
			argv = append(argv, "--")
			s.Count("gen.terminator")
		case c < 86:
			argv = append(argv, Pick(r, []string{"x", "", "5", "a=b", "file.txt", "=", "true", "\xff"}))
			s.Count("gen.non-flag")
		default: // random bytes, often behind dashes
			t := string(r.Bytes(r.Intn(6)))
			if r.Chance(60) {
				t = dashes() + t
			}
			argv = append(argv, t)
			s.Count("gen.random-bytes")
		}
	}
	return argv
}

// random flag tables built with reflect.StructOf (names the guard accepts and names it rejects)
var argvDynNames = []string{"a", "b", "x", "n", "s", "ab", "a-b", "a.b", "1", "x1", "é", "A", "help2", "conf", "a b", "a_b", "x-", "ÿ", "B", "t", "u", "v", "w", "y", "z", "x2", "nn", "+", "0x"}
var argvDynBadNames = []string{"-a", "a=b", "=", "--", "help", "config", "-", "x="}

func argvGenDynTable(r *Rng) (reflect.Type, []configFlagInfo, bool) {
	n := 1 + r.Intn(6)
	flags := configBuiltinFlags()
	var fields []reflect.StructField
	seen := map[string]bool{"help": true, "config": true}
	valid := true
	for i := 0; i < n; i++ {
		name := Pick(r, argvDynNames)
		if r.Chance(4) {
			name = Pick(r, argvDynBadNames)
		}
		k := configKind(r.Intn(9))
		def := ""
		if r.Chance(50) {
			def = configValidText(r, k)
		}
		if strings.ContainsAny(def, ",|") || strings.ContainsAny(name, ",|") {
			def = ""
		}
		tag := name + "," + def + ",usage " + strconv.Itoa(i)
		if r.Bool() {
			tag = "|" + name + "|" + def + "|usage"
		}
		fields = append(fields, reflect.StructField{
			Name: "F" + strconv.Itoa(i), Type: configKindTypes[k],
			Tag: reflect.StructTag(`flag:` + strconv.Quote(tag)),
		})
		// the guard of NewFlagSet, as documented
		if strings.HasPrefix(name, "-") || strings.Contains(name, "=") || seen[name] {
			valid = false
		}
		seen[name] = true
		flags = append(flags, configFlagInfo{name, k, def, []int{i}})
	}
	return reflect.StructOf(fields), flags, valid
}

// ---- the stream ---------------------------------------------------------------------------------------

// configCleanEnv removes every CFG_* variable for the duration of the stream; returns the restorer.
func configCleanEnv() func() {
	var saved [][2]string
	for _, kv := range os.Environ() {
		if strings.HasPrefix(kv, "CFG_") {
			k, v, _ := strings.Cut(kv, "=")
			saved = append(saved, [2]string{k, v})
			os.Unsetenv(k)
		}
	}
	return func() {
		for _, kv := range saved {
			os.Setenv(kv[0], kv[1])
		}
	}
}

func argvRun(cfg Cfg) {
	s := NewStream(cfg.Out, "argv")
	defer s.Close()
	s.Rule = "argument vectors for the real NewFlagSet(&struct).Parse: exhaustive over a 35-token alphabet (quick: <=3 tokens, thorough: <=4) on a fixed struct with every flag kind, plus random vectors (well-formed groups, near-misses, values that look like flags, bool+stray value, repeats, unknown names, '=' in values, random bytes) on the fixed struct and on random reflect.StructOf flag tables; non-trivial = at least one flag group consumed or a grammar error raised (distinct by canonical outcome line)"
	restore := configCleanEnv()
	defer restore()
	// relative -config values must not hit files of the work directory: run in an empty directory
	if wd, err := os.Getwd(); err == nil {
		if tmp, err := os.MkdirTemp("", "verif-argv-"); err == nil {
			if os.Chdir(tmp) == nil {
				defer func() { os.Chdir(wd); os.RemoveAll(tmp) }()
			}
		}
	}
	rng := NewRng(cfg.Seed)

	fixedType := reflect.TypeOf(argvCfg{})
	fixedFlags := argvCfgFlags()

	// the harness's flag description must be the real flag set (names, bool-ness, count)
	{
		var c argvCfg
		fs, err := config.NewFlagSet(&c)
		if err != nil {
			s.Violate("newflagset", "NewFlagSet rejected the fixed struct: "+err.Error(), nil)
			return
		}
		for _, fi := range fixedFlags {
			flg := fs.Lookup(fi.Name)
			if flg == nil || (flg.Value.Type() == "bool") != fi.isBool() {
				s.Violate("flag-table", fmt.Sprintf("flag %q missing or of unexpected kind", fi.Name), nil)
				return
			}
		}
		var sb strings.Builder
		fs.PrintUsage(&sb, false)
		if n := strings.Count(sb.String(), "\n"); n != len(fixedFlags) {
			s.Violate("flag-table", fmt.Sprintf("PrintUsage lists %d flags, the harness knows %d", n, len(fixedFlags)), nil)
			return
		}
	}

	one := func(structType reflect.Type, flags []configFlagInfo, argv []string, tableRef string) {
		obs, newErr := argvRunParse(structType, flags, argv)
		if newErr != nil {
			s.Violate("newflagset", "NewFlagSet failed on a valid table: "+newErr.Error(), argvMkReplay(flags, argv))
			return
		}
		toks := make([]string, len(argv))
		for i, a := range argv {
			toks[i] = hxs(a)
		}
		op := "parse " + tableRef
		if len(toks) > 0 {
			op += " " + strings.Join(toks, " ")
		}
		s.Line(op, obs.Line)
		s.Evaluations++
		if kind, detail := argvOracle(flags, argv, obs); kind != "" {
			min := argv
			if len(s.Violations) < 3 {
				min = ddmin(argv, func(a []string) bool {
					o, e := argvRunParse(structType, flags, a)
					if e != nil {
						return false
					}
					k, _ := argvOracle(flags, a, o)
					return k != ""
				})
				o, _ := argvRunParse(structType, flags, min)
				if k2, d2 := argvOracle(flags, min, o); k2 != "" {
					kind, detail = k2, d2
				}
			}
			s.Violate(kind, detail, argvMkReplay(flags, min))
		}
		// statistics
		cls := obs.ErrClass
		if cls == "" {
			cls = "nil"
		}
		s.Count("result." + cls)
		if len(argv) <= 8 {
			s.Count("len." + strconv.Itoa(len(argv)))
		}
		if strings.Contains(obs.Line, "set=[]") && obs.ErrClass == "" {
			// stopped at the first token without consuming a flag: trivial
		} else {
			s.Nontrivial(obs.Line)
		}
	}

	// 1. exhaustive small domain on the fixed struct
	s.Line("table "+argvTableEnc(fixedFlags), "ok")
	maxLen := cfg.N(3, 4)
	vec := make([]string, 0, maxLen)
	var rec func(depth int)
	rec = func(depth int) {
		one(fixedType, fixedFlags, vec, "@")
		if depth == maxLen {
			return
		}
		for _, t := range argvAlphabet {
			vec = append(vec, t)
			rec(depth + 1)
			vec = vec[:len(vec)-1]
		}
	}
	rec(0)
	s.Exhaustive = true
	s.Notes = append(s.Notes, fmt.Sprintf("exhaustive: all vectors of <= %d tokens over %d tokens", maxLen, len(argvAlphabet)))

	// 2. random vectors on the fixed struct
	nRand := cfg.N(30000, 300000)
	for i := 0; i < nRand; i++ {
		r := rng.Fork()
		argv := argvGen(r, fixedFlags, s)
		one(fixedType, fixedFlags, argv, "@")
		if i < 3 {
			s.Sample(argvMkReplay(nil, argv).Text)
		}
	}

	// 3. random flag tables
	nTables := cfg.N(150, 1500)
	for t := 0; t < nTables; t++ {
		r := rng.Fork()
		typ, flags, valid := argvGenDynTable(r)
		_, err := config.NewFlagSet(reflect.New(typ).Interface())
		if valid != (err == nil) {
			s.Violate("name-guard", fmt.Sprintf("NewFlagSet error = %v, but the names are valid = %v", err, valid), argvMkReplay(flags, nil))
			continue
		}
		if !valid {
			s.Count("table.rejected")
			continue
		}
		s.Count("table.accepted")
		enc := argvTableEnc(flags)
		s.Line("table "+enc, "ok")
		for i := 0; i < 60; i++ {
			argv := argvGen(r, flags, s)
			ref := "@"
			if i == 0 {
				ref = enc // exercise the inline form of the op as well
			}
			one(typ, flags, argv, ref)
		}
	}
	s.Traces = s.Evaluations
}
