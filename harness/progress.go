package main

// Stream `progress` (C19): the real ioutil.ProgressWriter over scripted wrapped writers, with
// consumers of every kind the property quantifies over, traced and judged
//
//   - by the Lean model (`accept <prog> <trace>`: is the observed trace a trace of the
//     transition system of Glb/Model/Progress.lean?) and
//   - by the direct oracle below, which restates the property on the real objects without the
//     model: Size() == sum of the reported n after every call; a Write never blocks; received
//     values non-decreasing, each a prefix sum (in order, and never ahead of the calls made so
//     far); after Close the last received value is the total and the channel is closed.
//
// Trace discipline. One mutex-protected event list. The producer appends `w<n>` after
// Write/WriteString has returned (and before it starts the next call); the consumer appends
// `r<v>` after its receive has returned (and before it starts the next receive), `x` after a
// receive reported the channel closed; `c` is appended after Close has returned. The order of
// the list is therefore consistent with real time, but a `w`/`c` and an `r`/`x` whose
// underlying actions (the rendezvous, close()) happened in one order may be *logged* in the
// other: "Write returned" races with "receive returned". The model is tolerant exactly as far
// as that race requires, not further: its consumer keeps a received value in a `got v` state
// until it logs it (`Label.robs`), during which the producer runs on; each thread's own events
// keep their order, and a value can never be logged before the rendezvous that produced it.
import (
	"bytes"
	"errors"
	"fmt"
	"io"
	"os"
	"runtime"
	"strconv"
	"strings"
	"sync"
	"sync/atomic"
	"time"

	"github.com/whoisnian/glb/util/ioutil"
)

func init() { streams["progress"] = runProgress }

const pwWriteWatchdog = 2 * time.Second

type pwCall struct {
	Str bool `json:"writeString"`
	Len int  `json:"len"`
	N   int  `json:"n"`   // what the wrapped writer reports
	Err bool `json:"err"` // … together with an error
}

type pwScenario struct {
	SW       bool     `json:"wrappedIsStringWriter"`
	Calls    []pwCall `json:"calls"`
	Close    bool     `json:"close"`
	Consumer string   `json:"consumer"` // none | atclose | fast | yield | slow | late
	LateK    int      `json:"lateAfter,omitempty"`
	Pace     string   `json:"producerPace"` // none | yield | sleep
	Seed     uint64   `json:"seed"`
}

func (sc pwScenario) prog() string {
	var parts []string
	for _, c := range sc.Calls {
		t := "W"
		if c.Str {
			t = "S"
		}
		t += strconv.Itoa(c.N)
		if c.Err {
			t += "e"
		}
		parts = append(parts, t)
	}
	if sc.Close {
		parts = append(parts, "C")
	}
	if len(parts) == 0 {
		return "-"
	}
	return strings.Join(parts, ",")
}

// ---- scripted wrapped writers ------------------------------------------------------------------

var pwErrScripted = errors.New("scripted failure")

type pwLog struct {
	mu          sync.Mutex
	ev          []string
	wrappedSums []int // prefix sums of the n reported by the wrapped writer so far
	recv        []int
	recvCalls   []int // number of wrapped calls made when each value was logged
	sawClosed   bool
	viol        [][2]string
	deviations  int // wrapped-writer calls that did not follow the script (other portions than the caller's)
}

func (l *pwLog) violate(kind, detail string) {
	l.viol = append(l.viol, [2]string{kind, detail})
}

type pwScriptW struct {
	log    *pwLog
	calls  []pwCall
	i      int
	method []string
}

func (w *pwScriptW) answer(method string, length int) (int, error) {
	w.log.mu.Lock()
	defer w.log.mu.Unlock()
	// The script answers call i with (N, Err).  An implementation may legitimately hand the data over in
	// other portions than the caller's (chunking): that is no violation of the property, so the script
	// adapts (never reports more than it was given; calls beyond the script succeed completely) and only
	// notes the deviation - the sums the wrapped writer REPORTED stay the reference for Size().
	if w.i >= len(w.calls) {
		w.log.deviations++
		w.method = append(w.method, method)
		prev := 0
		if k := len(w.log.wrappedSums); k > 0 {
			prev = w.log.wrappedSums[k-1]
		}
		w.log.wrappedSums = append(w.log.wrappedSums, prev+length)
		return length, nil
	}
	c := w.calls[w.i]
	w.i++
	w.method = append(w.method, method)
	if length != c.Len {
		w.log.deviations++
		if c.N > length {
			c.N = length
		}
	}
	prev := 0
	if k := len(w.log.wrappedSums); k > 0 {
		prev = w.log.wrappedSums[k-1]
	}
	w.log.wrappedSums = append(w.log.wrappedSums, prev+c.N)
	if c.Err {
		return c.N, pwErrScripted
	}
	return c.N, nil
}

func (w *pwScriptW) Write(p []byte) (int, error) { return w.answer("Write", len(p)) }

type pwScriptSW struct{ pwScriptW }

func (w *pwScriptSW) WriteString(s string) (int, error) { return w.answer("WriteString", len(s)) }

var (
	_ io.Writer       = (*pwScriptW)(nil)
	_ io.StringWriter = (*pwScriptSW)(nil)
)

var pwBig []byte

func pwBigBuf(n int) []byte {
	if len(pwBig) < n {
		pwBig = make([]byte, n)
	}
	return pwBig[:n]
}

// ---- one run -----------------------------------------------------------------------------------

type pwResult struct {
	Trace     []string
	Sizes     []int
	Viol      [][2]string
	Complete  bool
	Recv      []int
	SawClosed bool
	Deviated  int
}

func runPwScenario(sc pwScenario) pwResult {
	r := NewRng(sc.Seed)
	log := &pwLog{}
	var wrapped io.Writer
	base := pwScriptW{log: log, calls: sc.Calls}
	if sc.SW {
		wrapped = &pwScriptSW{base}
	} else {
		wrapped = &base
	}
	pw := ioutil.NewProgressWriter(wrapped)
	// Status() is called when the consumer actually starts: for the "late" and "atclose" consumers
	// that may be after many writes or around Close() - the channel must be the same one whenever
	// and however often it is asked for
	getCh := sync.OnceValue(func() chan int { return pw.Status() })

	// pre-drawn pauses: the one PRNG decides, the goroutines only consume
	pauses := make([]time.Duration, 64)
	for i := range pauses {
		pauses[i] = time.Duration(r.Intn(300)) * time.Microsecond
	}
	consPause := func(i int) {
		switch sc.Consumer {
		case "yield":
			runtime.Gosched()
		case "slow":
			time.Sleep(pauses[i%len(pauses)])
		}
	}
	prodPause := func(i int) {
		switch sc.Pace {
		case "yield":
			runtime.Gosched()
		case "sleep":
			time.Sleep(pauses[(i*7+3)%len(pauses)] / 3)
		}
	}

	gate := make(chan struct{}) // opened when the consumer may start
	stop := make(chan struct{}) // closed when the consumer must give up (no Close in the program)
	consDone := make(chan struct{})
	if sc.Consumer == "fast" || sc.Consumer == "yield" || sc.Consumer == "slow" {
		close(gate)
	}
	if sc.Consumer != "none" {
		go func() {
			defer close(consDone)
			select {
			case <-gate:
			case <-stop:
				return
			}
			if sc.Consumer == "atclose" || sc.Consumer == "longafterclose" {
				_ = pw.Size() // a consumer may look at the total before it starts receiving (the writer has finished writing)
			}
			ch := getCh()
			for i := 0; ; i++ {
				select {
				case v, ok := <-ch:
					log.mu.Lock()
					if !ok {
						log.ev = append(log.ev, "x")
						log.sawClosed = true
						log.mu.Unlock()
						return
					}
					log.ev = append(log.ev, "r"+strconv.Itoa(v))
					log.recv = append(log.recv, v)
					log.recvCalls = append(log.recvCalls, len(log.wrappedSums))
					log.mu.Unlock()
				case <-stop:
					return
				}
				consPause(i)
			}
		}()
	} else {
		close(consDone)
	}

	var inWriteSince atomic.Int64 // unix nanos of the start of the current Write, 0 outside
	var sizes []int
	prodDone := make(chan struct{})
	go func() {
		defer close(prodDone)
		sum := 0
		for i, c := range sc.Calls {
			if sc.Consumer == "late" && i == sc.LateK {
				close(gate)
			}
			prodPause(i)
			var n int
			inWriteSince.Store(time.Now().UnixNano())
			switch {
			case c.Len > 1<<20 && !c.Str:
				n, _ = pw.Write(pwBigBuf(c.Len)) // shared zero buffer: totals beyond 2 GiB without allocating them
			case c.Str:
				n, _ = pw.WriteString(string(make([]byte, c.Len)))
			default:
				n, _ = pw.Write(make([]byte, c.Len))
			}
			inWriteSince.Store(0)
			size := pw.Size()
			log.mu.Lock()
			sum = 0
			if k := len(log.wrappedSums); k > 0 {
				sum = log.wrappedSums[k-1] // what the wrapped writer actually reported so far
			}
			log.ev = append(log.ev, "w"+strconv.Itoa(n))
			sizes = append(sizes, size)
			if size != sum {
				log.violate("size-not-sum", fmt.Sprintf("after call %d Size() = %d, wrapped writer reported %d in total", i, size, sum))
			}
			log.mu.Unlock()
		}
		if sc.Consumer == "late" && sc.LateK >= len(sc.Calls) {
			close(gate)
		}
		if sc.Consumer == "atclose" {
			close(gate)
		}
		if sc.Consumer == "longafterclose" {
			go func() { time.Sleep(1300 * time.Millisecond); close(gate) }() // the consumer turns up long after Close began
		}
		if sc.Close {
			pw.Close()
			log.mu.Lock()
			log.ev = append(log.ev, "c")
			log.mu.Unlock()
		}
	}()

	// watchdog: a Write that does not return within 2 s is "blocked"
	complete := true
	deadline := time.After(20 * time.Second)
	tick := time.NewTicker(10 * time.Millisecond)
	defer tick.Stop()
	rescued := false
wait:
	for {
		select {
		case <-prodDone:
			break wait
		case <-tick.C:
			if t := inWriteSince.Load(); t != 0 && !rescued && time.Since(time.Unix(0, t)) > pwWriteWatchdog {
				log.mu.Lock()
				log.violate("write-blocked", fmt.Sprintf("a Write/WriteString has not returned after %v (consumer %q)", pwWriteWatchdog, sc.Consumer))
				log.mu.Unlock()
				complete = false
				rescued = true
				go func() { // let the stuck goroutine go: drain the channel
					ch := getCh()
					for {
						select {
						case _, ok := <-ch:
							if !ok {
								return
							}
						case <-stop:
							return
						}
					}
				}()
			}
		case <-deadline:
			log.mu.Lock()
			log.violate("producer-stuck", "producer did not finish within 20 s (Close never returned although a consumer is receiving?)")
			log.mu.Unlock()
			complete = false
			break wait
		}
	}
	if sc.Close && complete {
		// channel must be closed now: a receive must not block and must report !ok
		select {
		case <-consDone:
		case <-time.After(5 * time.Second):
			log.mu.Lock()
			log.violate("not-closed", "consumer still blocked in receive 5 s after Close returned")
			log.mu.Unlock()
			complete = false
		}
		select {
		case _, ok := <-pw.Status():
			if ok {
				log.mu.Lock()
				log.violate("not-closed", "receive after Close returned a value")
				log.mu.Unlock()
			}
		default:
			log.mu.Lock()
			log.violate("not-closed", "receive after Close would block: channel not closed")
			log.mu.Unlock()
		}
	}
	close(stop)
	select {
	case <-consDone:
	case <-time.After(5 * time.Second):
		complete = false
	}

	log.mu.Lock()
	defer log.mu.Unlock()
	// which method of the wrapped writer was reached (checked for the harness's own sanity: the
	// model's `callWr` abstracts from it, the property does not mention it)
	res := pwResult{Trace: append([]string{}, log.ev...), Sizes: sizes, Complete: complete,
		Recv: append([]int{}, log.recv...), SawClosed: log.sawClosed, Deviated: log.deviations}

	// ---- direct oracle on the received values -------------------------------------------------
	sums := log.wrappedSums
	total := 0
	if len(sums) > 0 {
		total = sums[len(sums)-1]
	}
	// allowed sequence: a subsequence of the prefix sums, then (if Close ran) the total once more
	allowed := append([]int{}, sums...)
	if sc.Close {
		allowed = append(allowed, total)
	}
	j := 0
	for i, v := range log.recv {
		if i > 0 && v < log.recv[i-1] {
			log.violate("received-decreasing", fmt.Sprintf("received %v", log.recv))
			break
		}
		for j < len(allowed) && allowed[j] != v {
			j++
		}
		if j == len(allowed) {
			log.violate("received-not-prefix-sum", fmt.Sprintf("received %v, prefix sums %v (+total after Close)", log.recv, sums))
			break
		}
		j++
		// never ahead of the wrapped writer: v must be a prefix sum of the calls made when it was logged
		ok := false
		for k := 0; k < log.recvCalls[i] && k < len(sums); k++ {
			if sums[k] == v {
				ok = true
			}
		}
		if log.recvCalls[i] == 0 && v == 0 && sc.Close && len(sc.Calls) == 0 {
			ok = true // Close of an unused writer delivers 0
		}
		if !ok {
			log.violate("received-ahead", fmt.Sprintf("value %d logged when the wrapped writer had reported only %v", v, sums[:log.recvCalls[i]]))
			break
		}
	}
	if sc.Close && complete {
		if len(log.recv) == 0 || log.recv[len(log.recv)-1] != total {
			log.violate("close-total", fmt.Sprintf("after Close the last received value is %v, total is %d", log.recv, total))
		}
		if !log.sawClosed {
			log.violate("not-closed", "consumer never observed the closed channel")
		}
	}
	if !sc.Close && log.sawClosed {
		log.violate("closed-without-close", "channel observed closed although Close was never called")
	}
	res.Viol = append([][2]string{}, log.viol...)
	return res
}

// ---- controls: traces that are certainly NOT traces of a correct ProgressWriter ----------------

func pwControls(sc pwScenario, tr []string, r *Rng) [][]string {
	var out [][]string
	total := 0
	for _, c := range sc.Calls {
		total += c.N
	}
	cp := func() []string { return append([]string{}, tr...) }
	// a value above the total is never received
	out = append(out, append(cp(), "r"+strconv.Itoa(total+1)))
	// a wrong return value of some write
	for i, e := range tr {
		if e[0] == 'w' {
			t := cp()
			n, _ := strconv.Atoi(e[1:])
			t[i] = "w" + strconv.Itoa(n+1)
			out = append(out, t)
			break
		}
	}
	// Close returned but nothing was ever received
	if sc.Close {
		var t []string
		for _, e := range tr {
			if e[0] != 'r' {
				t = append(t, e)
			}
		}
		out = append(out, t)
		// Close returning before the first write does
		if len(sc.Calls) > 0 {
			t2 := []string{"c"}
			for _, e := range tr {
				if e != "c" {
					t2 = append(t2, e)
				}
			}
			out = append(out, t2)
		}
	} else {
		out = append(out, append(cp(), "x")) // never closed
	}
	// two received values swapped into decreasing order
	var ri []int
	for i, e := range tr {
		if e[0] == 'r' {
			ri = append(ri, i)
		}
	}
	if len(ri) >= 2 {
		a, b := ri[0], ri[len(ri)-1]
		if tr[a] != tr[b] {
			t := cp()
			t[a], t[b] = t[b], t[a]
			out = append(out, t)
		}
	}
	_ = r
	return out
}

func pwTraceStr(tr []string) string {
	if len(tr) == 0 {
		return "-"
	}
	return strings.Join(tr, ",")
}

func pwIntsStr(v []int) string {
	if len(v) == 0 {
		return "-"
	}
	p := make([]string, len(v))
	for i, x := range v {
		p[i] = strconv.Itoa(x)
	}
	return strings.Join(p, ",")
}

// ---- generator ---------------------------------------------------------------------------------

func pwGenCall(r *Rng) pwCall {
	c := pwCall{Str: r.Chance(40)}
	switch r.Intn(10) {
	case 0:
		c.Len = 0
	case 1:
		c.Len = 1
	case 2:
		c.Len = 1<<(10+r.Intn(8)) + r.Intn(4) // 1 KiB .. 128 KiB (+0..3)
	default:
		c.Len = 1 + r.Intn(200)
	}
	switch r.Intn(8) {
	case 0: // short write with io.ErrShortWrite-like error
		c.N, c.Err = r.Intn(c.Len+1), true
	case 1: // failed write, nothing written
		c.N, c.Err = 0, true
	case 2: // short write, no error reported (contract violation of the wrapped writer; still counted)
		c.N = r.Intn(c.Len + 1)
	case 3: // failed after everything was written
		c.N, c.Err = c.Len, true
	default:
		c.N = c.Len
	}
	return c
}

func pwConsumers(close bool) []string {
	if close {
		return []string{"atclose", "fast", "yield", "slow", "late"}
	}
	return []string{"none", "fast", "yield", "slow", "late"}
}

func runProgress(cfg Cfg) {
	s := NewStream(cfg.Out, "progress")
	defer s.Close()
	s.Rule = "scripted wrapped writers (full / short / failing / zero-length, io.StringWriter or not) x Write/WriteString sequences x consumers (none, only at Close, fast, yielding, slow, starting late, turning up 1.3 s after Close began) incl. totals beyond 2^32 bytes and a writer wrapped around another ProgressWriter x producer pacing; every observed trace is judged by the Lean model (trace inclusion) and by the direct oracle; non-trivial = a complete trace in which at least one select-send was taken by the consumer and at least one fell through to default, or which contains a short/failed write (distinct by program|consumer|trace)"
	s.Notes = append(s.Notes,
		"`control` lines are synthetic traces that no correct ProgressWriter can produce (value above the total, wrong write result, Close without any receive, Close before the first write, closed without Close, decreasing values); their .impl answer `reject` is by construction, they test that the acceptor discriminates",
		"wrapped writers are scripted: reported n within 0..len(p); negative counts are outside the generator (the monotonicity theorem assumes n >= 0)")
	rng := NewRng(cfg.Seed)

	var scenarios []pwScenario
	// exhaustive small domain (thorough): all programs of <= 3 calls over n in {0,1,2} (len 2),
	// Write/WriteString, with/without Close, both wrapped writer types, every consumer kind
	if cfg.Thorough() {
		var progs [][]pwCall
		var rec func(cur []pwCall)
		rec = func(cur []pwCall) {
			progs = append(progs, append([]pwCall{}, cur...))
			if len(cur) == 3 {
				return
			}
			for _, str := range []bool{false, true} {
				for n := 0; n <= 2; n++ {
					rec(append(cur, pwCall{Str: str, Len: 2, N: n, Err: n < 2}))
				}
			}
		}
		rec(nil)
		for _, p := range progs {
			for _, cl := range []bool{false, true} {
				for _, sw := range []bool{false, true} {
					for _, cons := range pwConsumers(cl) {
						scenarios = append(scenarios, pwScenario{SW: sw, Calls: p, Close: cl, Consumer: cons,
							LateK: rng.Intn(len(p) + 1), Pace: Pick(rng, []string{"none", "yield", "sleep"}), Seed: rng.U64()})
					}
				}
			}
		}
		s.Exhaustive = true
		s.Count(fmt.Sprintf("exhaustive.small-programs=%d", len(progs)))
	}
	nRandom := cfg.N(700, 4000)
	for i := 0; i < nRandom; i++ {
		r := rng.Fork()
		nCalls := r.Intn(13)
		if r.Chance(10) {
			nCalls = 20 + r.Intn(30)
		}
		calls := make([]pwCall, nCalls)
		for j := range calls {
			calls[j] = pwGenCall(r)
		}
		cl := r.Chance(70)
		scenarios = append(scenarios, pwScenario{SW: r.Bool(), Calls: calls, Close: cl,
			Consumer: Pick(r, pwConsumers(cl)), LateK: r.Intn(nCalls + 1),
			Pace: Pick(r, []string{"none", "yield", "sleep", "sleep"}), Seed: r.U64()})
	}

	// a consumer that turns up more than a second after Close began still gets the final total
	for i := 0; i < cfg.N(2, 5); i++ {
		r := rng.Fork()
		calls := make([]pwCall, r.Intn(4))
		for j := range calls {
			calls[j] = pwGenCall(r)
		}
		scenarios = append(scenarios, pwScenario{SW: r.Bool(), Calls: calls, Close: true, Consumer: "longafterclose", Pace: "none", Seed: r.U64()})
	}
	// totals beyond 2^31 and 2^32 bytes (a transfer of a few GiB through one writer)
	for i := 0; i < cfg.N(1, 3); i++ {
		r := rng.Fork()
		var calls []pwCall
		for j := 0; j < 70+r.Intn(10); j++ {
			l := 64<<20 + r.Intn(1<<20)
			calls = append(calls, pwCall{Len: l, N: l})
		}
		scenarios = append(scenarios, pwScenario{Calls: calls, Close: true, Consumer: Pick(r, []string{"fast", "atclose", "slow"}), Pace: "none", Seed: r.U64()})
	}
	pwNested(s)
	pwCopyInto(s, rng)
	pwOddDestinations(s, cfg)

	for idx, sc := range scenarios {
		res := runPwScenario(sc)
		s.Evaluations++
		s.Count("consumer." + sc.Consumer)
		s.Count("pace." + sc.Pace)
		s.Count(fmt.Sprintf("close.%v", sc.Close))
		for _, c := range sc.Calls {
			switch {
			case c.Err && c.N < c.Len:
				s.Count("call.short+err")
			case c.Err:
				s.Count("call.full+err")
			case c.N < c.Len:
				s.Count("call.short-noerr")
			default:
				s.Count("call.full")
			}
			if c.Str {
				s.Count("call.WriteString")
			} else {
				s.Count("call.Write")
			}
		}
		prog := sc.prog()
		if res.Complete {
			s.Line("accept "+prog+" "+pwTraceStr(res.Trace), "accept")
			s.Traces++
			if idx%4 == 0 {
				for _, t := range pwControls(sc, res.Trace, rng) {
					s.Line("control "+prog+" "+pwTraceStr(t), "reject")
					s.Count("control")
				}
			}
		} else {
			s.Line("prefix "+prog+" "+pwTraceStr(res.Trace), "accept")
		}
		if len(res.Sizes) == len(sc.Calls) {
			s.Line("size "+prog, pwIntsStr(res.Sizes))
		}
		if res.Deviated > 0 {
			s.Count("wrapped-writer.called-in-other-portions")
		}
		// statistics
		nr := len(res.Recv)
		if sc.Close && nr > 0 {
			nr--
		}
		hasShort := false
		for _, c := range sc.Calls {
			if c.Err || c.N < c.Len {
				hasShort = true
			}
		}
		switch {
		case nr == 0:
			s.Count("trace.no-offer-taken")
		case nr == len(sc.Calls):
			s.Count("trace.every-offer-taken")
		default:
			s.Count("trace.mixed")
		}
		if res.Complete && ((nr > 0 && nr < len(sc.Calls)) || hasShort) {
			s.Nontrivial(prog + "|" + sc.Consumer + "|" + pwTraceStr(res.Trace))
		}
		if idx%97 == 0 {
			s.Sample(map[string]any{"prog": prog, "consumer": sc.Consumer, "trace": pwTraceStr(res.Trace), "sizes": res.Sizes})
		}
		for _, v := range res.Viol {
			replay := map[string]any{"scenario": sc, "trace": res.Trace, "sizes": res.Sizes}
			if len(s.Violations) < 2 && v[0] != "harness" {
				// shrink the call list: keep a call subsequence that still fails (3 attempts each,
				// the schedule is not deterministic)
				kind := v[0]
				small := ddmin(sc.Calls, func(cs []pwCall) bool {
					sc2 := sc
					sc2.Calls = cs
					if sc2.LateK > len(cs) {
						sc2.LateK = len(cs)
					}
					for a := 0; a < 3; a++ {
						for _, vv := range runPwScenario(sc2).Viol {
							if vv[0] == kind {
								return true
							}
						}
					}
					return false
				})
				sc2 := sc
				sc2.Calls = small
				if sc2.LateK > len(small) {
					sc2.LateK = len(small)
				}
				replay["shrunk_scenario"] = sc2
			}
			s.Violate(v[0], v[1]+" | program "+prog+", consumer "+sc.Consumer, replay)
		}
		if len(s.Violations) >= 5 {
			s.Notes = append(s.Notes, fmt.Sprintf("stopped after %d scenarios: 5 violations", idx+1))
			break
		}
	}
}

// pwNested: a ProgressWriter whose wrapped writer is itself a ProgressWriter that has already written
// (a per-file writer on top of a long-lived total): the outer one counts only what IT passed on.
func pwNested(s *Stream) {
	drain := func(ch chan int, last *int, closed *bool, done chan struct{}) {
		defer close(done)
		for v := range ch {
			*last = v
		}
		*closed = true
	}
	var sink bytes.Buffer
	inner := ioutil.NewProgressWriter(&sink)
	var inLast, outLast int
	var inClosed, outClosed bool
	inDone, outDone := make(chan struct{}), make(chan struct{})
	go drain(inner.Status(), &inLast, &inClosed, inDone)
	inner.Write(make([]byte, 10))
	outer := ioutil.NewProgressWriter(inner)
	sc := map[string]any{"scenario": "NewProgressWriter(w) where w is a ProgressWriter that already wrote 10 bytes; then 5 bytes through the outer one"}
	if outer.Size() != 0 {
		s.Violate("size-not-sum", fmt.Sprintf("a new ProgressWriter reports Size() = %d before its wrapped writer reported anything", outer.Size()), sc)
	}
	go drain(outer.Status(), &outLast, &outClosed, outDone)
	n, _ := outer.Write(make([]byte, 5))
	if outer.Size() != n || n != 5 {
		s.Violate("size-not-sum", fmt.Sprintf("outer writer: Write returned %d, Size() = %d, its wrapped writer reported 5", n, outer.Size()), sc)
	}
	if inner.Size() != 15 {
		s.Violate("size-not-sum", fmt.Sprintf("inner writer: Size() = %d, its wrapped writer reported 15", inner.Size()), sc)
	}
	outer.Close()
	select {
	case <-outDone:
	case <-time.After(5 * time.Second):
		s.Violate("not-closed", "outer writer: channel not closed 5 s after Close", sc)
		return
	}
	if outLast != 5 {
		s.Violate("close-total", fmt.Sprintf("outer writer: last value received is %d, final total is 5", outLast), sc)
	}
	if inClosed {
		s.Violate("closed-without-close", "inner writer: its channel was closed although only the outer writer was closed", sc)
		return
	}
	func() {
		defer func() {
			if v := recover(); v != nil {
				s.Violate("write-panicked", fmt.Sprintf("inner writer: Write after the OUTER writer was closed panicked: %v", v), sc)
			}
		}()
		inner.Write(make([]byte, 1))
	}()
	inner.Close()
	select {
	case <-inDone:
	case <-time.After(5 * time.Second):
		s.Violate("not-closed", "inner writer: channel not closed 5 s after Close", sc)
		return
	}
	if inLast != 16 {
		s.Violate("close-total", fmt.Sprintf("inner writer: last value received is %d, final total is 16", inLast), sc)
	}
	s.Evaluations++
	s.Nontrivial("nested")
}

// pwSink is a destination with limited room that also offers io.ReaderFrom (as *os.File or *net.TCPConn do):
// it consumes what it is given but only reports what fitted.
type pwSink struct {
	room     int
	reported int
	failErr  error
}

func (k *pwSink) take(n int) (int, error) {
	if n <= k.room {
		k.room -= n
		k.reported += n
		return n, nil
	}
	m := k.room
	k.room = 0
	k.reported += m
	return m, k.failErr
}

func (k *pwSink) Write(p []byte) (int, error) { return k.take(len(p)) }

func (k *pwSink) ReadFrom(r io.Reader) (int64, error) {
	var total int64
	buf := make([]byte, 8192)
	for {
		n, err := r.Read(buf)
		if n > 0 {
			m, werr := k.take(n)
			total += int64(m)
			if werr != nil {
				return total, werr
			}
			if m < n {
				return total, io.ErrShortWrite
			}
		}
		if err == io.EOF {
			return total, nil
		}
		if err != nil {
			return total, err
		}
	}
}

type pwPlainReader struct{ r io.Reader } // hides WriteTo, so that io.Copy looks at the destination

func (p pwPlainReader) Read(b []byte) (int, error) { return p.r.Read(b) }

// pwCopyInto: io.Copy(progressWriter, source) into a destination that runs out of room: whichever path
// io.Copy takes, Size() is what the wrapped writer reported.
func pwCopyInto(s *Stream, rng *Rng) {
	for i := 0; i < 12; i++ {
		size := 1 + rng.Intn(200000)
		room := rng.Intn(size + size/4 + 1)
		sink := &pwSink{room: room, failErr: Pick(rng, []error{io.ErrShortWrite, pwErrScripted, nil})}
		pw := ioutil.NewProgressWriter(sink)
		done := make(chan struct{})
		var last int
		go func() {
			defer close(done)
			for v := range pw.Status() {
				last = v
			}
		}()
		_, cerr := io.Copy(pw, pwPlainReader{bytes.NewReader(make([]byte, size))})
		sc := map[string]any{"scenario": "io.Copy(ProgressWriter(dst), src)", "source_bytes": size, "room_in_destination": room, "copy_error": fmt.Sprint(cerr)}
		if pw.Size() != sink.reported {
			s.Violate("size-not-sum", fmt.Sprintf("after io.Copy of %d bytes into a destination with room for %d: Size() = %d, the wrapped writer reported %d", size, room, pw.Size(), sink.reported), sc)
		}
		pw.Close()
		select {
		case <-done:
			if last != sink.reported {
				s.Violate("close-total", fmt.Sprintf("io.Copy scenario: last value received %d, the wrapped writer reported %d", last, sink.reported), sc)
			}
		case <-time.After(5 * time.Second):
			s.Violate("not-closed", "io.Copy scenario: channel not closed 5 s after Close", sc)
		}
		s.Evaluations++
		s.Nontrivial(fmt.Sprintf("iocopy/%d", i))
	}
}

// pwFlusher: a buffering destination whose Flush fails (as a bufio.Writer in front of a full disk would).
type pwFlusher struct{ n int }

func (f *pwFlusher) Write(p []byte) (int, error) { f.n += len(p); return len(p), nil }
func (f *pwFlusher) Flush() error                { return pwErrScripted }

// pwOddDestinations: destinations with more methods than Write - a file positioned somewhere in the middle
// (io.Seeker), a buffering writer whose Flush fails - and a long run of writes nobody listens to.
func pwOddDestinations(s *Stream, cfg Cfg) {
	// (a) an *os.File that already holds data and is positioned at its end: progress counts what THIS writer passed on
	if f, err := os.CreateTemp(cfg.Out, "pwseek"); err == nil {
		defer os.Remove(f.Name())
		f.Write(make([]byte, 1000))
		pw := ioutil.NewProgressWriter(f)
		sc := map[string]any{"scenario": "wrapped writer is an *os.File holding 1000 bytes, positioned at its end; 16 bytes written through the ProgressWriter"}
		if pw.Size() != 0 {
			s.Violate("size-not-sum", fmt.Sprintf("a new ProgressWriter around a file positioned at offset 1000 reports Size() = %d before any write", pw.Size()), sc)
		}
		n, _ := pw.Write(make([]byte, 16))
		if pw.Size() != n {
			s.Violate("size-not-sum", fmt.Sprintf("Size() = %d after the wrapped file reported %d bytes", pw.Size(), n), sc)
		}
		done := make(chan int, 1)
		go func() {
			last := -1
			for v := range pw.Status() {
				last = v
			}
			done <- last
		}()
		pw.Close()
		select {
		case last := <-done:
			if last != n {
				s.Violate("close-total", fmt.Sprintf("file destination: last value received %d, final total %d", last, n), sc)
			}
		case <-time.After(5 * time.Second):
			s.Violate("not-closed", "file destination: channel not closed 5 s after Close", sc)
		}
		f.Close()
		s.Evaluations++
		s.Nontrivial("seekable-destination")
	}
	// (b) a destination with a failing Flush method: Close still delivers the total and closes the channel
	{
		fl := &pwFlusher{}
		pw := ioutil.NewProgressWriter(fl)
		pw.Write(make([]byte, 360))
		sc := map[string]any{"scenario": "wrapped writer has a Flush() error method that fails; 360 bytes written, then Close"}
		done := make(chan int, 1)
		go func() {
			last := -1
			for v := range pw.Status() {
				last = v
			}
			done <- last
		}()
		closed := make(chan struct{})
		go func() { pw.Close(); close(closed) }()
		select {
		case last := <-done:
			if last != 360 {
				s.Violate("close-total", fmt.Sprintf("destination with a failing Flush: last value received %d, final total 360", last), sc)
			}
		case <-time.After(5 * time.Second):
			s.Violate("not-closed", "destination with a failing Flush: the channel is still open 5 s after Close was called", sc)
		}
		s.Evaluations++
		s.Nontrivial("flusher-destination")
	}
	// (c) 3000 writes of 4 KiB with nobody receiving: not one of them waits for a consumer. The bound
	// is three orders of magnitude above what the writes take, and far below what any per-write wait would add up to.
	{
		sink := &pwSink{room: 1 << 40}
		pw := ioutil.NewProgressWriter(sink)
		buf := pwBigBuf(4 << 10)
		t0 := time.Now()
		slowest := time.Duration(0)
		var wrote atomic.Int32
		fin := make(chan struct{})
		go func() {
			defer close(fin)
			for i := 0; i < 3000; i++ {
				t1 := time.Now()
				pw.Write(buf)
				wrote.Add(1)
				if d := time.Since(t1); d > slowest {
					slowest = d
				}
			}
		}()
		select {
		case <-fin:
		case <-time.After(10 * time.Second):
			s.Violate("write-blocked", fmt.Sprintf("with no consumer, write number %d (4 KiB each) has not returned after 10 s", wrote.Load()+1),
				map[string]any{"scenario": "3000 x Write(4 KiB), no consumer", "writes_completed": wrote.Load()})
			return
		}
		total := time.Since(t0)
		if total > 2*time.Second {
			s.Violate("write-blocked", fmt.Sprintf("3000 writes of 4 KiB with no consumer took %v (slowest single write %v): writes wait although nobody is receiving", total.Round(time.Millisecond), slowest.Round(time.Millisecond)),
				map[string]any{"scenario": "3000 x Write(4 KiB), no consumer", "total_ms": total.Milliseconds()})
		}
		if pw.Size() != 3000*(4<<10) {
			s.Violate("size-not-sum", fmt.Sprintf("Size() = %d after 3000 full writes of 4 KiB", pw.Size()), nil)
		}
		s.Evaluations++
		s.Nontrivial("no-consumer-run")
	}
}
