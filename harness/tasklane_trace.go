package main

import (
	"context"
	"errors"
	"fmt"
	"runtime"
	"strings"
	"sync"
	"sync/atomic"
	"time"

	"github.com/whoisnian/glb/tasklane"
)

// Stream tl_trace (driver stream tltrace): trace inclusion between the real TaskLane and the step
// semantics of Glb/Model/TaskLane.lean.
//
// Each scenario runs the real code with the verification hook installed and records ONE global
// event log under a mutex. Every record is written by the goroutine concerned, at the program point
// it names, while holding the mutex; so the records of one goroutine are in program order, and a
// record is written after the (model) step that brings the goroutine to that point and before the
// goroutine's next step. The Lean driver searches for an execution of the model's `Step` relation
// that explains the log (see Glb/Driver/TaskLaneTrace.lean for the exact rule).
//
//	qT<i> qC<i> qB<i> qH<i> wG<i>    hook points q.took q.counted q.blocking q.handed w.got of lane i
//	pB<k>.<t>.<lane>                 producer record before the k-th PushTask(t, lane) call (k numbers
//	                                 these records in log order = the model's producer index)
//	pE<k> pI<k>                      hook points p.enter p.inner, attributed to the call by goroutine id
//	pR<k>.<n|c|t>                    producer record after the call returned nil / ctx error / ErrTimeout
//	S<i>.<t> F<i>.<t>.<0|1>          written inside Start() of task t, i = lane of the worker goroutine
//	                                 it runs in (by goroutine id; 99 = not a worker that logged w.got)
//	X Y W                            before cancel(), after cancel() returned, after Wait() returned
//
// Lines:  trace <L> <Q> <progs> <log>  → accept        (the real run)
//
//	control …                      → reject        (every 4th scenario: the same log, corrupted)
//	xcheck …                       → agree         (small logs: pruned search = reference search)
func init() {
	streams["tl_trace"] = runTLTrace
}

type tltLog struct {
	mu    sync.Mutex
	ev    []string
	npush int
	pcur  map[int64]int // producer goroutine id → index of its current PushTask call
	wlane map[int64]int // worker goroutine id → lane (learnt at w.got)
	rng   *Rng          // schedule perturbation (guarded by mu)
	yield int           // percent of hook calls followed by a Gosched / short sleep
}

// tltGoid returns the current goroutine's id (parsed from the stack header "goroutine N [").
func tltGoid() int64 {
	var buf [64]byte
	n := runtime.Stack(buf[:], false)
	var id int64
	for _, c := range buf[len("goroutine "):n] {
		if c < '0' || c > '9' {
			break
		}
		id = id*10 + int64(c-'0')
	}
	return id
}

func (lg *tltLog) add(format string, a ...any) {
	lg.ev = append(lg.ev, fmt.Sprintf(format, a...))
}

// perturb is called after a record was written (mutex released): sometimes yield or sleep so that
// other interleavings than the scheduler's favourite ones are exercised.
func (lg *tltLog) perturb() {
	lg.mu.Lock()
	d := -1
	if lg.yield > 0 && lg.rng.Chance(lg.yield) {
		d = lg.rng.Intn(4)
	}
	lg.mu.Unlock()
	switch d {
	case 0, 1:
		runtime.Gosched()
	case 2:
		time.Sleep(time.Duration(1+d) * 10 * time.Microsecond)
	case 3:
		time.Sleep(200 * time.Microsecond)
	}
}

func (lg *tltLog) hook(point string, lane int) {
	gid := tltGoid()
	lg.mu.Lock()
	switch point {
	case "q.took":
		lg.add("qT%d", lane)
	case "q.counted":
		lg.add("qC%d", lane)
	case "q.blocking":
		lg.add("qB%d", lane)
	case "q.handed":
		lg.add("qH%d", lane)
	case "w.got":
		lg.wlane[gid] = lane
		lg.add("wG%d", lane)
	case "p.enter", "p.inner":
		k, ok := lg.pcur[gid]
		if !ok {
			k = 9999
		}
		if point == "p.enter" {
			lg.add("pE%d", k)
		} else {
			lg.add("pI%d", k)
		}
	default:
		lg.add("?%s", point)
	}
	lg.mu.Unlock()
	lg.perturb()
}

// tltTask wraps a tlTask (which keeps the oracle's books) with the start/finish records.
type tltTask struct {
	inner *tlTask
	lg    *tltLog
}

func (t *tltTask) Start() {
	gid := tltGoid()
	lg := t.lg
	lg.mu.Lock()
	lane, ok := lg.wlane[gid]
	if !ok {
		lane = 99
	}
	lg.add("S%d.%d", lane, t.inner.id)
	lg.mu.Unlock()
	defer func() {
		r := recover()
		p := 0
		if r != nil {
			p = 1
		}
		lg.mu.Lock()
		lg.add("F%d.%d.%d", lane, t.inner.id, p)
		lg.mu.Unlock()
		if r != nil {
			panic(r)
		}
	}()
	t.inner.Start()
}

type tltPush struct{ task, lane int }

type tltScenario struct {
	L, Q     int
	Timeout  time.Duration
	Progs    [][]tltPush
	Kinds    map[int]string // task id → "ret" | "block" | "panic" | "blockpanic"
	Cancel   string         // "end" | "after-N-returns" | "after-D"
	Release  time.Duration
	Yield    int
	Seed     uint64
	Log      string `json:"log,omitempty"`
	Progress string `json:"progress,omitempty"`
}

func tltProgs(progs [][]tltPush) string {
	if len(progs) == 0 {
		return "-"
	}
	var ps []string
	for _, p := range progs {
		var xs []string
		for _, x := range p {
			xs = append(xs, fmt.Sprintf("%d@%d", x.task, x.lane))
		}
		ps = append(ps, strings.Join(xs, "+"))
	}
	return strings.Join(ps, "/")
}

func tltResult(err error) string {
	switch {
	case err == nil:
		return "n"
	case errors.Is(err, tasklane.ErrTimeout):
		return "t"
	case errors.Is(err, context.Canceled):
		return "c"
	}
	return "?"
}

// tltRunScenario runs one scenario on the real code and returns the event log.
func tltRunScenario(s *Stream, rng *Rng) (sc tltScenario, log []string, ok bool) {
	L, Q := 1+rng.Intn(3), rng.Intn(3)
	sc = tltScenario{L: L, Q: Q, Seed: rng.s, Kinds: map[int]string{}}
	sc.Timeout = Pick(rng, []time.Duration{0, 50 * time.Millisecond, 5 * time.Second})
	nProd := 1 + rng.Intn(3)
	id := 0
	for p := 0; p < nProd; p++ {
		var prog []tltPush
		n := 1 + rng.Intn(6)
		for i := 0; i < n; i++ {
			id++
			lane := rng.Intn(L)
			if rng.Chance(25) {
				lane = 0
			}
			prog = append(prog, tltPush{id, lane})
			sc.Kinds[id] = Pick(rng, []string{"ret", "ret", "block", "block", "panic", "blockpanic"})
		}
		sc.Progs = append(sc.Progs, prog)
	}
	total := id
	cancelAfter := -1
	var cancelDelay time.Duration = -1
	switch rng.Intn(4) {
	case 0:
		sc.Cancel = "end"
	case 1, 2:
		cancelAfter = rng.Intn(total + 1)
		sc.Cancel = fmt.Sprintf("after-%d-returns", cancelAfter)
	default:
		cancelDelay = time.Duration(rng.Intn(400)) * time.Microsecond
		sc.Cancel = "after-" + cancelDelay.String()
	}
	sc.Release = Pick(rng, []time.Duration{0, 200 * time.Microsecond, time.Millisecond, 3 * time.Millisecond, 3 * time.Millisecond, 60 * time.Millisecond})
	if sc.Timeout != 50*time.Millisecond && sc.Release > 3*time.Millisecond {
		sc.Release = 2 * time.Millisecond
	}
	sc.Yield = Pick(rng, []int{0, 0, 20, 60})

	lg := &tltLog{pcur: map[int64]int{}, wlane: map[int64]int{}, rng: rng.Fork(), yield: sc.Yield}
	hook := lg.hook
	tasklane.VerifHook.Store(&hook)
	defer tasklane.VerifHook.Store(nil)

	ctx, cancel := context.WithCancel(context.Background())
	defer cancel()
	var cancelOnce sync.Once
	doCancel := func() {
		cancelOnce.Do(func() {
			lg.mu.Lock()
			lg.add("X")
			lg.mu.Unlock()
			cancel()
			lg.mu.Lock()
			lg.add("Y")
			lg.mu.Unlock()
		})
	}
	r := newTLRun()
	release := make(chan struct{})
	tl := tasklane.New(ctx, L, Q)
	tl.SetTimeout(sc.Timeout)

	var returned atomic.Int64
	var pmu sync.Mutex
	var pushes []tlPush
	var wg sync.WaitGroup
	if cancelAfter == 0 {
		doCancel()
	}
	for p := range sc.Progs {
		wg.Add(1)
		go func(prog []tltPush) {
			defer wg.Done()
			gid := tltGoid()
			for _, x := range prog {
				in := &tlTask{id: x.task, r: r}
				switch sc.Kinds[x.task] {
				case "block":
					in.block = release
				case "panic":
					in.pv = fmt.Sprintf("panic-%d", x.task)
				case "blockpanic":
					in.block = release
					in.pv = x.task
				}
				lg.mu.Lock()
				k := lg.npush
				lg.npush++
				lg.pcur[gid] = k
				lg.add("pB%d.%d.%d", k, x.task, x.lane)
				lg.mu.Unlock()
				err := tl.PushTask(&tltTask{in, lg}, x.lane)
				lg.mu.Lock()
				lg.add("pR%d.%s", k, tltResult(err))
				lg.mu.Unlock()
				pmu.Lock()
				pushes = append(pushes, tlPush{x.task, x.lane, err})
				pmu.Unlock()
				if int(returned.Add(1)) == cancelAfter {
					doCancel()
				}
				lg.perturb()
			}
		}(sc.Progs[p])
	}
	prodDone := make(chan struct{})
	go func() { wg.Wait(); close(prodDone) }()
	timerDone := make(chan struct{})
	if cancelDelay >= 0 {
		go func() { defer close(timerDone); time.Sleep(cancelDelay); doCancel() }()
	} else {
		close(timerDone)
	}
	// release the blocking tasks after the chosen delay, or as soon as every producer is done
	select {
	case <-prodDone:
	case <-time.After(sc.Release):
	}
	close(release)
	select {
	case <-prodDone:
	case <-time.After(tlDeadline + sc.Timeout):
		s.Violate("producer-stuck", "a PushTask call did not return although every task was released", sc)
		return sc, nil, false
	}
	// let the lane drain (when it was not cancelled) for a random short while, then cancel and Wait
	if rng.Chance(70) {
		waitUntil(20*time.Millisecond, func() bool {
			st := tl.Status()
			_, fin, _, _ := r.snapshot()
			return st.PendingTask == 0 && fin == r.startedCount()
		})
	}
	doCancel()
	<-timerDone
	if !waitLane(tl, r) {
		_, dump := laneGoroutinesGone()
		s.Violate("wait-does-not-return", "Wait() did not return within the watchdog after cancel with every task released", map[string]any{"scenario": sc, "goroutines": dump})
		return sc, nil, false
	}
	lg.mu.Lock()
	lg.add("W")
	log = append([]string{}, lg.ev...)
	lg.mu.Unlock()
	tasklane.VerifHook.Store(nil)
	pmu.Lock()
	ps := append([]tlPush{}, pushes...)
	pmu.Unlock()
	tlFinalChecks(s, tlScenario{Kind: "trace", L: L, Q: Q, Seed: sc.Seed, Detail: sc.Cancel, Timeout: sc.Timeout.String(), NTasks: total}, tl, r, ps, ctx)
	return sc, log, true
}

// ---- corrupted logs (control lines): each corruption makes the log unexplainable for certain ----

func tltIndex(log []string, from int, pred func(string) bool) int {
	for i := from; i < len(log); i++ {
		if pred(log[i]) {
			return i
		}
	}
	return -1
}

func tltCorrupt(rng *Rng, L int, log []string) (kind string, out []string) {
	hasPrefix := func(p string) func(string) bool { return func(e string) bool { return strings.HasPrefix(e, p) } }
	order := []string{"start-twice", "got-first", "lane-out-of-range", "handed-before-took", "took-dropped", "ctx-error-before-cancel", "wait-first", "foreign-task"}
	off := rng.Intn(len(order))
	for n := 0; n < len(order); n++ {
		kind = order[(off+n)%len(order)]
		cp := append([]string{}, log...)
		switch kind {
		case "start-twice": // the same task is started a second time
			if i := tltIndex(cp, 0, hasPrefix("S")); i >= 0 {
				j := i + 1 + rng.Intn(len(cp)-i)
				return kind, append(cp[:j:j], append([]string{cp[i]}, cp[j:]...)...)
			}
		case "got-first": // a worker has a task before anything was pushed
			return kind, append([]string{fmt.Sprintf("wG%d", rng.Intn(L))}, cp...)
		case "lane-out-of-range": // a task starts in a worker that does not exist
			if i := tltIndex(cp, 0, hasPrefix("S")); i >= 0 {
				var lane, t int
				fmt.Sscanf(cp[i], "S%d.%d", &lane, &t)
				cp[i] = fmt.Sprintf("S%d.%d", L, t)
				return kind, cp
			}
		case "handed-before-took": // a queue goroutine hands over before it received anything
			if i := tltIndex(cp, 0, hasPrefix("qT")); i >= 0 {
				h := "qH" + cp[i][2:]
				if j := tltIndex(cp, i, func(e string) bool { return e == h }); j >= 0 {
					rest := append(append([]string{}, cp[i:j]...), cp[j+1:]...)
					return kind, append(append(cp[:i:i], h), rest...)
				}
			}
		case "took-dropped": // q.counted without q.took
			if i := tltIndex(cp, 0, hasPrefix("qT")); i >= 0 {
				return kind, append(cp[:i:i], cp[i+1:]...)
			}
		case "ctx-error-before-cancel": // PushTask returns the context error although nobody cancelled yet
			x := tltIndex(cp, 0, func(e string) bool { return e == "X" })
			if i := tltIndex(cp, 0, hasPrefix("pR")); i >= 0 && i < x {
				cp[i] = cp[i][:len(cp[i])-1] + "c"
				return kind, cp
			}
		case "wait-first": // Wait returns while the goroutines are alive
			return kind, append([]string{"W"}, cp...)
		case "foreign-task": // a task nobody pushed is started
			if i := tltIndex(cp, 0, hasPrefix("S")); i >= 0 {
				var lane, t int
				fmt.Sscanf(cp[i], "S%d.%d", &lane, &t)
				cp[i] = fmt.Sprintf("S%d.%d", lane, t+1000)
				for j := i + 1; j < len(cp); j++ {
					if cp[j] == fmt.Sprintf("F%d.%d.0", lane, t) || cp[j] == fmt.Sprintf("F%d.%d.1", lane, t) {
						cp[j] = fmt.Sprintf("F%d.%d.%s", lane, t+1000, cp[j][len(cp[j])-1:])
					}
				}
				return kind, cp
			}
		}
	}
	return "wait-first", append([]string{"W"}, log...)
}

func tltFeatures(sc tltScenario, log []string) []string {
	var f []string
	has := func(p string) bool {
		return tltIndex(log, 0, func(e string) bool { return strings.HasPrefix(e, p) }) >= 0
	}
	if has("qB") {
		f = append(f, "blocking-select")
	}
	lanes := map[int]int{}
	for _, p := range sc.Progs {
		for _, x := range p {
			lanes[x.task] = x.lane
		}
	}
	for _, e := range log {
		var lane, t int
		if n, _ := fmt.Sscanf(e, "S%d.%d", &lane, &t); n == 2 && strings.HasPrefix(e, "S") && lanes[t] != lane {
			f = append(f, "universal-queue")
			break
		}
	}
	for _, e := range log {
		if strings.HasPrefix(e, "pR") {
			switch e[len(e)-1] {
			case 't':
				f = append(f, "timeout")
			case 'c':
				f = append(f, "ctx-error")
			}
		}
	}
	if x := tltIndex(log, 0, func(e string) bool { return e == "X" }); x >= 0 {
		if tltIndex(log, x, func(e string) bool {
			return strings.HasPrefix(e, "q") || strings.HasPrefix(e, "wG") || strings.HasPrefix(e, "S")
		}) >= 0 {
			f = append(f, "activity-after-cancel")
		}
		if y := tltIndex(log, x, func(e string) bool { return e == "Y" }); y > x+1 {
			f = append(f, "records-inside-cancel")
		}
	}
	if has("F") && tltIndex(log, 0, func(e string) bool { return strings.HasPrefix(e, "F") && strings.HasSuffix(e, ".1") }) >= 0 {
		f = append(f, "panic")
	}
	seen := map[string]bool{}
	var out []string
	for _, x := range f {
		if !seen[x] {
			seen[x] = true
			out = append(out, x)
		}
	}
	return out
}

func runTLTrace(cfg Cfg) {
	s := NewStream(cfg.Out, "tl_trace")
	defer s.Close()
	s.Rule = "random scenarios on the real TaskLane with the verification hook recording one global event log: lanes 1..3, queue 0..2, 1..3 producers pushing 1..6 tasks each to random lanes, timeout 0 / 50ms / 5s, tasks returning at once / blocking until released / panicking, cancellation after a random number of returned pushes, after a random delay or only at the end, random yields at the hook points; the Lean acceptor must explain every log by an execution of Step (answer accept), must reject a corrupted copy of every 4th log (8 kinds of corruption), and its pruned search must agree with the reference search on short logs; direct oracle: the C06/C07 end-of-run checks; non-trivial = a log in which at least one task was handed to a worker, distinct by (L, Q, features, number of records)"
	rng := NewRng(cfg.Seed)
	n := cfg.N(300, 3000)
	for i := 0; i < n; i++ {
		sc, log, ok := tltRunScenario(s, rng.Fork())
		if tlEnough(s) {
			break
		}
		if !ok {
			continue
		}
		s.Evaluations++
		head := fmt.Sprintf("%d %d %s ", sc.L, sc.Q, tltProgs(sc.Progs))
		s.Line("trace "+head+strings.Join(log, ","), "accept")
		feats := tltFeatures(sc, log)
		s.Count(fmt.Sprintf("L%d.Q%d", sc.L, sc.Q))
		s.Count("timeout=" + sc.Timeout.String())
		s.Count("cancel=" + strings.SplitN(sc.Cancel, "-", 2)[0])
		for _, f := range feats {
			s.Count("feature." + f)
		}
		if tltIndex(log, 0, func(e string) bool { return strings.HasPrefix(e, "wG") }) >= 0 {
			s.Nontrivial(fmt.Sprintf("%d/%d/%s/%d", sc.L, sc.Q, strings.Join(feats, "+"), len(log)))
		}
		if i%4 == 3 {
			kind, bad := tltCorrupt(rng, sc.L, log)
			s.Line("control "+head+strings.Join(bad, ","), "reject")
			s.Count("control." + kind)
		}
		if i%5 == 2 && (len(log) <= 14 || (sc.L <= 2 && len(log) <= 45)) {
			s.Line("xcheck "+head+strings.Join(log, ","), "agree")
			s.Count("xcheck")
		}
		sc.Log = strings.Join(log, ",")
		s.Sample(sc)
	}
	s.Traces = s.Evaluations
}
