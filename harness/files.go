package main

// Stream `files` (C18): osutil.CopyFile / osutil.MoveFile on the REAL kernel, in a scratch
// directory under the stream's output dir (device 0) and a second one under /dev/shm (device 1:
// a different file system here, rename across them fails with EXDEV).
//
// Every scenario is a small file system (named entries: regular files = hard links to inodes,
// directories, symlinks, missing names with an existing / missing / non-directory parent) plus one
// call. It is built for real, a snapshot is taken, the call is made, and the result is
//
//   - compared with the Lean model (outcome class + for every name: what it is, what it resolves
//     to, which inode group, which content), and
//   - judged by the direct oracle against the snapshot, without the model: the content
//     guarantees of the property (see c18Oracle).
//
// File contents are sent to the model as tokens (sha256 prefix + length; empty stays empty): the
// model treats bytes as opaque, and truncation (= empty) stays visible.
import (
	"bytes"
	"crypto/sha256"
	"encoding/binary"
	"encoding/hex"
	"errors"
	"fmt"
	"os"
	"path/filepath"
	"strings"
	"syscall"

	"github.com/whoisnian/glb/util/osutil"
)

func init() { streams["files"] = runFiles }

type c18Name struct {
	ID     int    `json:"id"`
	Kind   string `json:"kind"` // f d l m n t
	Ino    int    `json:"ino,omitempty"`
	Target int    `json:"target,omitempty"`
	Dev    int    `json:"dev"`
	path   string
}

type c18Scenario struct {
	Label    string      `json:"label"`
	Call     string      `json:"call"` // copy | move
	Src      int         `json:"src"`
	Dst      int         `json:"dst"`
	DotSlash bool        `json:"dstDotSlashSpelling,omitempty"`
	Names    []c18Name   `json:"names"`
	Sizes    map[int]int `json:"inodeSizes"`
}

func c18Token(b []byte) string {
	if len(b) == 0 {
		return "-"
	}
	h := sha256.Sum256(b)
	t := make([]byte, 12)
	copy(t, h[:8])
	binary.BigEndian.PutUint32(t[8:], uint32(len(b)))
	return hex.EncodeToString(t)
}

func c18ErrClass(err error) string {
	if err == nil {
		return "ok"
	}
	var pe *os.PathError
	if errors.As(err, &pe) && (pe.Op == "copy" || pe.Op == "move") && pe.Err != nil &&
		strings.Contains(pe.Err.Error(), "same file") {
		return "samefile"
	}
	switch {
	case errors.Is(err, syscall.ENOENT):
		return "enoent"
	case errors.Is(err, syscall.ENOTDIR):
		return "enotdir"
	case errors.Is(err, syscall.EISDIR):
		return "eisdir"
	case errors.Is(err, syscall.ELOOP):
		return "eloop"
	case errors.Is(err, syscall.EXDEV):
		return "exdev"
	}
	return "other:" + strings.ReplaceAll(err.Error(), " ", "_")
}

type c18World struct {
	roots [2]string
	cross bool
	seq   int
}

// build creates the scenario's file system; returns the directory pair to remove afterwards.
var c18Suffixes = []string{".tmp", "~", ".bak", ".new", ".part", ".swp", ".old", ".orig"}

func (w *c18World) build(sc *c18Scenario, contents map[int][]byte) ([]string, error) {
	w.seq++
	var dirs []string
	base := [2]string{}
	for d := 0; d < 2; d++ {
		if d == 1 && !w.cross {
			continue
		}
		base[d] = filepath.Join(w.roots[d], fmt.Sprintf("sc%d", w.seq))
		if err := os.MkdirAll(base[d], 0o755); err != nil {
			return dirs, err
		}
		dirs = append(dirs, base[d])
	}
	for i := range sc.Names {
		n := &sc.Names[i]
		b := base[n.Dev]
		switch n.Kind {
		case "n":
			n.path = filepath.Join(b, fmt.Sprintf("nodir%d", n.ID), "x")
		case "t":
			blk := filepath.Join(b, fmt.Sprintf("blk%d", n.ID))
			if err := os.WriteFile(blk, []byte("blocker"), 0o644); err != nil {
				return dirs, err
			}
			n.path = filepath.Join(blk, "x")
		default:
			// names are chained by a typical temp-file suffix ("f", "f.tmp", "f.tmp.tmp", …; the suffix
			// rotates per scenario), so a source that happens to be named like a temp/backup sibling
			// of the destination occurs in every scenario that uses neighbouring ids
			n.path = filepath.Join(b, "f"+strings.Repeat(c18Suffixes[w.seq%len(c18Suffixes)], n.ID))
		}
	}
	first := map[int]string{}
	for _, n := range sc.Names {
		switch n.Kind {
		case "f":
			if p, ok := first[n.Ino]; ok {
				if err := os.Link(p, n.path); err != nil {
					return dirs, err
				}
			} else {
				if err := os.WriteFile(n.path, contents[n.Ino], 0o644); err != nil {
					return dirs, err
				}
				first[n.Ino] = n.path
			}
		case "d":
			if err := os.Mkdir(n.path, 0o755); err != nil {
				return dirs, err
			}
		}
	}
	for _, n := range sc.Names {
		if n.Kind == "l" {
			var target string
			for _, m := range sc.Names {
				if m.ID == n.Target {
					target = m.path
				}
			}
			// every other scenario spells a link to a neighbour in the same directory relatively (as `ln -s f g`
			// does): a link moved or re-created elsewhere must still lead to the same file
			if w.seq%2 == 1 && filepath.Dir(target) == filepath.Dir(n.path) {
				target = filepath.Base(target)
			}
			if err := os.Symlink(target, n.path); err != nil {
				return dirs, err
			}
		}
	}
	return dirs, nil
}

type c18Obs struct {
	own, res string
	content  []byte
	info     os.FileInfo
}

func c18Observe(sc *c18Scenario) []c18Obs {
	out := make([]c18Obs, len(sc.Names))
	for i, n := range sc.Names {
		o := &out[i]
		li, err := os.Lstat(n.path)
		switch {
		case err != nil:
			o.own = "m"
		case li.Mode()&os.ModeSymlink != 0:
			o.own = "l"
		case li.IsDir():
			o.own = "d"
		default:
			o.own = "f"
		}
		si, err := os.Stat(n.path)
		switch {
		case err != nil && errors.Is(err, syscall.ELOOP):
			o.res = "o"
		case err != nil:
			o.res = "m"
		case si.IsDir():
			o.res = "d"
		default:
			o.res = "f"
			o.info = si
			b, rerr := os.ReadFile(n.path)
			if rerr != nil {
				o.res = "m"
			}
			o.content = b
		}
	}
	return out
}

func c18Describe(sc *c18Scenario, obs []c18Obs) string {
	parts := make([]string, len(sc.Names))
	for i, n := range sc.Names {
		o := obs[i]
		if o.res != "f" {
			parts[i] = fmt.Sprintf("%d:%s%s", n.ID, o.own, o.res)
			continue
		}
		k := n.ID
		for j := range sc.Names {
			if obs[j].res == "f" && os.SameFile(obs[j].info, o.info) {
				k = sc.Names[j].ID
				break
			}
		}
		parts[i] = fmt.Sprintf("%d:%sf=%d:%s", n.ID, o.own, k, c18Token(o.content))
	}
	return strings.Join(parts, " ")
}

func (sc *c18Scenario) opLine(contents map[int][]byte) string {
	names := make([]string, len(sc.Names))
	for i, n := range sc.Names {
		k := n.Kind
		switch n.Kind {
		case "f":
			k = fmt.Sprintf("f%d", n.Ino)
		case "l":
			k = fmt.Sprintf("l%d", n.Target)
		}
		names[i] = fmt.Sprintf("%d:%s:%d", n.ID, k, n.Dev)
	}
	var inos []string
	seen := map[int]bool{}
	for _, n := range sc.Names {
		if n.Kind == "f" && !seen[n.Ino] {
			seen[n.Ino] = true
			inos = append(inos, fmt.Sprintf("%d=%s", n.Ino, c18Token(contents[n.Ino])))
		}
	}
	is := "-"
	if len(inos) > 0 {
		is = strings.Join(inos, ",")
	}
	return fmt.Sprintf("%s %d %d %s %s", sc.Call, sc.Src, sc.Dst, strings.Join(names, ","), is)
}

func (sc *c18Scenario) idx(id int) int {
	for i, n := range sc.Names {
		if n.ID == id {
			return i
		}
	}
	return -1
}

// c18Oracle: the property's content guarantees against the snapshot taken before the call.
func c18Oracle(sc *c18Scenario, before, after []c18Obs, n int64, err error) (kind, detail string) {
	si, di := sc.idx(sc.Src), sc.idx(sc.Dst)
	hadSrc := before[si].res == "f"
	snap := before[si].content
	srcNow, dstNow := after[si], after[di]
	same := func(o c18Obs) bool { return o.res == "f" && bytes.Equal(o.content, snap) }
	show := func(o c18Obs) string {
		if o.res != "f" {
			return o.own + o.res
		}
		return fmt.Sprintf("%d bytes (%s)", len(o.content), c18Token(o.content))
	}
	if !hadSrc {
		// a missing source must fail; (a dangling symlink as the source of MoveFile is simply renamed:
		// there is no content to preserve, the property says nothing)
		if err == nil && before[si].own == "m" {
			return "missing-source-but-ok", fmt.Sprintf("%s of a missing source returned nil", sc.Call)
		}
		return "", ""
	}
	switch sc.Call {
	case "copy":
		if err == nil {
			if !same(dstNow) {
				return "copy-ok-destination-wrong", fmt.Sprintf("CopyFile returned nil but destination holds %s, source held %d bytes (%s)", show(dstNow), len(snap), c18Token(snap))
			}
			if !same(srcNow) {
				return "copy-ok-source-damaged", fmt.Sprintf("CopyFile returned nil but source now holds %s, held %d bytes (%s)", show(srcNow), len(snap), c18Token(snap))
			}
			if n != int64(len(snap)) {
				return "copy-ok-count-wrong", fmt.Sprintf("CopyFile returned n = %d, source has %d bytes", n, len(snap))
			}
		} else if !same(srcNow) {
			return "copy-error-source-damaged", fmt.Sprintf("CopyFile returned %v and the source now holds %s, held %d bytes (%s)", err, show(srcNow), len(snap), c18Token(snap))
		}
	case "move":
		if err == nil {
			if !same(dstNow) {
				return "move-ok-destination-wrong", fmt.Sprintf("MoveFile returned nil but destination holds %s, source held %d bytes (%s)", show(dstNow), len(snap), c18Token(snap))
			}
		} else if !same(srcNow) {
			return "move-error-source-lost", fmt.Sprintf("MoveFile returned %v and the source now is %s, held %d bytes (%s)", err, show(srcNow), len(snap), c18Token(snap))
		}
		if srcNow.own == "m" && !same(dstNow) {
			return "move-source-removed-before-destination-complete", fmt.Sprintf("source name is gone, destination holds %s", show(dstNow))
		}
	}
	return "", ""
}

// ---- scenario generators -----------------------------------------------------------------------

func c18F(id, ino, dev int) c18Name    { return c18Name{ID: id, Kind: "f", Ino: ino, Dev: dev} }
func c18L(id, target, dev int) c18Name { return c18Name{ID: id, Kind: "l", Target: target, Dev: dev} }
func c18K(id int, kind string, dev int) c18Name {
	return c18Name{ID: id, Kind: kind, Dev: dev}
}

// the matrix DESIGN.md §4 C18 lists; name 0 = source (inode 0, `size` bytes), name 1 = destination
func c18Matrix(sizes []int, cross bool, thorough bool) []c18Scenario {
	var out []c18Scenario
	add := func(label, call string, size int, names ...c18Name) *c18Scenario {
		sc := c18Scenario{Label: label, Call: call, Src: 0, Dst: 1, Names: names, Sizes: map[int]int{0: size, 1: 7, 2: 300}}
		out = append(out, sc)
		return &out[len(out)-1]
	}
	for _, size := range sizes {
		for _, call := range []string{"copy", "move"} {
			devs := []int{0}
			if cross {
				devs = []int{0, 1}
			}
			for _, dd := range devs {
				x := ""
				if dd == 1 {
					x = "/cross-device"
				}
				add("dst-missing"+x, call, size, c18F(0, 0, 0), c18K(1, "m", dd))
				add("dst-existing"+x, call, size, c18F(0, 0, 0), c18F(1, 1, dd))
				add("dst-existing-with-second-link"+x, call, size, c18F(0, 0, 0), c18F(1, 1, dd), c18F(2, 1, dd))
				add("dst-symlink-to-src"+x, call, size, c18F(0, 0, 0), c18L(1, 0, dd))
				add("dst-symlink-chain-to-src"+x, call, size, c18F(0, 0, 0), c18L(1, 2, dd), c18L(2, 0, dd))
				add("dst-symlink-to-hardlink-of-src"+x, call, size, c18F(0, 0, 0), c18L(1, 2, dd), c18F(2, 0, 0))
				add("dst-symlink-to-other"+x, call, size, c18F(0, 0, 0), c18L(1, 2, dd), c18F(2, 2, dd))
				add("dst-dangling-symlink"+x, call, size, c18F(0, 0, 0), c18L(1, 2, dd), c18K(2, "m", dd))
				add("dst-symlink-loop"+x, call, size, c18F(0, 0, 0), c18L(1, 2, dd), c18L(2, 1, dd))
				add("dst-directory"+x, call, size, c18F(0, 0, 0), c18K(1, "d", dd))
				add("dst-symlink-to-directory"+x, call, size, c18F(0, 0, 0), c18L(1, 2, dd), c18K(2, "d", dd))
				add("dst-parent-missing"+x, call, size, c18F(0, 0, 0), c18K(1, "n", dd))
				add("dst-parent-regular-file"+x, call, size, c18F(0, 0, 0), c18K(1, "t", dd))
				add("src-missing,dst-missing"+x, call, size, c18K(0, "m", 0), c18K(1, "m", dd))
				add("src-missing,dst-existing"+x, call, size, c18K(0, "m", 0), c18F(1, 1, dd))
				add("src-parent-missing"+x, call, size, c18K(0, "n", 0), c18K(1, "m", dd))
				add("src-is-symlink-to-file,dst-missing"+x, call, size, c18L(0, 2, 0), c18K(1, "m", dd), c18F(2, 0, 0))
				add("src-is-symlink-to-file,dst-existing"+x, call, size, c18L(0, 2, 0), c18F(1, 1, dd), c18F(2, 0, 0))
				add("src-is-symlink-chain,dst-symlink-to-other"+x, call, size, c18L(0, 2, 0), c18L(1, 4, dd), c18L(2, 3, 0), c18F(3, 0, 0), c18F(4, 1, dd))
				add("src-has-second-link,dst-missing"+x, call, size, c18F(0, 0, 0), c18K(1, "m", dd), c18F(2, 0, 0))
			}
			// same device only: aliases through the name space
			add("dst-same-path", call, size, c18F(0, 0, 0)).Dst = 0
			sc := add("dst-dot-slash-spelling", call, size, c18F(0, 0, 0))
			sc.Dst, sc.DotSlash = 0, true
			add("dst-hardlink-of-src", call, size, c18F(0, 0, 0), c18F(1, 0, 0))
			add("dst-hardlink-of-src,third-link", call, size, c18F(0, 0, 0), c18F(1, 0, 0), c18F(2, 0, 0))
		}
		// the source name is a symbolic link (chain) to the destination: F9, repaired by cf1ff93
		for _, call := range []string{"copy", "move"} {
			add("src-is-symlink-to-dst", call, size, c18L(0, 1, 0), c18F(1, 0, 0))
			add("src-is-symlink-chain-to-dst", call, size, c18L(0, 2, 0), c18F(1, 0, 0), c18L(2, 1, 0))
			add("src-and-dst-symlinks-to-same-file", call, size, c18L(0, 2, 0), c18L(1, 2, 0), c18F(2, 0, 0))
			add("src-is-symlink-to-hardlink-of-dst", call, size, c18L(0, 2, 0), c18F(1, 0, 0), c18F(2, 0, 0))
		}
	}
	if thorough {
		// symlink chains at the kernel's limit of 40 followed links
		for _, hops := range []int{39, 40, 41} {
			for _, call := range []string{"copy", "move"} {
				names := []c18Name{c18F(0, 0, 0)}
				// name 1 -> 2 -> ... -> hops -> 0
				for h := 1; h <= hops; h++ {
					t := h + 1
					if h == hops {
						t = 0
					}
					names = append(names, c18L(h, t, 0))
				}
				add(fmt.Sprintf("dst-symlink-chain-%d-hops-to-src", hops), call, 1000, names...)
			}
		}
	}
	return out
}

// random small file systems: up to 7 names of every kind, random call
func c18Random(r *Rng, cross bool) c18Scenario {
	nNames := 2 + r.Intn(6)
	sc := c18Scenario{Label: "random", Sizes: map[int]int{}}
	nInos := 1 + r.Intn(3)
	for i := 0; i < nInos; i++ {
		sc.Sizes[i] = Pick(r, []int{0, 1, 2, 100, 4096, 70000})
	}
	inoDev := map[int]int{}
	for id := 0; id < nNames; id++ {
		dev := 0
		if cross && r.Chance(35) {
			dev = 1
		}
		switch c := r.Intn(100); {
		case c < 40:
			ino := r.Intn(nInos)
			if d, ok := inoDev[ino]; ok {
				dev = d // hard links stay on the inode's device
			} else {
				inoDev[ino] = dev
			}
			sc.Names = append(sc.Names, c18F(id, ino, dev))
		case c < 65:
			sc.Names = append(sc.Names, c18L(id, r.Intn(nNames), dev))
		case c < 75:
			sc.Names = append(sc.Names, c18K(id, "d", dev))
		case c < 90:
			sc.Names = append(sc.Names, c18K(id, "m", dev))
		case c < 95:
			sc.Names = append(sc.Names, c18K(id, "n", dev))
		default:
			sc.Names = append(sc.Names, c18K(id, "t", dev))
		}
	}
	sc.Call = Pick(r, []string{"copy", "move"})
	// source: regular-file entries, missing names, symlinks that do not end at a directory; a
	// directory source is outside the property and the model (rename/rmdir of directories are
	// not modelled); a dangling/looping symlink source has no content to preserve, MoveFile
	// renames the link itself (modelled)
	var cands []int
	for _, n := range sc.Names {
		switch {
		case n.Kind == "f", n.Kind == "m", n.Kind == "n", n.Kind == "t":
			cands = append(cands, n.ID)
		case n.Kind == "l" && !c18ReachesDir(&sc, n.ID):
			cands = append(cands, n.ID)
		}
	}
	if len(cands) == 0 {
		sc.Names[0] = c18F(0, 0, 0)
		cands = []int{0}
	}
	// prefer existing files as sources
	sc.Src = Pick(r, cands)
	for try := 0; try < 3 && sc.Names[sc.Src].Kind != "f"; try++ {
		sc.Src = Pick(r, cands)
	}
	sc.Dst = r.Intn(nNames)
	if sc.Dst == sc.Src && r.Chance(50) {
		sc.DotSlash = true
	}
	return sc
}

// c18ReachesDir: following symlinks from id ends at a directory (copying *from* a directory is
// outside the property; os.Open succeeds on it and the copy fails after Create)
func c18ReachesDir(sc *c18Scenario, id int) bool {
	for hops := 0; hops < 50; hops++ {
		if id >= len(sc.Names) {
			return false
		}
		n := sc.Names[id]
		switch n.Kind {
		case "d":
			return true
		case "l":
			id = n.Target
		default:
			return false
		}
	}
	return false
}

func runFiles(cfg Cfg) {
	s := NewStream(cfg.Out, "files")
	defer s.Close()
	s.Rule = "scenario matrix on the real kernel (sizes 0/1/4KiB/1MiB/1MiB+3[/5MiB/4MiB+1/2MiB+4098]; dst missing, existing, same path, ./ spelling, symlink (chain) to src, hard link of src, symlink to other/dangling/loop, directory, parent missing, parent a regular file; src missing; CopyFile and MoveFile on one file system and across /dev/shm incl. cross-device symlink back to src) + random small file systems; non-trivial = destination aliases the source's inode, or MoveFile falls back to copy+remove, or the call fails after the source was opened (distinct by label|size|outcome)"
	rng := NewRng(cfg.Seed)

	w := &c18World{}
	w.roots[0] = filepath.Join(cfg.Out, "scratch")
	if err := os.MkdirAll(w.roots[0], 0o755); err != nil {
		fatal(err)
	}
	defer os.RemoveAll(w.roots[0])
	if d, err := os.MkdirTemp("/dev/shm", "glb-verif-c18-"); err == nil {
		w.roots[1] = d
		defer os.RemoveAll(d)
		a, errA := os.Stat(w.roots[0])
		b, errB := os.Stat(d)
		if errA == nil && errB == nil {
			w.cross = a.Sys().(*syscall.Stat_t).Dev != b.Sys().(*syscall.Stat_t).Dev
		}
	}
	if !w.cross {
		s.Notes = append(s.Notes, "no second device available (/dev/shm missing or same device): cross-device scenarios skipped")
		s.Count("cross-device.unavailable")
	}

	sizes := []int{0, 1, 4096, 1 << 20, 1<<20 + 3}
	if cfg.Thorough() {
		sizes = append(sizes, 5<<20, 4<<20+1, 2<<20+4098)
	}
	scenarios := c18Matrix(sizes, w.cross, cfg.Thorough())
	nMatrix := len(scenarios)
	for i := 0; i < cfg.N(600, 6000); i++ {
		scenarios = append(scenarios, c18Random(rng.Fork(), w.cross))
	}
	s.Exhaustive = true // the listed matrix is run completely in both tiers

	for idx := range scenarios {
		sc := &scenarios[idx]
		contents := map[int][]byte{}
		for ino, size := range sc.Sizes {
			b := make([]byte, size)
			if size > 0 {
				blk := rng.Bytes(min(size, 4096))
				for off := 0; off < size; off += len(blk) {
					copy(b[off:], blk)
					if off/len(blk)%2 == 1 && off < size {
						b[off] ^= byte(off >> 12) // blocks differ, so partial copies are visible
					}
				}
				b[0] = byte(ino + 1)
				for k := 1; k <= 4 && k < size; k++ {
					b[size-k] |= 0x40 // a non-zero tail, so an uncopied last word is visible
				}
				// sparse-looking contents: a zero tail (last block(s) all zero), or zero everywhere but byte 0
				switch (idx + ino) % 5 {
				case 1:
					for off := size - min(size-1, 8192); off < size; off++ {
						b[off] = 0
					}
				case 3:
					for off := 1; off < size; off++ {
						b[off] = 0
					}
				}
			}
			contents[ino] = b
		}
		dirs, err := w.build(sc, contents)
		cleanup := func() {
			for _, d := range dirs {
				os.RemoveAll(d)
			}
		}
		if err != nil {
			cleanup()
			fatal(fmt.Errorf("building scenario %q: %w", sc.Label, err))
		}
		before := c18Observe(sc)
		srcPath := sc.Names[sc.idx(sc.Src)].path
		dstPath := sc.Names[sc.idx(sc.Dst)].path
		if sc.DotSlash {
			dstPath = filepath.Dir(dstPath) + "/./" + filepath.Base(dstPath)
		}
		var n int64
		var callErr error
		switch sc.Call {
		case "copy":
			n, callErr = osutil.CopyFile(srcPath, dstPath)
		case "move":
			callErr = osutil.MoveFile(srcPath, dstPath)
		}
		after := c18Observe(sc)
		class := c18ErrClass(callErr)
		s.Line(sc.opLine(contents), class+" "+c18Describe(sc, after))
		s.Evaluations++
		s.Traces++

		kind, detail := c18Oracle(sc, before, after, n, callErr)
		size := sc.Sizes[0]
		if idx < nMatrix {
			s.Count("matrix." + sc.Call + "." + class)
		} else {
			s.Count("random." + sc.Call + "." + class)
		}
		if kind != "" {
			s.Violate(kind, detail+" | scenario "+sc.Label, map[string]any{"scenario": sc, "op": sc.opLine(contents),
				"observed": class + " " + c18Describe(sc, after), "before": c18Describe(sc, before)})
		}
		// statistics: the non-trivial branches
		si, di := sc.idx(sc.Src), sc.idx(sc.Dst)
		alias := before[si].res == "f" && before[di].res == "f" && os.SameFile(before[si].info, before[di].info)
		fallback := sc.Call == "move" && before[si].own != "m" && !alias && (sc.Names[si].Dev != sc.Names[di].Dev || before[di].own == "d")
		if alias {
			s.Count("branch.destination-aliases-source")
		}
		if fallback {
			s.Count("branch.move-falls-back-to-copy")
		}
		if alias || fallback || (callErr != nil && before[si].res == "f") {
			s.Nontrivial(fmt.Sprintf("%s|%s|%d|%s|%s", sc.Label, sc.Call, size, class, c18Describe(sc, after)))
		}
		if idx%53 == 0 {
			s.Sample(map[string]any{"label": sc.Label, "op": sc.opLine(contents), "result": class + " " + c18Describe(sc, after)})
		}
		cleanup()
		if len(s.Violations) >= 10 {
			break
		}
	}
	s.Count(fmt.Sprintf("scenarios.matrix=%d", nMatrix))
}
