package main

// Stream `derive` (C03 — derived loggers are isolated).
//
// The REAL handlers (JsonHandler, TextHandler, NanoHandler) and the REAL Logger wrapper are driven
// through random derivation trees. Two modes:
//
//   - sequential histories: derive / log operations on different nodes interleaved in random order
//     (depth ≤ 5, fan-out ≤ 4, always a non-root parent with spare capacity in its preformatted
//     buffer and ≥ 2 children);
//   - concurrent rounds: several goroutines derive from one shared parent (and from what they
//     derived) and log through shared and own nodes at the same time.
//
// Direct oracle: every line a logger writes equals the line written by a logger built ALONE from a
// fresh root handler by replaying just that logger's own chain (fixed time: Handler.Handle with a
// constructed slog.Record; through Logger.Log the time field is cut out of both lines), and
// `h.WithAttrs(as)` then `Handle(r)` equals `h.Handle(r with as prepended)` byte for byte.
//
// Correspondence with Glb/Model/DeriveSlices.lean: the model is told which bytes each derivation
// appended (difference between the child's and the parent's line for an empty record, measured
// when the child is created) and how the record's own attributes render (measured on the isolated
// replay); it predicts every line as header ++ own chain's chunks ++ record ++ closers on its
// explicit heap (Go growth sequence, clip flags from the source).

import (
	"bytes"
	"context"
	"fmt"
	"hash/fnv"
	"log/slog"
	"sort"
	"strings"
	"sync"
	"time"

	"github.com/whoisnian/glb/logger"
)

func init() { streams["derive"] = runDerive }

// ---- capture writer ---------------------------------------------------------------------------

type drvCapWriter struct {
	mu    sync.Mutex
	lines [][]byte
}

func (w *drvCapWriter) Write(p []byte) (int, error) {
	w.mu.Lock()
	w.lines = append(w.lines, append([]byte(nil), p...))
	w.mu.Unlock()
	return len(p), nil
}

// take returns everything written since the last take (concatenated) and the number of Writes.
func (w *drvCapWriter) take() ([]byte, int) {
	w.mu.Lock()
	defer w.mu.Unlock()
	var out []byte
	for _, l := range w.lines {
		out = append(out, l...)
	}
	n := len(w.lines)
	w.lines = nil
	return out, n
}

// ---- attribute specs (serialisable, so that histories replay and shrink) --------------------------

type drvAttrSpec struct {
	K string        `json:"k"`
	T string        `json:"t"` // s string | i int | b bool | g group | v LogValuer resolving to a group
	S string        `json:"s,omitempty"`
	I int64         `json:"i,omitempty"`
	G []drvAttrSpec `json:"g,omitempty"`
}

type drvGroupValuer struct{ as []slog.Attr }

func (g drvGroupValuer) LogValue() slog.Value { return slog.GroupValue(g.as...) }

func (a drvAttrSpec) build() slog.Attr {
	switch a.T {
	case "s":
		return slog.String(a.K, a.S)
	case "i":
		return slog.Int64(a.K, a.I)
	case "b":
		return slog.Bool(a.K, a.I != 0)
	case "g":
		return slog.Attr{Key: a.K, Value: slog.GroupValue(drvBuildAttrs(a.G)...)}
	default: // "v"
		return slog.Any(a.K, drvGroupValuer{drvBuildAttrs(a.G)})
	}
}

func drvBuildAttrs(as []drvAttrSpec) []slog.Attr {
	out := make([]slog.Attr, len(as))
	for i, a := range as {
		out[i] = a.build()
	}
	return out
}

// drvForRecord wraps top-level empty groups in a LogValuer: slog.Record.AddAttrs drops empty groups
// before any repo code runs (DESIGN §8.1/§8.2), a LogValuer resolving to one reaches the handler.
func drvForRecord(as []slog.Attr) []slog.Attr {
	out := make([]slog.Attr, len(as))
	for i, a := range as {
		if a.Value.Kind() == slog.KindGroup && len(a.Value.Group()) == 0 {
			a = slog.Any(a.Key, drvGroupValuer{nil})
		}
		out[i] = a
	}
	return out
}

var deriveKeys = []string{"k", "a", "id", "user", "a.b", "with space", "q\"t", "", "ключ", "n\nl", "x=y"}

const deriveAlphabet = "abcdefghijklmnopqrstuvwxy0123456789 _-./:=\"\\{}[],"

func drvGenString(r *Rng) string {
	var n int
	switch r.Intn(10) {
	case 0:
		n = 0
	case 1, 2, 3:
		n = 1 + r.Intn(4)
	case 4, 5, 6, 7:
		n = 5 + r.Intn(40)
	case 8:
		n = 60 + r.Intn(200)
	default:
		n = 300 + r.Intn(1500)
		if r.Chance(15) {
			n = 2000 + r.Intn(15000) // around and beyond what the handlers' buffer pools keep (16 KiB)
		}
	}
	b := make([]byte, n)
	for i := range b {
		b[i] = deriveAlphabet[r.Intn(len(deriveAlphabet))]
	}
	return string(b)
}

func drvGenAttr(r *Rng, depth int, s *Stream) drvAttrSpec {
	k := Pick(r, deriveKeys)
	c := r.Intn(100)
	switch {
	case c < 35:
		s.Count("attr.string")
		return drvAttrSpec{K: k, T: "s", S: drvGenString(r)}
	case c < 60:
		s.Count("attr.int")
		return drvAttrSpec{K: k, T: "i", I: int64(r.U64()) >> uint(r.Intn(64))}
	case c < 65:
		s.Count("attr.bool")
		return drvAttrSpec{K: k, T: "b", I: int64(r.Intn(2))}
	}
	t := "g"
	if r.Chance(25) {
		t = "v"
	}
	if r.Chance(35) {
		k = "" // inline group
	}
	n := 0
	if depth < 3 && !r.Chance(25) {
		n = 1 + r.Intn(3)
	}
	g := make([]drvAttrSpec, n)
	for i := range g {
		g[i] = drvGenAttr(r, depth+1, s)
	}
	switch {
	case n == 0 && k == "":
		s.Count("attr.group.empty-inline")
	case n == 0:
		s.Count("attr.group.empty-keyed")
	case k == "":
		s.Count("attr.group.inline")
	default:
		s.Count("attr.group.keyed")
	}
	return drvAttrSpec{K: k, T: t, G: g}
}

func drvGenAttrs(r *Rng, lo, hi int, s *Stream) []drvAttrSpec {
	n := lo + r.Intn(hi-lo+1)
	out := make([]drvAttrSpec, n)
	for i := range out {
		out[i] = drvGenAttr(r, 0, s)
	}
	return out
}

// ---- handlers -------------------------------------------------------------------------------

var deriveKinds = []string{"json", "text", "nano"}

var deriveTime = time.Date(2024, 1, 2, 3, 4, 5, 678901234, time.UTC)

func drvNewRootHandler(kind string, w *drvCapWriter, colorful bool) logger.Handler {
	opts := logger.NewOptions(logger.LevelDebug, colorful, false)
	switch kind {
	case "json":
		return logger.NewJsonHandler(w, opts)
	case "text":
		return logger.NewTextHandler(w, opts)
	}
	return logger.NewNanoHandler(w, opts)
}

// one derivation of a chain
type drvChainOp struct {
	Group bool          `json:"group,omitempty"`
	Name  string        `json:"name,omitempty"`
	Attrs []drvAttrSpec `json:"attrs,omitempty"`
}

func drvApplyChain(h logger.Handler, chain []drvChainOp) logger.Handler {
	for _, c := range chain {
		if c.Group {
			h = h.WithGroup(c.Name)
		} else {
			h = h.WithAttrs(drvBuildAttrs(c.Attrs))
		}
	}
	return h
}

type drvRecSpec struct {
	Level int           `json:"level"`
	Msg   string        `json:"msg"`
	Attrs []drvAttrSpec `json:"attrs,omitempty"`
}

func (rs drvRecSpec) record(withAttrs bool) slog.Record {
	r := slog.NewRecord(deriveTime, slog.Level(rs.Level), rs.Msg, 0)
	if withAttrs {
		r.AddAttrs(drvBuildAttrs(rs.Attrs)...)
	}
	return r
}

// drvHandleLine calls Handle once and returns what reached the writer.
func drvHandleLine(h logger.Handler, w *drvCapWriter, r slog.Record) ([]byte, int) {
	w.take()
	h.Handle(context.Background(), r)
	return w.take()
}

// drvAloneLine: a logger built ALONE from a fresh root by replaying just this chain.
func drvAloneLine(kind string, colorful bool, chain []drvChainOp, r slog.Record) []byte {
	w := &drvCapWriter{}
	h := drvApplyChain(drvNewRootHandler(kind, w, colorful), chain)
	line, _ := drvHandleLine(h, w, r)
	return line
}

func drvClosersLen(kind string, chain []drvChainOp) int {
	if kind != "json" {
		return 1
	}
	n := 2
	for _, c := range chain {
		if c.Group {
			n++
		}
	}
	return n
}

// shapeOf computes the model's shape string from the chain and the measured chunks.
type drvShapeTrack struct {
	kind   string
	nOpen  int
	addSep bool
	prefix string
	preLen int
}

func drvRootTrack(kind string) drvShapeTrack { return drvShapeTrack{kind: kind, addSep: true} }

func (t drvShapeTrack) String() string {
	switch t.kind {
	case "json":
		return fmt.Sprintf("json:%d:%v", t.nOpen, t.addSep)
	case "text":
		return "text:" + hxs(t.prefix)
	}
	return "nano"
}

func (t drvShapeTrack) after(c drvChainOp, chunk []byte) drvShapeTrack {
	t.preLen += len(chunk)
	if c.Group {
		switch t.kind {
		case "json":
			t.nOpen++
			t.addSep = false
		case "text":
			if t.prefix == "" {
				t.prefix = c.Name
			} else {
				t.prefix = t.prefix + "." + c.Name
			}
		}
		return t
	}
	if t.kind == "json" && len(chunk) > 0 {
		t.addSep = true
	}
	return t
}

// drvStripTime cuts the time value out of a line (Logger.Log stamps time.Now()).
func drvStripTime(kind string, line []byte) ([]byte, bool) {
	switch kind {
	case "json":
		const p = `{"time":"`
		if !bytes.HasPrefix(line, []byte(p)) {
			return nil, false
		}
		i := bytes.IndexByte(line[len(p):], '"')
		if i < 0 {
			return nil, false
		}
		return append([]byte(p), line[len(p)+i:]...), true
	case "text":
		if !bytes.HasPrefix(line, []byte("time=")) {
			return nil, false
		}
		i := bytes.IndexByte(line, ' ')
		if i < 0 {
			return nil, false
		}
		return append([]byte("time="), line[i:]...), true
	}
	if len(line) < 19 {
		return nil, false
	}
	return line[19:], true
}

var drvGoSizeClasses = map[int]bool{}

func init() {
	for _, c := range []int{0, 8, 16, 24, 32, 48, 64, 80, 96, 112, 128, 144, 160, 176, 192, 208, 224, 240, 256, 288, 320, 352,
		384, 416, 448, 480, 512, 576, 640, 704, 768, 896, 1024, 1152, 1280, 1408, 1536, 1792, 2048, 2304,
		2688, 3072, 3200, 3456, 4096, 4864, 5120, 5376, 6144, 6528, 6784, 6912, 8192, 9472, 9728, 10240,
		10880, 12288, 13568, 14336, 16384, 18432, 19072, 20480, 21760, 24576, 27264, 28672, 32768} {
		drvGoSizeClasses[c] = true
	}
}

// drvHasSpare: the capacity of a grown []byte is always a malloc size class (or a page multiple), so
// a length that is not one proves cap > len.
func drvHasSpare(preLen int) bool {
	return preLen > 0 && !drvGoSizeClasses[preLen] && !(preLen > 32768 && preLen%8192 == 0)
}

// ---- histories --------------------------------------------------------------------------------

type drvOp struct {
	Op     string        `json:"op"` // attrs | group | log
	Node   int           `json:"node"`
	New    int           `json:"new,omitempty"` // label of the node a derivation creates
	Attrs  []drvAttrSpec `json:"attrs,omitempty"`
	Name   string        `json:"name,omitempty"`
	Rec    *drvRecSpec   `json:"rec,omitempty"`
	ViaLog bool          `json:"via_logger,omitempty"` // log through Logger.Log instead of Handler.Handle
}

type drvNode struct {
	label    int
	parent   int
	chain    []drvChainOp
	h        logger.Handler
	lg       *logger.Logger // parallel tree built with Logger.With / Logger.WithGroup (nil: not expressible)
	track    drvShapeTrack
	depth    int
	children int
	born     int // index of the op that created it
	lastSib  int // index of the latest op that derived a sibling (same parent)
}

type deriveFailure struct {
	kind   string
	detail string
	at     int
}

type deriveHistory struct {
	Kind     string  `json:"kind"`
	Colorful bool    `json:"colorful"`
	Ops      []drvOp `json:"ops"`
}

// drvExecHistory runs a history on the real code. Operations naming an unknown label are skipped (so
// that shrinking may delete any subset). emit (optional) receives the op / impl line pairs.
func drvExecHistory(hist deriveHistory, s *Stream, emit bool) *deriveFailure {
	kind, colorful := hist.Kind, hist.Colorful
	w := &drvCapWriter{}
	rootH := drvNewRootHandler(kind, w, colorful)
	nodes := map[int]*drvNode{0: {label: 0, parent: -1, h: rootH, lg: logger.New(rootH), track: drvRootTrack(kind)}}
	modelID := map[int]int{0: 0} // label → handle number in the model
	nextModel := 1
	empty := drvRecSpec{Level: int(logger.LevelInfo)}
	var fail *deriveFailure
	failf := func(at int, k, format string, a ...any) {
		if fail == nil {
			fail = &deriveFailure{k, fmt.Sprintf(format, a...), at}
		}
	}
	line := func(op, impl string) {
		if emit {
			s.Line(op, impl)
		}
	}
	line("root "+kind, "0")
	for idx, op := range hist.Ops {
		p, ok := nodes[op.Node]
		if !ok {
			continue
		}
		switch op.Op {
		case "attrs", "group":
			if _, dup := nodes[op.New]; dup {
				continue
			}
			c := drvChainOp{Group: op.Op == "group", Name: op.Name, Attrs: op.Attrs}
			n := &drvNode{label: op.New, parent: p.label, depth: p.depth + 1, born: idx,
				chain: append(append([]drvChainOp{}, p.chain...), c)}
			// the parent's line before and after: the derivation must not change it
			before, _ := drvHandleLine(p.h, w, empty.record(false))
			if c.Group {
				n.h = p.h.WithGroup(c.Name)
				if p.lg != nil && c.Name != "" {
					n.lg = p.lg.WithGroup(c.Name)
				}
			} else {
				as := drvBuildAttrs(c.Attrs)
				n.h = p.h.WithAttrs(as)
				if p.lg != nil {
					var args []any
					if idx%2 == 0 {
						for _, a := range as { // the "key, value" spelling of the same attributes
							args = append(args, a.Key, a.Value)
						}
					} else {
						for _, a := range as {
							args = append(args, a)
						}
					}
					if idx%3 == 0 {
						_ = p.lg.With(args...) // an earlier derivation from the very same argument slice
					}
					n.lg = p.lg.With(args...)
				}
			}
			after, _ := drvHandleLine(p.h, w, empty.record(false))
			if !bytes.Equal(before, after) {
				failf(idx, "derive-changed-parent", "deriving from node %d changed its line for the empty record: %q -> %q", p.label, before, after)
			}
			child, _ := drvHandleLine(n.h, w, empty.record(false))
			pc, cc := drvClosersLen(kind, p.chain), drvClosersLen(kind, n.chain)
			var chunk []byte
			if len(before) < pc || len(child) < cc || !bytes.HasPrefix(child[:len(child)-cc], before[:len(before)-pc]) {
				failf(idx, "child-not-extension", "child line %q does not extend parent line %q", child, before)
			} else {
				chunk = child[len(before)-pc : len(child)-cc]
			}
			n.track = p.track.after(c, chunk)
			nodes[n.label] = n
			p.children++
			for _, sib := range nodes {
				if sib.parent == p.label && sib != n {
					sib.lastSib = idx
				}
			}
			modelID[n.label] = nextModel
			nextModel++
			if s != nil && emit {
				s.Count(fmt.Sprintf("derive.%s.depth%d", op.Op, n.depth))
				if p.label != 0 && drvHasSpare(p.track.preLen) {
					s.Count("derive.from-nonroot-parent-with-spare-capacity")
				}
			}
			if c.Group {
				arg := chunk
				if kind == "text" {
					arg = []byte(c.Name)
				}
				line(fmt.Sprintf("group %d %s", modelID[p.label], hx(arg)), fmt.Sprintf("%d len=%d %s", modelID[n.label], n.track.preLen, n.track))
			} else if len(c.Attrs) == 0 {
				line(fmt.Sprintf("attrs %d", modelID[p.label]), fmt.Sprintf("%d len=%d %s", modelID[n.label], n.track.preLen, n.track))
			} else {
				wrote := 0
				if len(chunk) > 0 {
					wrote = 1
				}
				line(fmt.Sprintf("attrs %d %s %d", modelID[p.label], hx(chunk), wrote), fmt.Sprintf("%d len=%d %s", modelID[n.label], n.track.preLen, n.track))
			}
			// with_is_prepend at the handler boundary
			if !c.Group && op.Rec != nil {
				r1 := op.Rec.record(true)
				got, _ := drvHandleLine(n.h, w, r1)
				r2 := op.Rec.record(false)
				r2.AddAttrs(drvForRecord(drvBuildAttrs(c.Attrs))...)
				r2.AddAttrs(drvBuildAttrs(op.Rec.Attrs)...)
				want, _ := drvHandleLine(p.h, w, r2)
				if s != nil && emit {
					s.Evaluations++
					s.Count("with-is-prepend")
				}
				if !bytes.Equal(got, want) {
					failf(idx, "with-is-prepend", "WithAttrs(as).Handle(r) = %q but Handle(r with as prepended) = %q", got, want)
				}
			}
		case "log":
			if op.Rec == nil {
				continue
			}
			r := op.Rec.record(true)
			want := drvAloneLine(kind, colorful, p.chain, r)
			var got []byte
			var nw int
			if op.ViaLog && p.lg != nil {
				w.take()
				args := make([]any, len(op.Rec.Attrs))
				for i, a := range drvBuildAttrs(op.Rec.Attrs) {
					args[i] = a
				}
				p.lg.Log(context.Background(), slog.Level(op.Rec.Level), op.Rec.Msg, args...)
				got, nw = w.take()
				g2, ok1 := drvStripTime(kind, got)
				w2, ok2 := drvStripTime(kind, want)
				if !ok1 || !ok2 || !bytes.Equal(g2, w2) {
					failf(idx, "isolation", "node %d through Logger.Log wrote %q, a logger built alone from its chain writes %q (time fields ignored)", p.label, got, want)
				}
				if s != nil && emit {
					s.Count("log.via-logger")
				}
			} else {
				got, nw = drvHandleLine(p.h, w, r)
				if !bytes.Equal(got, want) {
					failf(idx, "isolation", "node %d wrote %q, a logger built alone from its chain writes %q", p.label, got, want)
				}
				// model side: header and record part measured on isolated loggers
				rootLine := drvAloneLine(kind, colorful, nil, op.Rec.record(false))
				alone0 := drvAloneLine(kind, colorful, p.chain, op.Rec.record(false))
				cl := drvClosersLen(kind, p.chain)
				hd := rootLine[:len(rootLine)-drvClosersLen(kind, nil)]
				if len(alone0) >= cl && len(want) >= len(alone0) {
					rec := want[len(alone0)-cl : len(want)-cl]
					wrote := 0
					if len(rec) > 0 {
						wrote = 1
					}
					line(fmt.Sprintf("log %d %s %s %d", modelID[p.label], hx(hd), hx(rec), wrote), hx(got))
				}
				if s != nil && emit {
					s.Count("log.via-handler")
				}
			}
			if nw != 1 {
				failf(idx, "isolation", "node %d: one record caused %d Write calls", p.label, nw)
			}
			if s != nil && emit {
				s.Evaluations++
				s.Count(fmt.Sprintf("log.%s.depth%d", kind, p.depth))
				par := nodes[p.parent]
				if par != nil && par.label != 0 && par.children >= 2 && drvHasSpare(par.track.preLen) && p.lastSib > p.born {
					s.Nontrivial(drvLineKey(kind, got))
				}
			}
		}
	}
	return fail
}

func deriveHistoryFails(hist deriveHistory) func([]drvOp) bool {
	return func(ops []drvOp) bool {
		h := hist
		h.Ops = ops
		return drvExecHistory(h, nil, false) != nil
	}
}

// drvShrinkAttrs minimises the attribute lists and string values of an already op-minimal history.
func drvShrinkAttrs(hist deriveHistory) deriveHistory {
	fails := func(h deriveHistory) bool { return drvExecHistory(h, nil, false) != nil }
	clone := func(h deriveHistory) deriveHistory {
		c := h
		c.Ops = make([]drvOp, len(h.Ops))
		for i, o := range h.Ops {
			c.Ops[i] = o
			c.Ops[i].Attrs = append([]drvAttrSpec{}, o.Attrs...)
			if o.Rec != nil {
				r := *o.Rec
				r.Attrs = append([]drvAttrSpec{}, o.Rec.Attrs...)
				c.Ops[i].Rec = &r
			}
		}
		return c
	}
	lists := func(h *deriveHistory, i int) []*[]drvAttrSpec {
		out := []*[]drvAttrSpec{&h.Ops[i].Attrs}
		if h.Ops[i].Rec != nil {
			out = append(out, &h.Ops[i].Rec.Attrs)
		}
		return out
	}
	for budget := 0; budget < 400; budget++ {
		progressed := false
		for i := range hist.Ops {
			for li := range lists(&hist, i) {
				cur := *lists(&hist, i)[li]
				for j := range cur {
					// drop attribute j
					if !(hist.Ops[i].Op != "log" && li == 0 && len(cur) == 1) {
						c := clone(hist)
						l := lists(&c, i)[li]
						*l = append(append([]drvAttrSpec{}, (*l)[:j]...), (*l)[j+1:]...)
						if fails(c) {
							hist, progressed = c, true
							break
						}
					}
					// shorten a string value / flatten a group
					if cur[j].T == "s" && len(cur[j].S) > 1 {
						c := clone(hist)
						(*lists(&c, i)[li])[j].S = cur[j].S[:len(cur[j].S)/2]
						if fails(c) {
							hist, progressed = c, true
							break
						}
					}
					if (cur[j].T == "g" || cur[j].T == "v") && len(cur[j].G) > 0 {
						c := clone(hist)
						(*lists(&c, i)[li])[j] = drvAttrSpec{K: "k", T: "s", S: "v"}
						if fails(c) {
							hist, progressed = c, true
							break
						}
					}
				}
				if progressed {
					break
				}
			}
			if progressed {
				break
			}
			if hist.Ops[i].Rec != nil && len(hist.Ops[i].Rec.Msg) > 1 {
				c := clone(hist)
				c.Ops[i].Rec.Msg = "m"
				if fails(c) {
					hist, progressed = c, true
					break
				}
			}
		}
		if !progressed {
			break
		}
	}
	return hist
}

// drvGenHistory plans a random derivation tree with interleaved logs.
func drvGenHistory(r *Rng, kind string, nOps int, s *Stream) deriveHistory {
	hist := deriveHistory{Kind: kind, Colorful: r.Chance(20)}
	type plan struct{ depth, children int }
	nodes := []plan{{0, 0}}
	newRec := func() *drvRecSpec {
		lv := []slog.Level{logger.LevelDebug, logger.LevelInfo, logger.LevelWarn, logger.LevelError, logger.LevelFatal}
		msg := ""
		if !r.Chance(15) {
			msg = drvGenString(r)
			if len(msg) > 60 {
				msg = msg[:60]
			}
		}
		return &drvRecSpec{Level: int(Pick(r, lv)), Msg: msg, Attrs: drvGenAttrs(r, 0, 3, s)}
	}
	derive := func(parent int, forceAttrs bool) int {
		op := drvOp{Node: parent, New: len(nodes)}
		if !forceAttrs && r.Chance(25) {
			op.Op = "group"
			op.Name = Pick(r, []string{"g", "grp", "a.b", "with space", "req", "res", "rex", "ключ"}) // (siblings of equal length on purpose)
			if r.Chance(3) {
				op.Name = ""
			}
		} else {
			op.Op = "attrs"
			lo := 1
			if !forceAttrs && r.Chance(4) {
				lo = 0
			}
			op.Attrs = drvGenAttrs(r, lo, 3, s)
			if forceAttrs {
				// make sure the buffer is non-empty whatever the handler elides
				op.Attrs = append(op.Attrs, drvAttrSpec{K: "k", T: "s", S: drvGenString(r)})
			}
			if r.Chance(60) {
				op.Rec = newRec()
			}
		}
		nodes[parent].children++
		nodes = append(nodes, plan{nodes[parent].depth + 1, 0})
		hist.Ops = append(hist.Ops, op)
		return op.New
	}
	logOn := func(n int) {
		hist.Ops = append(hist.Ops, drvOp{Op: "log", Node: n, Rec: newRec(), ViaLog: r.Chance(25)})
	}
	// the history every test misses: a non-root parent carrying attributes, two children, and the
	// first child used after the second one was derived
	a := derive(0, true)
	c1 := derive(a, true)
	logOn(c1)
	c2 := derive(a, true)
	logOn(c1)
	logOn(c2)
	logOn(a)
	if r.Chance(10) {
		// a spine: one long linear chain (9..24 derivations, mostly attributes), every node on it used
		p := c2
		for i, n := 0, 9+r.Intn(16); i < n; i++ {
			p = derive(p, r.Chance(70))
			if r.Chance(40) {
				logOn(p)
			}
		}
		logOn(p)
		logOn(c2)
		s.Count("history.spine")
	}
	for len(hist.Ops) < nOps {
		if r.Chance(45) {
			// candidates: depth < 5, fan-out < 4; prefer non-root nodes that still have < 2 children
			var cand, pref []int
			for i, n := range nodes {
				if n.depth < 5 && n.children < 4 {
					cand = append(cand, i)
					if i != 0 && n.children < 2 {
						pref = append(pref, i)
					}
				}
			}
			if len(cand) == 0 {
				logOn(r.Intn(len(nodes)))
				continue
			}
			p := Pick(r, cand)
			if len(pref) > 0 && r.Chance(60) {
				p = Pick(r, pref)
			}
			derive(p, false)
			if nodes[p].children < 2 && p != 0 {
				derive(p, false) // ≥ 2 children under a non-root parent
			}
		} else {
			logOn(r.Intn(len(nodes)))
		}
	}
	return hist
}

// ---- concurrent rounds ------------------------------------------------------------------------

type drvConcNode struct {
	parent *drvConcNode
	op     drvChainOp
	h      logger.Handler
	lg     *logger.Logger
	chain  []drvChainOp
}

type drvConcLog struct {
	node   *drvConcNode
	rec    drvRecSpec
	viaLog bool
	id     string
}

func drvAttrsAsArgs(as []slog.Attr) []any {
	args := make([]any, len(as))
	for i, a := range as {
		args[i] = a
	}
	return args
}

// deriveConc derives a child (handler and Logger wrapper) from p.
func deriveConc(p *drvConcNode, co drvChainOp) *drvConcNode {
	n := &drvConcNode{parent: p, op: co, chain: append(append([]drvChainOp{}, p.chain...), co)}
	if co.Group {
		n.h, n.lg = p.h.WithGroup(co.Name), p.lg.WithGroup(co.Name)
	} else {
		as := drvBuildAttrs(co.Attrs)
		n.h, n.lg = p.h.WithAttrs(as), p.lg.With(drvAttrsAsArgs(as)...)
	}
	return n
}

func drvConcurrentRound(s *Stream, r *Rng, kind string, round int) {
	colorful := r.Chance(20)
	w := &drvCapWriter{}
	rootH := drvNewRootHandler(kind, w, colorful)
	quiet := &Stream{Dist: map[string]int{}, Distinct: map[string]int{}}
	root := &drvConcNode{h: rootH, lg: logger.New(rootH)}
	// shared parent: 1..3 derivations, the last one with attributes (spare capacity very likely)
	var sharedPath []*drvConcNode
	shared := root
	for i, n := 0, 1+r.Intn(3); i < n; i++ {
		var co drvChainOp
		if i < n-1 && r.Chance(30) {
			co = drvChainOp{Group: true, Name: Pick(r, []string{"g", "req", "a.b"})}
		} else {
			co = drvChainOp{Attrs: append(drvGenAttrs(r, 1, 3, quiet), drvAttrSpec{K: "k", T: "s", S: drvGenString(r)})}
		}
		shared = deriveConc(shared, co)
		sharedPath = append(sharedPath, shared)
	}
	G := 2 + r.Intn(7)
	K := 6 + r.Intn(20)
	rngs := make([]*Rng, G)
	for g := range rngs {
		rngs[g] = r.Fork()
	}
	logs := make([][]drvConcLog, G)
	derived := make([][]*drvConcNode, G)
	var wg sync.WaitGroup
	start := make(chan struct{})
	for g := 0; g < G; g++ {
		wg.Add(1)
		go func(g int) {
			defer wg.Done()
			rg := rngs[g]
			q := &Stream{Dist: map[string]int{}, Distinct: map[string]int{}}
			var own []*drvConcNode
			<-start
			for k := 0; k < K; k++ {
				c := rg.Intn(100)
				switch {
				case c < 50 || len(own) == 0: // derive from the shared parent or from an own node
					p := shared
					if len(own) > 0 && rg.Chance(35) {
						p = Pick(rg, own)
					}
					if len(p.chain) >= 5 {
						p = shared
					}
					var co drvChainOp
					if rg.Chance(20) {
						co = drvChainOp{Group: true, Name: Pick(rg, []string{"g", "sub", "x.y"})}
					} else {
						co = drvChainOp{Attrs: drvGenAttrs(rg, 1, 3, q)}
					}
					own = append(own, deriveConc(p, co))
				default: // log through the shared parent or an own node
					n := shared
					if rg.Chance(70) {
						n = Pick(rg, own)
					}
					id := fmt.Sprintf("IDZ%04dZ%02dZ%03dZ", round, g, k)
					rec := drvRecSpec{Level: int(logger.LevelInfo), Msg: id, Attrs: drvGenAttrs(rg, 0, 2, q)}
					via := rg.Chance(30)
					if via {
						n.lg.Log(context.Background(), slog.Level(rec.Level), rec.Msg, drvAttrsAsArgs(drvBuildAttrs(rec.Attrs))...)
					} else {
						n.h.Handle(context.Background(), rec.record(true))
					}
					logs[g] = append(logs[g], drvConcLog{n, rec, via, id})
				}
			}
			derived[g] = own
		}(g)
	}
	close(start)
	wg.Wait()
	w.mu.Lock()
	captured := w.lines
	w.lines = nil
	w.mu.Unlock()
	const idLen = 15
	byID := map[string][][]byte{}
	for _, l := range captured {
		i := bytes.Index(l, []byte("IDZ"))
		if i < 0 || i+idLen > len(l) {
			byID["?"] = append(byID["?"], l)
			continue
		}
		id := string(l[i : i+idLen])
		byID[id] = append(byID[id], l)
	}
	replay := func() any {
		return map[string]any{"mode": "concurrent", "kind": kind, "round": round, "goroutines": G, "steps": K, "shared_chain": shared.chain}
	}
	if len(byID["?"]) > 0 {
		s.Violate("isolation", fmt.Sprintf("a written line carries no record id: %q", byID["?"][0]), replay())
	}
	// model side: serialise the round (isolation says the order does not matter); the appended
	// chunks are measured on the REAL nodes after the concurrent phase
	s.Line("root "+kind, "0")
	handle := map[*drvConcNode]int{root: 0}
	tracks := map[*drvConcNode]drvShapeTrack{root: drvRootTrack(kind)}
	next := 1
	empty := drvRecSpec{Level: int(logger.LevelInfo)}
	register := func(n *drvConcNode) {
		p := n.parent
		pl, _ := drvHandleLine(p.h, w, empty.record(false))
		cl, _ := drvHandleLine(n.h, w, empty.record(false))
		pc, cc := drvClosersLen(kind, p.chain), drvClosersLen(kind, n.chain)
		var chunk []byte
		if len(cl) >= cc && len(pl) >= pc && bytes.HasPrefix(cl[:len(cl)-cc], pl[:len(pl)-pc]) {
			chunk = cl[len(pl)-pc : len(cl)-cc]
		} else {
			s.Violate("isolation", fmt.Sprintf("after the concurrent phase a derived node's line %q does not extend its parent's line %q", cl, pl), replay())
		}
		t := tracks[p].after(n.op, chunk)
		handle[n], tracks[n] = next, t
		next++
		if n.op.Group {
			arg := chunk
			if kind == "text" {
				arg = []byte(n.op.Name)
			}
			s.Line(fmt.Sprintf("group %d %s", handle[p], hx(arg)), fmt.Sprintf("%d len=%d %s", handle[n], t.preLen, t))
		} else {
			wrote := 0
			if len(chunk) > 0 {
				wrote = 1
			}
			s.Line(fmt.Sprintf("attrs %d %s %d", handle[p], hx(chunk), wrote), fmt.Sprintf("%d len=%d %s", handle[n], t.preLen, t))
		}
	}
	for _, n := range sharedPath {
		register(n)
	}
	for g := 0; g < G; g++ {
		for _, n := range derived[g] { // parents (shared or earlier own nodes) are registered first
			register(n)
		}
	}
	if drvHasSpare(tracks[shared].preLen) {
		s.Count("concurrent.shared-parent-with-spare-capacity")
	}
	for g := 0; g < G; g++ {
		for _, lg := range logs[g] {
			s.Evaluations++
			s.Count("concurrent.log." + kind)
			got := byID[lg.id]
			want := drvAloneLine(kind, colorful, lg.node.chain, lg.rec.record(true))
			if len(got) != 1 {
				s.Violate("isolation", fmt.Sprintf("record %s was written %d times", lg.id, len(got)), replay())
				continue
			}
			a, b, ok1, ok2 := got[0], want, true, true
			if lg.viaLog {
				a, ok1 = drvStripTime(kind, a)
				b, ok2 = drvStripTime(kind, b)
			}
			if !ok1 || !ok2 || !bytes.Equal(a, b) {
				s.Violate("isolation", fmt.Sprintf("concurrent mode: chain of %d derivations wrote %q, a logger built alone from that chain writes %q", len(lg.node.chain), got[0], want), replay())
				continue
			}
			s.Nontrivial(drvLineKey(kind, a))
			if !lg.viaLog {
				rootLine := drvAloneLine(kind, colorful, nil, lg.rec.record(false))
				alone0 := drvAloneLine(kind, colorful, lg.node.chain, lg.rec.record(false))
				cl := drvClosersLen(kind, lg.node.chain)
				if len(alone0) >= cl && len(want) >= len(alone0) {
					hd := rootLine[:len(rootLine)-drvClosersLen(kind, nil)]
					rec := want[len(alone0)-cl : len(want)-cl]
					wrote := 0
					if len(rec) > 0 {
						wrote = 1
					}
					s.Line(fmt.Sprintf("log %d %s %s %d", handle[lg.node], hx(hd), hx(rec), wrote), hx(got[0]))
				}
			}
		}
	}
	s.Count(fmt.Sprintf("concurrent.goroutines.%d", G))
}

func drvLineKey(kind string, line []byte) string {
	h := fnv.New64a()
	h.Write(line)
	return fmt.Sprintf("%s|%d|%016x", kind, len(line), h.Sum64())
}

// ---- the stream -----------------------------------------------------------------------------------

func runDerive(cfg Cfg) {
	s := NewStream(cfg.Out, "derive")
	defer s.Close()
	s.Rule = "random derivation trees over the three real handlers and the Logger wrapper (depth ≤ 5, fan-out ≤ 4; one history in ten with a linear chain of 9..24 further derivations; string values up to 17 KB), derive/log interleaved in random order, plus concurrent rounds (2..8 goroutines deriving from one shared parent and logging); non-trivial = a line logged by a node whose non-root parent has ≥ 2 children and a preformatted length that is not a malloc size class (so cap > len: spare capacity) AFTER a younger sibling was derived from that parent, or any line logged during a concurrent round (distinct by handler kind and line)"
	rng := NewRng(cfg.Seed)
	nHist := cfg.N(1200, 12000)
	for i := 0; i < nHist; i++ {
		r := rng.Fork()
		kind := deriveKinds[i%3]
		hist := drvGenHistory(r, kind, 12+r.Intn(cfg.N(50, 80)), s)
		if f := drvExecHistory(hist, s, true); f != nil {
			ops := hist.Ops[:f.at+1]
			if len(s.Violations) < 3 {
				ops = ddmin(ops, deriveHistoryFails(hist))
				hist.Ops = ops
				hist = drvShrinkAttrs(hist)
				ops = hist.Ops
				if f2 := drvExecHistory(hist, nil, false); f2 != nil {
					f = f2
				}
			}
			hist.Ops = ops
			s.Violate(f.kind, f.detail, hist)
		}
		s.Count("history." + kind)
		if i < 3 {
			s.Sample(map[string]any{"kind": kind, "first_ops": hist.Ops[:min(4, len(hist.Ops))]})
		}
	}
	nConc := cfg.N(150, 3000)
	for i := 0; i < nConc; i++ {
		drvConcurrentRound(s, rng.Fork(), deriveKinds[i%3], i)
	}
	s.Traces = nHist + nConc
	keys := sortedKeys(s.Dist)
	sort.Strings(keys)
	s.Notes = append(s.Notes,
		"top-level empty groups in a slog.Record are dropped by slog itself (Record.AddAttrs); where the comparison needs them in a record (with-is-prepend) they are wrapped in a LogValuer resolving to an empty group",
		"Logger.Log stamps time.Now(): for lines produced through the Logger wrapper the time field is cut out of both lines before comparing",
		"spare capacity is inferred without a hook: cap of a grown []byte is a malloc size class, so len(preformatted) not being one proves cap > len",
		strings.Join([]string{"kinds:", strings.Join(deriveKinds, ",")}, " "))
}
