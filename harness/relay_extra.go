package main

import (
	"fmt"
	"log/slog"
	"net/http"
	"net/http/httptest"
	"strings"

	"github.com/whoisnian/glb/httpd"
	"github.com/whoisnian/glb/logger"
)

// Direct-oracle extras of the relay stream (C15), without a model side: request shapes whose log has more than
// one BEG/END pair or whose handler is not an httpd.HandlerFunc of the harness.
//
//   - nested dispatch: a handler re-dispatches through the same Mux with its own store.W (internal rewrite);
//   - a standard http.HandlerFunc mounted with httpd.CreateHandler that refuses a protocol upgrade;
//   - one very large record (a request target of ~20 KB) followed by ordinary requests.
//
// Oracle: every request has exactly one REQ_BEG and one REQ_END with its own tid, the code in REQ_END is
// the status the client received, a panic gives exactly one Error record and never escapes.
func rlExtras(s *Stream, rng *Rng) {
	for hi, handler := range []string{"nano", "text", "json", "text+source", "json+source", "nano+source"} {
		buf := &rlLockedBuf{}
		// the +source variants report the call site: Relay's own records have none (pc = 0)
		opts := logger.NewOptions(slog.Level(0), false, strings.HasSuffix(handler, "+source"))
		handler := strings.TrimSuffix(handler, "+source")
		var h logger.Handler
		switch handler {
		case "nano":
			h = logger.NewNanoHandler(buf, opts)
		case "text":
			h = logger.NewTextHandler(buf, opts)
		default:
			h = logger.NewJsonHandler(buf, opts)
		}
		lg := logger.New(h)
		mux := httpd.NewMux()
		mux.HandleRelay(lg.Relay)
		mux.Handle("/inner/:code", httpd.MethodAll, func(st *httpd.Store) {
			code := 200
			fmt.Sscanf(st.RouteParam("code"), "%d", &code)
			st.W.WriteHeader(code)
			st.W.Write([]byte("inner"))
		})
		mux.Handle("/outer/:code/:then", httpd.MethodAll, func(st *httpd.Store) {
			r2 := st.R.Clone(st.R.Context())
			r2.URL.Path = "/inner/" + st.RouteParam("code")
			r2.RequestURI = r2.URL.Path
			mux.ServeHTTP(st.W, r2) // internal rewrite: the answer of the inner route goes out through the outer writer
			if st.RouteParam("then") == "panic" {
				panic("outer handler panics after the inner dispatch")
			}
		})
		mux.Handle("/ws", http.MethodGet, httpd.CreateHandler(func(w http.ResponseWriter, r *http.Request) {
			if r.Header.Get("X-Allow") == "" {
				http.Error(w, "upgrade refused", http.StatusForbidden)
				if r.Header.Get("X-Then") == "panic" {
					panic("refusing handler panics afterwards")
				}
				return
			}
			w.WriteHeader(http.StatusUpgradeRequired)
		}))
		mux.Handle("/plain/*", httpd.MethodAll, func(st *httpd.Store) { st.W.WriteHeader(204) })
		mux.Handle("/bad/:code", httpd.MethodAll, func(st *httpd.Store) {
			code := 0
			fmt.Sscanf(st.RouteParam("code"), "%d", &code)
			st.W.WriteHeader(code) // net/http refuses codes outside 100..999 with a panic: nothing has been sent
		})

		type want struct {
			path string
			code int
		}
		do := func(label string, req *http.Request, wantClient int, wants []want, wantErrs int) {
			buf.Take()
			rec := httptest.NewRecorder()
			var escaped any
			func() {
				defer func() { escaped = recover() }()
				mux.ServeHTTP(rec, req)
			}()
			raw := buf.Take()
			recs := rlParseLog(handler, raw)
			sc := map[string]any{"handler": handler, "scenario": label, "method": req.Method, "target_len": len(req.URL.Path), "log": rlTrunc(raw, 1500)}
			s.Evaluations++
			s.Nontrivial(fmt.Sprintf("extra/%s/%s", handler, label))
			if escaped != nil {
				s.Violate("panic-escaped", fmt.Sprintf("%s: panic value %v escaped Relay", label, escaped), sc)
				return
			}
			if rec.Code != wantClient {
				s.Violate("client-status", fmt.Sprintf("%s: client received %d, want %d", label, rec.Code, wantClient), sc)
			}
			nErr := 0
			begs, ends := map[string]int{}, map[string][]int{}
			for _, r := range recs {
				switch r.Tag {
				case "REQ_BEG":
					begs[r.Path]++
				case "REQ_END":
					ends[r.Path] = append(ends[r.Path], r.Code)
				case "ERR":
					nErr++
				default:
					s.Violate("log-malformed", fmt.Sprintf("%s: a log record does not parse (%s)", label, r.Bad), sc)
					return
				}
			}
			if len(recs) != 2*len(wants)+wantErrs {
				s.Violate("record-count", fmt.Sprintf("%s: %d records in the log, want %d REQ_BEG + %d REQ_END + %d Error", label, len(recs), len(wants), len(wants), wantErrs), sc)
				return
			}
			for _, w := range wants {
				if begs[w.path] != 1 || len(ends[w.path]) != 1 {
					s.Violate("record-count", fmt.Sprintf("%s: path %q has %d REQ_BEG and %d REQ_END records", label, rlTrunc(w.path, 60), begs[w.path], len(ends[w.path])), sc)
				} else if ends[w.path][0] != w.code {
					s.Violate("logged-code", fmt.Sprintf("%s: REQ_END of %q says code %d, the status of that request is %d", label, rlTrunc(w.path, 60), ends[w.path][0], w.code), sc)
				}
			}
			if nErr != wantErrs {
				s.Violate("error-record", fmt.Sprintf("%s: %d Error records, want %d", label, nErr, wantErrs), sc)
			}
		}
		newReq := func(method, path string) *http.Request {
			r := httptest.NewRequest(method, "/x", nil)
			r.URL.Path = path
			r.RequestURI = path
			return r
		}
		for _, code := range []int{418, 201, 404, 500} {
			p := fmt.Sprintf("/outer/%d/return", code)
			do("nested dispatch", newReq("GET", p), code, []want{{p, code}, {fmt.Sprintf("/inner/%d", code), code}}, 0)
			p = fmt.Sprintf("/outer/%d/panic", code)
			do("nested dispatch, then panic", newReq("POST", p), code, []want{{p, code}, {fmt.Sprintf("/inner/%d", code), code}}, 1)
		}
		// (a handler calling WriteHeader with a code outside 100..999 - refused by net/http with a panic - is not
		// exercised: C15 quantifies over status codes 200-599)
		up := newReq("GET", "/ws")
		up.Header.Set("Upgrade", "websocket")
		up.Header.Set("Connection", "keep-alive, Upgrade")
		do("refused upgrade (http.HandlerFunc via CreateHandler)", up, 403, []want{{"/ws", 403}}, 0)
		up = newReq("GET", "/ws")
		up.Header.Set("Upgrade", "websocket")
		up.Header.Set("Connection", "Upgrade")
		up.Header.Set("X-Then", "panic")
		do("refused upgrade, then panic", up, 403, []want{{"/ws", 403}}, 1)
		up = newReq("GET", "/ws")
		up.Header.Set("Upgrade", "h2c")
		up.Header.Set("Connection", "Upgrade")
		up.Header.Set("X-Allow", "1")
		do("upgrade answered 426", up, 426, []want{{"/ws", 426}}, 0)
		// one very large record, then ordinary ones: every later record is a record of its own
		long := "/plain/" + strings.Repeat(string(rune('a'+hi%6)), 17000+rng.Intn(9000))
		do("request target of ~20 KB", newReq("GET", long), 204, []want{{long, 204}}, 0)
		for i := 0; i < 4; i++ {
			p := fmt.Sprintf("/plain/after-%d", i)
			do("ordinary request after a very large record", newReq("GET", p), 204, []want{{p, 204}}, 0)
		}
	}
}

func rlTrunc(s string, n int) string {
	if len(s) <= n {
		return s
	}
	return s[:n] + fmt.Sprintf("…(+%d bytes)", len(s)-n)
}
