package main

// Streams `json` and `utf8` (property C01): the real logger.JsonHandler, driven through the Logger
// API (mode A) and through the Handler API (mode B), against the Lean model of json_handler.go
// (byte equality of the line, equality of the decoded ordered tree) and against a direct oracle
// that does not use the model.
//
// Design rule: the model input and the oracle's expected tree are computed by WALKING the
// constructed slog values the way the handler does (Value.Resolve, then group / leaf), never from
// the generator's intent — slog.GroupValue and Record.Add/AddAttrs silently drop directly-empty
// groups, Logger.With does not.

import (
	"bytes"
	"context"
	"crypto/sha1"
	"encoding/hex"
	"encoding/json"
	"errors"
	"fmt"
	"io"
	"log/slog"
	"math"
	"reflect"
	"runtime"
	"sort"
	"strconv"
	"strings"
	"sync"
	"time"
	"unicode/utf8"

	"github.com/whoisnian/glb/ansi"
	"github.com/whoisnian/glb/logger"
)

func init() {
	streams["json"] = jsonhRunJson
	streams["utf8"] = jsonhRunUtf8
}

// =============================================================================================
// stream utf8: utf8.DecodeRune against the hand model Glb.Utf8.decodeRune

func jsonhRunUtf8(cfg Cfg) {
	s := NewStream(cfg.Out, "utf8")
	defer s.Close()
	s.Rule = "decodings of non-ASCII input"
	s.Exhaustive = true
	s.Notes = []string{
		"quick: the empty string, all 1-byte and all 2-byte strings",
		"thorough adds: every Unicode scalar's encoding alone / +0x80 / +'A' / truncated by one byte, all surrogate forms, overlongs, F4 90..BF, F5..FF leads, 5-byte forms, all 3-byte strings with first byte in {E0,ED,EF,F0,F4}",
	}
	op := make([]byte, 0, 64)
	ans := make([]byte, 0, 32)
	emit := func(b []byte) {
		r, n := utf8.DecodeRune(b)
		op = append(op[:0], "dec "...)
		if len(b) == 0 {
			op = append(op, '-')
		} else {
			op = hex.AppendEncode(op, b)
		}
		ans = strconv.AppendInt(ans[:0], int64(r), 10)
		ans = append(ans, ' ')
		ans = strconv.AppendInt(ans, int64(n), 10)
		a := string(ans)
		s.Line(string(op), a)
		s.Evaluations++
		if len(b) > 0 && b[0] >= 0x80 {
			s.Nontrivial(a)
			if r == utf8.RuneError && n == 1 {
				s.Dist["nonascii:invalid"]++
			} else {
				s.Dist["nonascii:valid"]++
			}
		} else {
			s.Dist["ascii-or-empty"]++
		}
		s.Dist["len:"+strconv.Itoa(len(b))]++
	}
	emit(nil)
	for a := 0; a < 256; a++ {
		emit([]byte{byte(a)})
	}
	for a := 0; a < 256; a++ {
		for b := 0; b < 256; b++ {
			emit([]byte{byte(a), byte(b)})
		}
	}
	if cfg.Thorough() {
		var enc [8]byte
		for i := 0; i < jsonhNumScalars; i++ {
			n := utf8.EncodeRune(enc[:], jsonhScalar(i))
			emit(enc[:n])
			enc[n] = 0x80
			emit(enc[:n+1])
			enc[n] = 'A'
			emit(enc[:n+1])
			emit(enc[:n-1])
		}
		// surrogates ED A0..BF 80..BF
		for b := 0xA0; b <= 0xBF; b++ {
			for c := 0x80; c <= 0xBF; c++ {
				emit([]byte{0xED, byte(b), byte(c)})
			}
		}
		xs := []byte{0x80, 0x8F, 0x90, 0x9F, 0xA0, 0xBF, 0x00, 0x41, 0x7F, 0xC0, 0xFF}
		// overlongs
		for _, l := range []byte{0xC0, 0xC1} {
			for _, x := range xs {
				emit([]byte{l, x, 0x80})
			}
		}
		for b := 0x80; b <= 0x9F; b++ {
			for _, x := range xs {
				emit([]byte{0xE0, byte(b), x})
				emit([]byte{0xE0, byte(b), x, 0x80})
			}
		}
		for b := 0x80; b <= 0x8F; b++ {
			for _, x := range xs {
				for _, y := range xs {
					emit([]byte{0xF0, byte(b), x, y})
				}
			}
		}
		// beyond U+10FFFF
		for b := 0x90; b <= 0xBF; b++ {
			for _, x := range xs {
				for _, y := range xs {
					emit([]byte{0xF4, byte(b), x, y})
				}
			}
		}
		for l := 0xF5; l <= 0xFF; l++ {
			emit([]byte{byte(l), 0x80})
			emit([]byte{byte(l), 0x80, 0x80})
			emit([]byte{byte(l), 0x80, 0x80, 0x80})
			emit([]byte{byte(l), 0xBF, 0xBF, 0xBF, 0xBF})
			emit([]byte{byte(l), 0x80, 0x80, 0x80, 0x80, 0x80})
		}
		for l := 0xF8; l <= 0xFB; l++ {
			for _, x := range xs {
				for _, y := range []byte{0x80, 0xBF} {
					emit([]byte{byte(l), x, y, 0x80, 0xBF})
					emit([]byte{byte(l), 0x88, x, y, 0x80})
				}
			}
		}
		for _, l := range []byte{0xE0, 0xED, 0xEF, 0xF0, 0xF4} {
			for b := 0; b < 256; b++ {
				for c := 0; c < 256; c++ {
					emit([]byte{l, byte(b), byte(c)})
				}
			}
		}
	}
	s.Traces = s.Lines
}

const jsonhNumScalars = 0x110000 - 0x800

func jsonhScalar(i int) rune {
	if i < 0xD800 {
		return rune(i)
	}
	return rune(i + 0x800)
}

// =============================================================================================
// values the generator uses (LogValuers must be pure and must not panic)

type jsonhLV struct{ v slog.Value }

func (x jsonhLV) LogValue() slog.Value { return x.v }

type jsonhLVp struct{ v slog.Value }

func (x *jsonhLVp) LogValue() slog.Value { return x.v }

// json.Marshaler with a value receiver: succeeds with out, fails with err, or panics with pan.
type jsonhMar struct {
	out     string
	err     error
	pan     any
	doPanic bool
}

func (m jsonhMar) MarshalJSON() ([]byte, error) {
	if m.doPanic {
		panic(m.pan)
	}
	if m.err != nil {
		return nil, m.err
	}
	return []byte(m.out), nil
}

// json.Marshaler with a pointer receiver (a nil *jsonhMarP is written as null by encoding/json
// without calling the method; a non-addressable jsonhMarP value is not a Marshaler at all).
type jsonhMarP struct {
	out     string
	pan     any
	doPanic bool
}

func (m *jsonhMarP) MarshalJSON() ([]byte, error) {
	if m.doPanic {
		panic(m.pan)
	}
	return []byte(m.out), nil
}

// both error and json.Marshaler: the handler tests Marshaler first.
type jsonhErrMar struct{ msg, out string }

func (e jsonhErrMar) Error() string                { return e.msg }
func (e jsonhErrMar) MarshalJSON() ([]byte, error) { return []byte(e.out), nil }

// Error() dereferences: a typed-nil *jsonhErr panics inside Error() -> "<nil>".
type jsonhErr struct{ s string }

func (e *jsonhErr) Error() string { return e.s }

// non-nil error whose Error() panics -> "!PANIC: ..."
type jsonhPanicErr struct{ v any }

func (e jsonhPanicErr) Error() string { panic(e.v) }

// non-nil value, Error() runs into a nil inner pointer (runtime error panic, not a nil receiver)
type jsonhInnerNil struct{ p *jsonhErr }

func (e jsonhInnerNil) Error() string { return e.p.s }

type jsonhTextM struct {
	s    string
	fail bool
}

func (t jsonhTextM) MarshalText() ([]byte, error) {
	if t.fail {
		return nil, errors.New("text: " + t.s)
	}
	return []byte(t.s), nil
}

type jsonhStruct struct {
	A  int            `json:"a"`
	B  string         `json:"b,omitempty"`
	C  []float64      `json:"c"`
	D  *jsonhStruct   `json:"d,omitempty"`
	E  any            `json:"-"`
	F  map[string]int `json:"f"`
	T  time.Time
	By []byte `json:"by"`
	x  int
}

type jsonhCyclic struct {
	Next *jsonhCyclic
}

// =============================================================================================
// what the handler receives

type jsonhLeaf struct {
	kind    byte
	payload string
}

type jsonhAttr struct {
	key   string
	group bool
	leaf  jsonhLeaf
	kids  []jsonhAttr
}

type jsonhWStep struct {
	group bool
	name  string
	attrs []jsonhAttr
}

// jsonhEval: the resolved view of one case = arguments of the model's `line`/`tree` ops.
type jsonhEval struct {
	addSource  bool
	level      int
	chain      []jsonhWStep
	rec        []jsonhAttr
	timeText   string
	file       string
	lineText   string
	msg        string
	hasGroup   bool
	rawBadUTF8 bool
	maxDepth   int
}

// jsonhEnc replicates appendJsonMarshal: "stdlib result" payload for the model.
func jsonhEnc(x any) jsonhLeaf {
	var bb bytes.Buffer
	enc := json.NewEncoder(&bb)
	enc.SetEscapeHTML(false)
	if err := enc.Encode(x); err != nil {
		if u, ok := err.(interface{ Unwrap() error }); ok {
			return jsonhLeaf{'E', u.Unwrap().Error()}
		}
		return jsonhLeaf{'E', err.Error()}
	}
	b := bb.Bytes()
	return jsonhLeaf{'e', string(b[:len(b)-1])}
}

// jsonhLeafOf replicates the dispatch of appendJsonValue on a resolved non-group value.
func jsonhLeafOf(v slog.Value) (lf jsonhLeaf) {
	switch v.Kind() {
	case slog.KindString:
		return jsonhLeaf{'s', v.String()}
	case slog.KindInt64:
		return jsonhLeaf{'n', strconv.FormatInt(v.Int64(), 10)}
	case slog.KindUint64:
		return jsonhLeaf{'n', strconv.FormatUint(v.Uint64(), 10)}
	case slog.KindFloat64:
		return jsonhEnc(v.Float64())
	case slog.KindBool:
		if v.Bool() {
			return jsonhLeaf{'b', "\x01"}
		}
		return jsonhLeaf{'b', "\x00"}
	case slog.KindDuration:
		return jsonhLeaf{'n', strconv.FormatInt(int64(v.Duration()), 10)}
	case slog.KindTime:
		return jsonhLeaf{'t', string(v.Time().AppendFormat(nil, time.RFC3339Nano))}
	}
	va := v.Any()
	defer func() {
		if r := recover(); r != nil {
			if rv := reflect.ValueOf(va); rv.Kind() == reflect.Pointer && rv.IsNil() {
				lf = jsonhLeaf{'p', ""}
			} else {
				lf = jsonhLeaf{'P', fmt.Sprintf("%v", r)}
			}
		}
	}()
	if _, ok := va.(json.Marshaler); ok {
		return jsonhEnc(va)
	} else if e, ok := va.(error); ok {
		return jsonhLeaf{'r', e.Error()}
	} else if as, ok := va.(logger.AnsiString); ok {
		return jsonhLeaf{'a', as.Value}
	}
	return jsonhEnc(va)
}

// jsonhArgsToAttrs replicates logger.argsToAttrs (documented: equivalent to slog's).
func jsonhArgsToAttrs(args []any) (attrs []slog.Attr) {
	for i := 0; i < len(args); i++ {
		switch x := args[i].(type) {
		case string:
			if i+1 < len(args) {
				attrs = append(attrs, slog.Any(x, args[i+1]))
				i++
			} else {
				attrs = append(attrs, slog.String("!BADKEY", x))
			}
		case slog.Attr:
			attrs = append(attrs, x)
		default:
			attrs = append(attrs, slog.Any("!BADKEY", x))
		}
	}
	return attrs
}

// =============================================================================================
// ordered JSON trees, canonical print, guided token walk

type jsonhNode struct {
	kind byte // 'o' object, '[' array, 's' string, 'n' number, 'r' raw, 'T', 'F', 'N', '?' any string (expected side only)
	text string
	keys []string
	vals []*jsonhNode
}

func jsonhAppendHex(b []byte, s string) []byte {
	if len(s) == 0 {
		return append(b, '-')
	}
	return hex.AppendEncode(b, []byte(s))
}

func jsonhPrint(b []byte, n *jsonhNode) []byte {
	switch n.kind {
	case 'o':
		b = append(b, '{')
		for i, k := range n.keys {
			if i > 0 {
				b = append(b, ',')
			}
			b = jsonhAppendHex(b, k)
			b = append(b, ':')
			b = jsonhPrint(b, n.vals[i])
		}
		return append(b, '}')
	case '[':
		b = append(b, '[')
		for i, v := range n.vals {
			if i > 0 {
				b = append(b, ',')
			}
			b = jsonhPrint(b, v)
		}
		return append(b, ']')
	case 's', 'n', 'r':
		b = append(b, n.kind)
		return jsonhAppendHex(b, n.text)
	case '?':
		return append(b, '?')
	}
	return append(b, n.kind)
}

func jsonhEq(want, got *jsonhNode) bool {
	if want.kind == '?' {
		return got.kind == 's'
	}
	if want.kind != got.kind || want.text != got.text || len(want.keys) != len(got.keys) || len(want.vals) != len(got.vals) {
		return false
	}
	for i := range want.keys {
		if want.keys[i] != got.keys[i] {
			return false
		}
	}
	for i := range want.vals {
		if !jsonhEq(want.vals[i], got.vals[i]) {
			return false
		}
	}
	return true
}

// jsonhDecode: token walk with encoding/json keeping member order and duplicate keys. `exp` only
// tells where a value must be captured raw (encoder payload positions).
func jsonhDecode(body []byte, exp *jsonhNode) (*jsonhNode, error) {
	dec := json.NewDecoder(bytes.NewReader(body))
	dec.UseNumber()
	n, err := jsonhDecVal(dec, exp)
	if err != nil {
		return nil, err
	}
	if _, err := dec.Token(); err != io.EOF {
		if err == nil {
			return nil, errors.New("trailing data after top-level value")
		}
		return nil, err
	}
	return n, nil
}

func jsonhDecVal(dec *json.Decoder, exp *jsonhNode) (*jsonhNode, error) {
	if exp != nil && exp.kind == 'r' {
		var rm json.RawMessage
		if err := dec.Decode(&rm); err != nil {
			return nil, err
		}
		return &jsonhNode{kind: 'r', text: string(rm)}, nil
	}
	tok, err := dec.Token()
	if err != nil {
		return nil, err
	}
	switch t := tok.(type) {
	case json.Delim:
		switch t {
		case '{':
			n := &jsonhNode{kind: 'o'}
			for i := 0; dec.More(); i++ {
				kt, err := dec.Token()
				if err != nil {
					return nil, err
				}
				ks, ok := kt.(string)
				if !ok {
					return nil, fmt.Errorf("object key is not a string: %v", kt)
				}
				var ce *jsonhNode
				if exp != nil && exp.kind == 'o' && i < len(exp.vals) {
					ce = exp.vals[i]
				}
				v, err := jsonhDecVal(dec, ce)
				if err != nil {
					return nil, err
				}
				n.keys = append(n.keys, ks)
				n.vals = append(n.vals, v)
			}
			if _, err := dec.Token(); err != nil {
				return nil, err
			}
			return n, nil
		case '[':
			n := &jsonhNode{kind: '['}
			for i := 0; dec.More(); i++ {
				var ce *jsonhNode
				if exp != nil && exp.kind == '[' && i < len(exp.vals) {
					ce = exp.vals[i]
				}
				v, err := jsonhDecVal(dec, ce)
				if err != nil {
					return nil, err
				}
				n.vals = append(n.vals, v)
			}
			if _, err := dec.Token(); err != nil {
				return nil, err
			}
			return n, nil
		}
		return nil, fmt.Errorf("unexpected delimiter %v", t)
	case string:
		return &jsonhNode{kind: 's', text: t}, nil
	case json.Number:
		return &jsonhNode{kind: 'n', text: string(t)}, nil
	case bool:
		if t {
			return &jsonhNode{kind: 'T'}, nil
		}
		return &jsonhNode{kind: 'F'}, nil
	case nil:
		return &jsonhNode{kind: 'N'}, nil
	}
	return nil, fmt.Errorf("unexpected token %v", tok)
}

// =============================================================================================
// the direct oracle's expected tree (written from the property text, not from the model)

func jsonhSan(s string) string {
	if utf8.ValidString(s) {
		return s
	}
	var b strings.Builder
	for i := 0; i < len(s); {
		r, n := utf8.DecodeRuneInString(s[i:])
		if r == utf8.RuneError && n == 1 {
			b.WriteString("\uFFFD")
		} else {
			b.WriteString(s[i : i+n])
		}
		i += n
	}
	return b.String()
}

func jsonhLevelName(l int) string {
	switch l {
	case 0:
		return "DEBUG"
	case 4:
		return "INFO"
	case 8:
		return "WARN"
	case 12:
		return "ERROR"
	case 16:
		return "FATAL"
	}
	return "?"
}

// jsonhExpectFile: the last two path components, for the shapes where the property text is clear.
func jsonhExpectFile(file string) (string, bool) {
	if file == "" {
		return "", false
	}
	if strings.Count(file[1:], "/") >= 2 || (file[0] == '/' && strings.Count(file, "/") == 2) {
		parts := strings.Split(file, "/")
		return parts[len(parts)-2] + "/" + parts[len(parts)-1], true
	}
	return "", false
}

func jsonhStrNode(s string) *jsonhNode { return &jsonhNode{kind: 's', text: s} }

func jsonhLeafNode(l jsonhLeaf) *jsonhNode {
	switch l.kind {
	case 'E':
		// "a value that cannot be encoded shows up as an error string": the property fixes no wording, so the
		// direct oracle accepts any JSON string here (the exact text is compared by the model stream only)
		return &jsonhNode{kind: '?'}
	case 's', 'r', 'a':
		return jsonhStrNode(jsonhSan(l.payload))
	case 'n':
		return &jsonhNode{kind: 'n', text: l.payload}
	case 'b':
		if l.payload == "\x01" {
			return &jsonhNode{kind: 'T'}
		}
		return &jsonhNode{kind: 'F'}
	case 't':
		return jsonhStrNode(l.payload)
	case 'e':
		return &jsonhNode{kind: 'r', text: l.payload}
	case 'p':
		return jsonhStrNode("<nil>")
	case 'P':
		return jsonhStrNode("!PANIC: " + jsonhSan(l.payload))
	}
	return &jsonhNode{kind: '?'}
}

func jsonhMembers(o *jsonhNode, as []jsonhAttr) {
	for i := range as {
		a := &as[i]
		if !a.group {
			o.keys = append(o.keys, jsonhSan(a.key))
			o.vals = append(o.vals, jsonhLeafNode(a.leaf))
		} else if a.key == "" {
			jsonhMembers(o, a.kids)
		} else {
			g := &jsonhNode{kind: 'o'}
			jsonhMembers(g, a.kids)
			o.keys = append(o.keys, jsonhSan(a.key))
			o.vals = append(o.vals, g)
		}
	}
}

func jsonhNest(o *jsonhNode, chain []jsonhWStep, rec []jsonhAttr) {
	for i, st := range chain {
		if st.group {
			g := &jsonhNode{kind: 'o'}
			jsonhNest(g, chain[i+1:], rec)
			o.keys = append(o.keys, jsonhSan(st.name))
			o.vals = append(o.vals, g)
			return
		}
		jsonhMembers(o, st.attrs)
	}
	jsonhMembers(o, rec)
}

func (ev *jsonhEval) expected() *jsonhNode {
	o := &jsonhNode{kind: 'o'}
	add := func(k string, v *jsonhNode) { o.keys = append(o.keys, k); o.vals = append(o.vals, v) }
	add("time", jsonhStrNode(ev.timeText))
	add("level", jsonhStrNode(jsonhLevelName(ev.level)))
	if ev.addSource {
		src := &jsonhNode{kind: 'o', keys: []string{"file", "line"}}
		if f, ok := jsonhExpectFile(ev.file); ok {
			src.vals = append(src.vals, jsonhStrNode(jsonhSan(f)))
		} else {
			src.vals = append(src.vals, &jsonhNode{kind: '?'})
		}
		src.vals = append(src.vals, &jsonhNode{kind: 'n', text: ev.lineText})
		add("source", src)
	}
	add("msg", jsonhStrNode(jsonhSan(ev.msg)))
	jsonhNest(o, ev.chain, ev.rec)
	return o
}

// ---- wire format of the case --------------------------------------------------------------

func jsonhAppendAttr(b []byte, a *jsonhAttr) []byte {
	if a.group {
		b = append(b, " G "...)
		b = jsonhAppendHex(b, a.key)
		b = append(b, ' ')
		b = strconv.AppendInt(b, int64(len(a.kids)), 10)
		for i := range a.kids {
			b = jsonhAppendAttr(b, &a.kids[i])
		}
		return b
	}
	b = append(b, " L "...)
	b = jsonhAppendHex(b, a.key)
	b = append(b, ' ', a.leaf.kind, ' ')
	return jsonhAppendHex(b, a.leaf.payload)
}

// appendOp: "<addSource> CHAIN REC" (without the `line`/`tree` prefix)
func (ev *jsonhEval) appendOp(b []byte) []byte {
	if ev.addSource {
		b = append(b, '1')
	} else {
		b = append(b, '0')
	}
	b = append(b, ' ')
	b = strconv.AppendInt(b, int64(len(ev.chain)), 10)
	for i := range ev.chain {
		st := &ev.chain[i]
		if st.group {
			b = append(b, " W "...)
			b = jsonhAppendHex(b, st.name)
		} else {
			b = append(b, " A "...)
			b = strconv.AppendInt(b, int64(len(st.attrs)), 10)
			for k := range st.attrs {
				b = jsonhAppendAttr(b, &st.attrs[k])
			}
		}
	}
	b = append(b, ' ')
	b = jsonhAppendHex(b, ev.timeText)
	b = append(b, ' ')
	b = strconv.AppendInt(b, int64(ev.level), 10)
	b = append(b, ' ')
	if ev.addSource {
		b = jsonhAppendHex(b, ev.file)
		b = append(b, ' ')
		b = jsonhAppendHex(b, ev.lineText)
	} else {
		b = append(b, "- 30"...)
	}
	b = append(b, ' ')
	b = jsonhAppendHex(b, ev.msg)
	b = append(b, ' ')
	b = strconv.AppendInt(b, int64(len(ev.rec)), 10)
	for i := range ev.rec {
		b = jsonhAppendAttr(b, &ev.rec[i])
	}
	return b
}

// ---- the oracle ------------------------------------------------------------------------------

type jsonhVerdict struct {
	kind     string // "" = property holds
	detail   string
	gotPrint string // canonical print of the decoded real line, or invalid:<err>
	want     *jsonhNode
}

func jsonhTrunc(s string) string {
	if len(s) > 600 {
		return s[:600] + "...(" + strconv.Itoa(len(s)) + " bytes)"
	}
	return s
}

const jsonhTimePrefix = `{"time":"`

func jsonhCutTime(real []byte) (string, bool) {
	if !bytes.HasPrefix(real, []byte(jsonhTimePrefix)) {
		return "", false
	}
	rest := real[len(jsonhTimePrefix):]
	i := bytes.IndexByte(rest, '"')
	if i < 0 {
		return "", false
	}
	return string(rest[:i]), true
}

// jsonhCheck evaluates the property statement on the bytes the real handler wrote.
func jsonhCheck(ev *jsonhEval, real []byte, checkTimeFormat bool) jsonhVerdict {
	want := ev.expected()
	v := jsonhVerdict{want: want}
	fail := func(kind, detail string) {
		if v.kind == "" {
			v.kind, v.detail = kind, detail
		}
	}
	if bytes.Count(real, []byte{'\n'}) != 1 || real[len(real)-1] != '\n' {
		fail("newline", fmt.Sprintf("want exactly one \\n, at the end; got %d newline(s), line=%s", bytes.Count(real, []byte{'\n'}), jsonhTrunc(strconv.Quote(string(real)))))
	}
	if !ev.rawBadUTF8 && !utf8.Valid(real) {
		fail("not-json", "line is not well-formed UTF-8: "+jsonhTrunc(strconv.Quote(string(real))))
	}
	if !json.Valid(real) {
		var rm json.RawMessage
		err := json.Unmarshal(real, &rm)
		fail("not-json", fmt.Sprintf("json.Valid = false (%v): %s", err, jsonhTrunc(strconv.Quote(string(real)))))
		v.gotPrint = "invalid:" + strings.ReplaceAll(fmt.Sprint(err), " ", "_")
		return v
	}
	got, err := jsonhDecode(real, want)
	if err != nil {
		fail("not-json", fmt.Sprintf("token walk failed (%v): %s", err, jsonhTrunc(strconv.Quote(string(real)))))
		v.gotPrint = "invalid:" + strings.ReplaceAll(err.Error(), " ", "_")
		return v
	}
	v.gotPrint = string(jsonhPrint(nil, got))
	if checkTimeFormat {
		if _, err := time.Parse(time.RFC3339Nano, ev.timeText); err != nil {
			fail("time-format", fmt.Sprintf("time text %q does not parse as RFC3339Nano: %v", ev.timeText, err))
		}
	}
	if ev.addSource {
		gl := "<absent>"
		for i, k := range got.keys {
			if k == "source" && got.vals[i].kind == 'o' {
				for m, kk := range got.vals[i].keys {
					if kk == "line" {
						gl = string(got.vals[i].vals[m].kind) + got.vals[i].vals[m].text
					}
				}
				break
			}
		}
		if gl != "n"+ev.lineText {
			fail("source-line", fmt.Sprintf("source.line: want number %s, got %s", ev.lineText, gl))
		}
	}
	if !jsonhEq(want, got) {
		fail("tree-mismatch", fmt.Sprintf("expected %s got %s line=%s", jsonhTrunc(string(jsonhPrint(nil, want))), jsonhTrunc(v.gotPrint), jsonhTrunc(strconv.Quote(string(real)))))
	}
	return v
}

// =============================================================================================
// cases

// jsonhGA: a generated attribute; when hasRaw, a == slog.Any(a.Key, raw) so that the alternating
// `"key", value` argument form denotes the same attribute.
type jsonhGA struct {
	a      slog.Attr
	raw    any
	hasRaw bool
}

type jsonhGStep struct {
	group bool
	name  string
	gas   []jsonhGA
}

type jsonhInput struct {
	addSource bool
	level     slog.Level
	steps     []jsonhGStep
	msg       string
	rec       []jsonhGA
	lone      any // mode A / r.Add only: a trailing argument without key -> !BADKEY
	hasLone   bool
}

// handler-level case (what mode B executes; also the unit of shrinking)
type jsonhStep struct {
	group bool
	name  string
	attrs []slog.Attr
}

type jsonhPC struct {
	pc   uintptr
	file string
	line string
}

type jsonhCase struct {
	addSource bool
	level     slog.Level
	steps     []jsonhStep
	msg       string
	attrs     []slog.Attr
	args      []any
	useArgs   bool
	t         time.Time
	pc        jsonhPC
}

type jsonhReplay struct {
	Mode         string       `json:"mode"`
	Op           string       `json:"op"`
	RealHex      string       `json:"real_hex"`
	Real         string       `json:"real_quoted"`
	ExpectedTree string       `json:"expected_tree"`
	GotTree      string       `json:"got_tree"`
	Shrunk       *jsonhReplay `json:"shrunk_via_handler_api,omitempty"`
}

type jsonhRunner struct {
	s     *Stream
	rng   *Rng
	ctx   context.Context
	buf   bytes.Buffer
	op    []byte
	pcs   []jsonhPC
	times []time.Time
	cases int
}

func jsonhGAttr(a slog.Attr) jsonhGA { return jsonhGA{a: a} }
func jsonhGLeaf(key string, raw any) jsonhGA {
	return jsonhGA{a: slog.Any(key, raw), raw: raw, hasRaw: true}
}

func jsonhAttrsOf(gas []jsonhGA) []slog.Attr {
	out := make([]slog.Attr, len(gas))
	for i := range gas {
		out[i] = gas[i].a
	}
	return out
}

// toArgs: the ...any form of a list of attributes (Attr values, "key", value pairs).
func (j *jsonhRunner) toArgs(gas []jsonhGA) []any {
	args := make([]any, 0, len(gas)*2)
	for i := range gas {
		g := &gas[i]
		c := j.rng.Intn(100)
		switch {
		case g.hasRaw && c < 45:
			args = append(args, g.a.Key, g.raw)
		case c < 60:
			args = append(args, g.a.Key, g.a.Value)
		default:
			args = append(args, g.a)
		}
	}
	return args
}

func (j *jsonhRunner) walk(a slog.Attr, depth int, ev *jsonhEval, count bool) jsonhAttr {
	if count && a.Value.Kind() == slog.KindLogValuer {
		j.s.Dist["via:logvaluer"]++
	}
	v := a.Value.Resolve()
	if depth > ev.maxDepth {
		ev.maxDepth = depth
	}
	if v.Kind() == slog.KindGroup {
		g := v.Group()
		out := jsonhAttr{key: a.Key, group: true}
		if len(g) > 0 {
			out.kids = make([]jsonhAttr, 0, len(g))
			for _, x := range g {
				out.kids = append(out.kids, j.walk(x, depth+1, ev, count))
			}
		}
		ev.hasGroup = true
		if count {
			switch {
			case a.Key == "" && len(g) == 0:
				j.s.Dist["group:empty-inline"]++
			case a.Key == "":
				j.s.Dist["group:inline"]++
			case len(g) == 0:
				j.s.Dist["group:empty-keyed"]++
			default:
				j.s.Dist["group:keyed"]++
			}
		}
		return out
	}
	lf := jsonhLeafOf(v)
	if lf.kind == 'e' && !utf8.ValidString(lf.payload) {
		ev.rawBadUTF8 = true
	}
	if count {
		j.s.Dist["kind:"+string(lf.kind)]++
	}
	return jsonhAttr{key: a.Key, leaf: lf}
}

func (j *jsonhRunner) walkAll(as []slog.Attr, ev *jsonhEval, count bool) []jsonhAttr {
	if len(as) == 0 {
		return nil
	}
	out := make([]jsonhAttr, 0, len(as))
	for _, a := range as {
		out = append(out, j.walk(a, 1, ev, count))
	}
	return out
}

// seenAttrs: the attributes the handler will iterate over, from a twin record.
func jsonhSeenAttrs(level slog.Level, msg string, attrs []slog.Attr, args []any, useArgs bool) []slog.Attr {
	tw := slog.NewRecord(time.Time{}, level, msg, 0)
	if useArgs {
		tw.Add(args...)
	} else {
		tw.AddAttrs(attrs...)
	}
	if tw.NumAttrs() == 0 {
		return nil
	}
	out := make([]slog.Attr, 0, tw.NumAttrs())
	tw.Attrs(func(a slog.Attr) bool { out = append(out, a); return true })
	return out
}

func jsonhThreshold(r *Rng, level slog.Level) slog.Level {
	return slog.Level(4 * r.Intn(int(level)/4+1))
}

// execB runs one handler-level case on the real code through the Handler API.
func (j *jsonhRunner) execB(c *jsonhCase, buf *bytes.Buffer, threshold slog.Level, count bool) *jsonhEval {
	ev := &jsonhEval{addSource: c.addSource, level: int(c.level), msg: c.msg}
	buf.Reset()
	h := logger.NewJsonHandler(buf, logger.NewOptions(threshold, false, c.addSource))
	var hh logger.Handler = h
	for i := range c.steps {
		st := &c.steps[i]
		if st.group {
			if st.name == "" {
				continue // Handler.WithGroup("") is outside the driven domain (Logger filters it)
			}
			hh = hh.WithGroup(st.name)
			ev.chain = append(ev.chain, jsonhWStep{group: true, name: st.name})
			ev.hasGroup = true
			continue
		}
		hh = hh.WithAttrs(st.attrs)
		if len(st.attrs) == 0 && i%2 == 1 {
			continue // WithAttrs(nil) returns the same handler: `A 0` and omission are the same to the model
		}
		ev.chain = append(ev.chain, jsonhWStep{attrs: j.walkAll(st.attrs, ev, count)})
	}
	r := slog.NewRecord(c.t, c.level, c.msg, c.pc.pc)
	if c.useArgs {
		r.Add(c.args...)
	} else {
		r.AddAttrs(c.attrs...)
	}
	if hh.Enabled(c.level) {
		hh.Handle(j.ctx, r)
	}
	ev.rec = j.walkAll(jsonhSeenAttrs(c.level, c.msg, c.attrs, c.args, c.useArgs), ev, count)
	ev.timeText = string(c.t.AppendFormat(nil, time.RFC3339Nano))
	if c.addSource {
		ev.file, ev.lineText = c.pc.file, c.pc.line
	} else {
		ev.lineText = "0"
	}
	return ev
}

// callA: the Logger call and the source position of that call (Caller(0) is on the line
// immediately before each call: keep the pairs adjacent).
//
//go:noinline
func jsonhCallA(l *logger.Logger, variant int, ctx context.Context, level slog.Level, msg string, args []any, attrs []slog.Attr) (rfile string, rline int) {
	var file string
	var ln int
	defer func() { rfile, rline = file, ln+1 }() // also when Panic/Panicf unwinds through here
	switch {
	case variant == 1:
		_, file, ln, _ = runtime.Caller(0)
		l.LogAttrs(ctx, level, msg, attrs...)
	case variant == 2 && level == logger.LevelDebug:
		_, file, ln, _ = runtime.Caller(0)
		l.Debug(msg, args...)
	case variant == 2 && level == logger.LevelInfo:
		_, file, ln, _ = runtime.Caller(0)
		l.Info(msg, args...)
	case variant == 2 && level == logger.LevelWarn:
		_, file, ln, _ = runtime.Caller(0)
		l.Warn(msg, args...)
	case variant == 2 && level == logger.LevelError:
		_, file, ln, _ = runtime.Caller(0)
		l.Error(msg, args...)
	case variant == 3 && level == logger.LevelDebug:
		_, file, ln, _ = runtime.Caller(0)
		l.Debugf("%s", msg)
	case variant == 3 && level == logger.LevelInfo:
		_, file, ln, _ = runtime.Caller(0)
		l.Infof("%s", msg)
	case variant == 3 && level == logger.LevelWarn:
		_, file, ln, _ = runtime.Caller(0)
		l.Warnf("%s", msg)
	case variant == 3 && level == logger.LevelError && len(msg)%3 == 0:
		_, file, ln, _ = runtime.Caller(0)
		l.Errorf("%s", msg)
	case variant == 3 && level == logger.LevelError && len(msg)%3 == 1:
		defer func() { recover() }() // Panic logs at ERROR and then panics with the message
		_, file, ln, _ = runtime.Caller(0)
		l.Panic(msg)
	case variant == 3 && level == logger.LevelError:
		defer func() { recover() }()
		_, file, ln, _ = runtime.Caller(0)
		l.Panicf("%s", msg)
	case variant == 3:
		_, file, ln, _ = runtime.Caller(0)
		l.Logf(ctx, level, "%s", msg)
	default:
		_, file, ln, _ = runtime.Caller(0)
		l.Log(ctx, level, msg, args...)
	}
	return file, ln + 1
}

// runA drives the case through the Logger API.
func (j *jsonhRunner) runA(in *jsonhInput) {
	r := j.rng
	ev := &jsonhEval{addSource: in.addSource, level: int(in.level), msg: in.msg}
	j.buf.Reset()
	h := logger.NewJsonHandler(&j.buf, logger.NewOptions(jsonhThreshold(r, in.level), false, in.addSource))
	l := logger.New(h)
	var hsteps []jsonhStep
	for i := range in.steps {
		st := &in.steps[i]
		if st.group {
			l = l.WithGroup(st.name) // "" is a no-op: omitted from the model's chain
			if st.name != "" {
				ev.chain = append(ev.chain, jsonhWStep{group: true, name: st.name})
				ev.hasGroup = true
				hsteps = append(hsteps, jsonhStep{group: true, name: st.name})
			} else {
				j.s.Dist["noop:WithGroup-empty"]++
			}
			continue
		}
		args := j.toArgs(st.gas)
		l = l.With(args...) // no args is a no-op: omitted from the model's chain
		if len(args) == 0 {
			j.s.Dist["noop:With-noargs"]++
			continue
		}
		attrs := jsonhArgsToAttrs(args)
		ev.chain = append(ev.chain, jsonhWStep{attrs: j.walkAll(attrs, ev, true)})
		hsteps = append(hsteps, jsonhStep{attrs: attrs})
	}
	variant := r.Intn(4)
	var args []any
	var attrs []slog.Attr
	if variant == 3 {
		// the formatting methods and Panic/Panicf (recovered): message only
	} else if variant == 1 {
		attrs = jsonhAttrsOf(in.rec)
	} else {
		args = j.toArgs(in.rec)
		if in.hasLone {
			args = append(args, in.lone)
		}
	}
	file, line := jsonhCallA(l, variant, j.ctx, in.level, in.msg, args, attrs)
	seen := jsonhSeenAttrs(in.level, in.msg, attrs, args, variant != 1)
	ev.rec = j.walkAll(seen, ev, true)
	real := j.buf.Bytes()
	tt, ok := jsonhCutTime(real)
	ev.timeText = tt
	if in.addSource {
		ev.file, ev.lineText = file, strconv.Itoa(line)
	} else {
		ev.lineText = "0"
	}
	j.s.Dist["mode:A"]++
	j.s.Dist["api:"+[]string{"Log", "LogAttrs", "helper", "formatted+panic"}[variant]]++
	v := j.finish(ev, real, "A", func() *jsonhCase {
		return &jsonhCase{addSource: in.addSource, level: in.level, steps: hsteps, msg: in.msg, attrs: seen, t: j.times[0], pc: jsonhPC{line: "0"}}
	})
	if !ok && v.kind == "" {
		j.s.Violate("not-json", "line does not start with "+jsonhTimePrefix+": "+jsonhTrunc(strconv.Quote(string(real))), nil)
	}
}

// runB drives the case through the Handler API with a fixed time and a pooled PC.
func (j *jsonhRunner) runB(in *jsonhInput) {
	r := j.rng
	c := &jsonhCase{addSource: in.addSource, level: in.level, msg: in.msg, t: Pick(r, j.times), pc: Pick(r, j.pcs)}
	if r.Chance(10) {
		c.pc = j.pcs[0] // pc = 0
	}
	for i := range in.steps {
		st := &in.steps[i]
		if st.group {
			if st.name != "" {
				c.steps = append(c.steps, jsonhStep{group: true, name: st.name})
			}
			continue
		}
		c.steps = append(c.steps, jsonhStep{attrs: jsonhAttrsOf(st.gas)})
	}
	if r.Chance(40) {
		c.useArgs = true
		c.args = j.toArgs(in.rec)
		if in.hasLone {
			c.args = append(c.args, in.lone)
		}
	} else {
		c.attrs = jsonhAttrsOf(in.rec)
	}
	ev := j.execB(c, &j.buf, jsonhThreshold(r, in.level), true)
	j.s.Dist["mode:B"]++
	if c.addSource {
		if _, ok := jsonhExpectFile(c.pc.file); !ok {
			j.s.Dist["source-short-path"]++
		}
	}
	j.finish(ev, j.buf.Bytes(), "B", func() *jsonhCase {
		c2 := *c
		c2.attrs, c2.args, c2.useArgs = jsonhSeenAttrs(c.level, c.msg, c.attrs, c.args, c.useArgs), nil, false
		return &c2
	})
}

// finish: writes the three op lines, evaluates the direct oracle, fills the stats.
func (j *jsonhRunner) finish(ev *jsonhEval, real []byte, mode string, mk func() *jsonhCase) jsonhVerdict {
	s := j.s
	j.cases++
	s.Evaluations++
	j.op = ev.appendOp(append(j.op[:0], "line "...))
	lineOp := string(j.op)
	copy(j.op, "tree ")
	treeOp := string(j.op)
	var v jsonhVerdict
	if len(real) == 0 {
		v = jsonhVerdict{kind: "newline", detail: "handler wrote nothing", gotPrint: "invalid:empty", want: ev.expected()}
	} else {
		v = jsonhCheck(ev, real, mode == "A")
	}
	s.Line(lineOp, hx(real))
	s.Line(treeOp, v.gotPrint)
	// third op: the Lean side evaluates the payload contract of the theorems (LeafOk/RecOk) on what
	// the stdlib really produced; the implementation side has nothing to compute: it must hold.
	copy(j.op, "cont ")
	s.Line(string(j.op), "ok")

	if ev.addSource {
		s.Dist["src:1"]++
	} else {
		s.Dist["src:0"]++
	}
	s.Dist["level:"+strconv.Itoa(ev.level)]++
	s.Dist["chain:"+strconv.Itoa(len(ev.chain))]++
	s.Dist["depth:"+strconv.Itoa(ev.maxDepth)]++
	s.Dist["recattrs:"+strconv.Itoa(len(ev.rec))]++
	if ev.rawBadUTF8 {
		s.Dist["raw-invalid-utf8(marshaler output; utf8 check skipped)"]++
	}
	if ev.hasGroup || bytes.IndexByte(real, '\\') >= 0 {
		canon := real
		if len(ev.timeText) > 0 && bytes.HasPrefix(real, []byte(jsonhTimePrefix)) {
			canon = append(append(make([]byte, 0, len(real)), real[:len(jsonhTimePrefix)]...), real[len(jsonhTimePrefix)+len(ev.timeText):]...)
		}
		h := sha1.Sum(canon)
		s.Nontrivial(string(h[:12]))
	}
	if j.cases%997 == 3 {
		s.Sample(map[string]string{"op": jsonhTrunc(lineOp), "real": jsonhTrunc(string(real))})
	}
	if v.kind != "" && len(s.Violations) < 20 {
		rp := &jsonhReplay{Mode: mode, Op: lineOp, RealHex: hx(real), Real: strconv.Quote(string(real)),
			ExpectedTree: string(jsonhPrint(nil, v.want)), GotTree: v.gotPrint}
		if len(s.Violations) < 3 {
			rp.Shrunk = j.shrink(mk())
		}
		s.Violate(v.kind, v.detail, rp)
	}
	return v
}

func (j *jsonhRunner) caseFails(c *jsonhCase) (bool, *jsonhEval, []byte, jsonhVerdict) {
	var buf bytes.Buffer
	ev := j.execB(c, &buf, c.level, false)
	real := append([]byte{}, buf.Bytes()...)
	if len(real) == 0 {
		return true, ev, real, jsonhVerdict{kind: "newline", gotPrint: "invalid:empty", want: ev.expected()}
	}
	v := jsonhCheck(ev, real, false)
	return v.kind != "", ev, real, v
}

func (j *jsonhRunner) shrink(c *jsonhCase) *jsonhReplay {
	if bad, _, _, _ := j.caseFails(c); !bad {
		return nil // does not reproduce through the Handler API with fixed time / pc
	}
	c.steps = ddmin(c.steps, func(st []jsonhStep) bool {
		c2 := *c
		c2.steps = st
		bad, _, _, _ := j.caseFails(&c2)
		return bad
	})
	if len(c.steps) == 1 {
		c2 := *c
		c2.steps = nil
		if bad, _, _, _ := j.caseFails(&c2); bad {
			c.steps = nil
		}
	}
	c.attrs = ddmin(c.attrs, func(as []slog.Attr) bool {
		c2 := *c
		c2.attrs = as
		bad, _, _, _ := j.caseFails(&c2)
		return bad
	})
	if len(c.attrs) == 1 {
		c2 := *c
		c2.attrs = nil
		if bad, _, _, _ := j.caseFails(&c2); bad {
			c.attrs = nil
		}
	}
	_, ev, real, v := j.caseFails(c)
	return &jsonhReplay{Mode: "B", Op: string(ev.appendOp([]byte("line "))), RealHex: hx(real), Real: strconv.Quote(string(real)),
		ExpectedTree: string(jsonhPrint(nil, v.want)), GotTree: v.gotPrint}
}

// =============================================================================================
// PC pool

var jsonhPCSink []uintptr

func jsonhGrab(skip int) {
	pcs := make([]uintptr, 48)
	n := runtime.Callers(skip, pcs)
	jsonhPCSink = append(jsonhPCSink, pcs[:n]...)
}

//go:noinline
func jsonhGrabDeep(n int) {
	if n > 0 {
		jsonhGrabDeep(n - 1)
		return
	}
	jsonhGrab(0)
}

func jsonhCollectPCs() []jsonhPC {
	jsonhPCSink = nil
	jsonhGrab(0)
	jsonhGrab(1)
	jsonhGrabDeep(3)
	func() { jsonhGrab(0); func() { jsonhGrab(2) }() }()
	xs := []int{5, 2, 9, 1, 7, 3}
	grabbed := false
	sort.Slice(xs, func(a, b int) bool { // a PC inside a callback called from the standard library
		if !grabbed {
			grabbed = true
			jsonhGrab(0)
		}
		return xs[a] < xs[b]
	})
	var once sync.Once
	once.Do(func() { jsonhGrab(0) })
	strings.Map(func(r rune) rune { jsonhGrab(1); return r }, "x")
	done := make(chan struct{})
	go func() { jsonhGrab(0); close(done) }()
	<-done
	jsonhPCSink = append(jsonhPCSink, oddPCs()...) // call sites whose file names need escaping (oddpc.go)
	seen := map[uintptr]bool{0: true}
	out := []jsonhPC{{pc: 0}}
	for _, pc := range jsonhPCSink {
		if !seen[pc] {
			seen[pc] = true
			out = append(out, jsonhPC{pc: pc})
		}
	}
	for i := range out {
		f, _ := runtime.CallersFrames([]uintptr{out[i].pc}).Next()
		out[i].file, out[i].line = f.File, strconv.Itoa(f.Line)
	}
	return out
}

// =============================================================================================
// generator

var jsonhWords = []string{"k", "key", "msg", "id", "user", "err", "a", "b", "g", "req", "path", "time", "level", "source", "n", "x1", "Content-Type", "hello world", "tid", "code"}

var jsonhSoup = []string{
	`"`, `\`, "\n", "\r", "\t", "\x00", "\x01", "\x1f", "\x7f", "\xff", "\xc0", "\xed\xa0\x80", " ", " ",
	"\xef\xbf\xbd", "\xe2\x80", "\xf0\x9f\x98", "\xc0\x80", "\xe0\x80\x80", "\xf0\x80\x80\x80", "\xc1\xbf", "\xf4\x90\x80\x80",
	"\xfe", "\x80", "\xbf", "\x08", "\x0c", "\x1b[31m", "a", "Z", " ", "/", "<", ">", "&", "'", "{", "}", ",", ":", "é", "ß", "€", "😀", "\U0010FFFF",
	`\u0000`, `\n`, `\"`, `\u003c`, `\u003e`, `\u0026`, `\\u003c`, `\u2028`, `\/`, "\xe2\x80\xa8\xe2", "\xed\x9f\xbf", "\xee\x80\x80", "\xf0\x90\x80\x80", "\xf8\x88\x80\x80\x80",
}

func (j *jsonhRunner) soup() string {
	r := j.rng
	n := 1 + r.Intn(8)
	var b []byte
	for i := 0; i < n; i++ {
		switch c := r.Intn(100); {
		case c < 70:
			b = append(b, Pick(r, jsonhSoup)...)
		case c < 80:
			b = append(b, byte(r.Intn(0x20)))
		case c < 90:
			b = append(b, byte(r.U64()))
		default:
			b = utf8.AppendRune(b, jsonhScalar(r.Intn(jsonhNumScalars)))
		}
	}
	return string(b)
}

// str: a key / message / string value / group name
func (j *jsonhRunner) str() string {
	r := j.rng
	if r.Intn(4000) == 0 {
		// a value that pushes the pooled line buffer past the 16 KiB pool limit: the NEXT records
		// then run on whatever freeBuffer put back into the pool
		j.s.Dist["str:huge"]++
		return strings.Repeat(Pick(r, jsonhWords)+" ", 1+(17000+r.Intn(30000))/8)
	}
	switch c := r.Intn(100); {
	case c < 38:
		j.s.Dist["str:word"]++
		return Pick(r, jsonhWords)
	case c < 43:
		j.s.Dist["str:empty"]++
		return ""
	case c < 51:
		j.s.Dist["str:1byte"]++
		return string([]byte{byte(r.U64())})
	case c < 57:
		j.s.Dist["str:2byte"]++
		return string([]byte{byte(r.U64()), byte(r.U64())})
	case c < 67:
		j.s.Dist["str:scalar"]++
		var b []byte
		for i, n := 0, 1+r.Intn(3); i < n; i++ {
			b = utf8.AppendRune(b, jsonhScalar(r.Intn(jsonhNumScalars)))
		}
		return string(b)
	default:
		j.s.Dist["str:soup"]++
		return j.soup()
	}
}

func (j *jsonhRunner) nonEmptyStr() string {
	for {
		if s := j.str(); s != "" {
			return s
		}
	}
}

func (j *jsonhRunner) timeVal() time.Time { return Pick(j.rng, j.times) }

var jsonhMarOK = []string{"{\n  \"a\": 1,\n  \"b\": [\n    true\n  ]\n}", "[\r\n1\r\n]", `{"a":1}`, " [1, 2 ,\t{\"x\" : null}]\n ", `"str"`, `null`, `1e5`, `true`, `"  \ud800 <&> \/"`, `{}`, `[]`, `-0.0`, `{"a":{"a":1,"a":2}}`, `"` + " \x7f" + `"`}
var jsonhMarGarbage = []string{`{`, `,,`, "\"\xff", ``, `{"a":}`, `nul`, `[1,]`, `1 2`, "\"\n\"", `}`, `"\x"`, "\x00", `01`}

// raw: a Go value for slog.Any
func (j *jsonhRunner) raw() any {
	r := j.rng
	c := r.Intn(112)
	switch {
	case c >= 100: // plain values are the common case in real logs
		return j.str()
	case c >= 92:
		return int64(r.Intn(2000) - 1000)
	case c >= 88:
		return r.Bool()
	case c >= 84:
		return Pick(r, []float64{1.5, -2.25e-9, 1e20, 123456789.125, 100, 0.1})
	case c >= 80:
		return j.timeVal()
	case c >= 76:
		return time.Duration(r.Intn(1 << 30))
	case c >= 64:
		return errors.New(j.str())
	}
	switch c {
	case 0, 1, 2, 3, 4, 5, 6, 7:
		return j.str()
	case 8:
		return Pick(r, []int64{math.MinInt64, math.MaxInt64, 0, -1, 1, 42, -9007199254740993})
	case 9:
		return Pick(r, []any{int(-7), int8(-128), int16(300), int32(-1 << 31), uint(7), uint8(255), uint16(65535), uint32(1 << 31), uintptr(9)})
	case 10:
		return Pick(r, []uint64{math.MaxUint64, 0, 1 << 63, 18446744073709551614})
	case 11, 12:
		return Pick(r, []float64{0, math.Copysign(0, -1), math.NaN(), math.Inf(1), math.Inf(-1), 1e21, 1e-7, math.MaxFloat64, math.SmallestNonzeroFloat64, 1.5, -2.25e-9, 1e20, 123456789.125, 100})
	case 13:
		return Pick(r, []any{float32(0.1), float32(math.Inf(1)), float32(3)})
	case 14:
		return r.Bool()
	case 15:
		return Pick(r, []time.Duration{0, -1, time.Second, -90 * time.Minute, math.MinInt64, math.MaxInt64, 1500 * time.Millisecond})
	case 16, 17:
		return j.timeVal()
	case 18:
		return errors.New(j.str())
	case 19:
		return fmt.Errorf("wrap %q: %w", j.str(), errors.New(j.str()))
	case 20:
		return []byte(j.str())
	case 21:
		return map[string]any{j.str(): 1, "b": []any{j.str(), nil, 1.5, true}, j.str(): map[string]any{j.str(): j.str()}}
	case 22:
		return map[string]int{j.str(): 1, j.str(): 2, "z": 3}
	case 23:
		return jsonhStruct{A: r.Intn(100) - 50, B: j.str(), C: []float64{1, 2.5}, D: &jsonhStruct{A: 1, By: []byte(j.str())}, E: make(chan int), F: map[string]int{j.str(): 1}, T: j.timeVal(), x: 1}
	case 24:
		return &jsonhStruct{C: []float64{math.NaN()}} // unsupported value inside a struct
	case 25:
		return []any{[]int{1, 2}, []string{j.str()}, [][]any{{nil}, {}}, [2]bool{true, false}, map[int]string{2: "b", 10: "a"}}
	case 26:
		return jsonhMar{out: Pick(r, jsonhMarOK)}
	case 27:
		b, _ := json.Marshal(j.str())
		return jsonhMar{out: string(b)}
	case 28:
		return jsonhMar{err: errors.New(j.str())}
	case 29, 30:
		return jsonhMar{out: Pick(r, jsonhMarGarbage)}
	case 31:
		return jsonhMar{doPanic: true, pan: Pick(r, []any{any("boom"), any(j.str()), any(errors.New("perr " + j.str())), any(42), any(fmt.Errorf("w: %w", io.EOF))})}
	case 32:
		return &jsonhMarP{doPanic: true, pan: j.str()}
	case 33:
		return &jsonhMarP{out: Pick(r, jsonhMarOK)}
	case 34:
		return jsonhMarP{out: "1"} // value of a pointer-receiver Marshaler: not a Marshaler, plain struct
	case 35:
		return jsonhErrMar{msg: j.str(), out: Pick(r, jsonhMarOK)}
	case 36:
		return jsonhErrMar{msg: "e", out: Pick(r, jsonhMarGarbage)}
	case 37, 38:
		return logger.AnsiString{Prefix: Pick(r, []string{ansi.RedFG, ansi.GreenFG, "", "\x1b[1m"}), Value: j.str()}
	case 39:
		return &logger.AnsiString{Prefix: ansi.RedFG, Value: j.str()}
	case 40:
		return nil
	case 41:
		return (*jsonhErr)(nil)
	case 42:
		return &jsonhErr{s: j.str()}
	case 43:
		return (*jsonhMarP)(nil)
	case 44:
		return (*jsonhMar)(nil)
	case 45:
		return jsonhPanicErr{v: Pick(r, []any{any("perr"), any(j.str()), any(errors.New(j.str())), any(3.5)})}
	case 46:
		return jsonhInnerNil{}
	case 47:
		return Pick(r, []any{any(make(chan int)), any(func() {}), any(complex(1, 2)), any(map[string]any{"c": make(chan bool)}), any([]any{func() {}})})
	case 48:
		return Pick(r, []slog.Level{logger.LevelDebug, logger.LevelInfo, logger.LevelWarn, logger.LevelError, logger.LevelFatal, -3, 7})
	case 49:
		return []slog.Attr{slog.Int("x", 1), slog.String(j.str(), j.str())}
	case 50:
		return []slog.Attr{}
	case 51:
		return Pick(r, []any{any(json.Number("12.50")), any(json.Number("1e")), any(json.Number("")), any(json.RawMessage(" { \"r\" : [ ] } ")), any(json.RawMessage("{")), any(json.RawMessage(nil))})
	case 52:
		t := time.Date(10000, 1, 1, 0, 0, 0, 0, time.UTC)
		return Pick(r, []any{any(&t), any(&j.times[0])})
	case 53:
		return Pick(r, []any{any(jsonhTextM{s: j.str()}), any(jsonhTextM{s: j.str(), fail: true}), any(map[jsonhTextM]int{{s: j.str()}: 1}), any(map[jsonhTextM]int{{s: "f", fail: true}: 1})})
	case 54:
		return Pick(r, []slog.Kind{slog.KindGroup, slog.KindString, slog.KindLogValuer})
	case 55:
		return jsonhMar{err: (*jsonhErr)(nil)} // Marshaler returning a typed-nil error: Unwrap().Error() panics
	case 56:
		return jsonhMar{err: jsonhPanicErr{v: "in-err"}}
	case 57:
		return Pick(r, []any{any(new(int)), any(&[]string{"p"}), any(struct{}{}), any(struct{ X, y int }{1, 2}), any([]jsonhMar{{out: "1"}, {out: " 2 "}})})
	case 58:
		return map[string]any{"m": jsonhMar{err: errors.New(j.str())}}
	case 59:
		return []any{jsonhMar{doPanic: true, pan: "nested"}}
	case 60:
		return jsonhMar{out: "\"\xff\""} // accepted by encoding/json: invalid UTF-8 inside a raw payload
	default:
		return int64(r.Intn(2000) - 1000)
	}
}

// wrapLV wraps a slog.Value in a chain of 1..3 pure LogValuers.
func (j *jsonhRunner) wrapLV(v slog.Value) any {
	r := j.rng
	n := 1 + r.Intn(3)
	var cur any
	for i := 0; i < n; i++ {
		if r.Chance(25) {
			cur = &jsonhLVp{v: v}
		} else {
			cur = jsonhLV{v: v}
		}
		v = slog.AnyValue(cur)
	}
	return cur
}

// emptyish: an attribute that must contribute no member (empty inline group, inline groups that
// contain only such groups).
func (j *jsonhRunner) emptyish(depth int) jsonhGA {
	r := j.rng
	if r.Chance(30) {
		// directly empty: survives only at the top level of With / WithAttrs
		return jsonhGAttr(slog.Attr{Key: "", Value: slog.GroupValue()})
	}
	var kids []slog.Attr
	if depth < 4 {
		for i, n := 0, r.Intn(3); i < n; i++ {
			kids = append(kids, j.emptyish(depth+1).a)
		}
	}
	return jsonhGLeaf("", j.wrapLV(slog.GroupValue(kids...)))
}

func (j *jsonhRunner) genAttr(depth int) jsonhGA {
	r := j.rng
	c := r.Intn(100)
	switch {
	case c < 9:
		return j.emptyish(depth)
	case c < 36 && depth < 4:
		return j.genGroup(depth)
	}
	key := j.str()
	raw := j.raw()
	if r.Chance(15) {
		raw = j.wrapLV(slog.AnyValue(raw))
	}
	return jsonhGLeaf(key, raw)
}

func (j *jsonhRunner) genGroup(depth int) jsonhGA {
	r := j.rng
	key := ""
	if r.Chance(65) {
		key = j.nonEmptyStr()
	}
	n := r.Intn(5)
	if r.Chance(15) {
		n = 0
	}
	members := make([]slog.Attr, 0, n)
	for i := 0; i < n; i++ {
		members = append(members, j.genAttr(depth+1).a)
	}
	route := r.Intn(6)
	if n == 0 && r.Chance(60) {
		route = 3 + r.Intn(2) // through a LogValuer, the only way an empty group survives below the top level
	}
	switch route {
	case 0:
		return jsonhGA{a: slog.Attr{Key: key, Value: slog.GroupValue(members...)}, raw: members, hasRaw: true}
	case 1:
		args := make([]any, len(members))
		for i := range members {
			args[i] = members[i]
		}
		return jsonhGAttr(slog.Group(key, args...))
	case 2:
		return jsonhGLeaf(key, members)
	default:
		return jsonhGLeaf(key, j.wrapLV(slog.GroupValue(members...)))
	}
}

func (j *jsonhRunner) genAttrs(max int) []jsonhGA {
	n := j.rng.Intn(max + 1)
	out := make([]jsonhGA, 0, n)
	for i := 0; i < n; i++ {
		out = append(out, j.genAttr(1))
	}
	return out
}

var jsonhLevels = []slog.Level{logger.LevelDebug, logger.LevelInfo, logger.LevelWarn, logger.LevelError, logger.LevelFatal}

func (j *jsonhRunner) genInput() *jsonhInput {
	r := j.rng
	in := &jsonhInput{addSource: r.Bool(), level: Pick(r, jsonhLevels), msg: j.str()}
	nsteps := r.Intn(6)
	if r.Chance(25) {
		nsteps = 0
	} else if r.Chance(6) {
		nsteps = 7 + r.Intn(10) // deep chains: many open groups / long preformatted prefixes
	}
	for i := 0; i < nsteps; i++ {
		switch c := r.Intn(100); {
		case c < 35:
			in.steps = append(in.steps, jsonhGStep{group: true, name: j.nonEmptyStr()})
		case c < 39:
			in.steps = append(in.steps, jsonhGStep{group: true, name: ""}) // Logger.WithGroup(""): no-op
		case c < 43:
			in.steps = append(in.steps, jsonhGStep{}) // With(): no-op
		default:
			gas := j.genAttrs(3)
			if len(gas) == 0 {
				gas = append(gas, j.genAttr(1))
			}
			if r.Chance(25) { // empty groups first / in the middle / last
				e := j.emptyish(1)
				p := r.Intn(len(gas) + 1)
				gas = append(gas[:p], append([]jsonhGA{e}, gas[p:]...)...)
				if r.Chance(40) {
					gas = append(gas[:p], append([]jsonhGA{j.emptyish(1)}, gas[p:]...)...)
				}
			}
			if r.Chance(8) {
				gas = append(gas, jsonhGAttr(slog.Attr{Key: j.nonEmptyStr(), Value: slog.GroupValue()})) // empty keyed group
			}
			in.steps = append(in.steps, jsonhGStep{gas: gas})
		}
	}
	in.rec = j.genAttrs(4)
	if r.Chance(5) {
		in.hasLone, in.lone = true, Pick(r, []any{any(42), any("lonely"), any(errors.New("lone")), any(nil), any(3.5)})
	}
	return in
}

func (j *jsonhRunner) run(in *jsonhInput) {
	if j.rng.Bool() {
		j.runA(in)
	} else {
		j.runB(in)
	}
}

// ---- regression corpus ------------------------------------------------------------------------

func jsonhCorpus(times []time.Time) []*jsonhInput {
	lvEmpty := func() slog.Attr { return slog.Any("", jsonhLV{slog.GroupValue()}) }
	direct := slog.Attr{Key: "", Value: slog.GroupValue()}
	cyc := &jsonhCyclic{}
	cyc.Next = cyc
	t10k := time.Date(10000, 1, 1, 0, 0, 0, 0, time.UTC)
	I := func(src bool, lvl slog.Level, msg string, steps []jsonhGStep, rec ...jsonhGA) *jsonhInput {
		return &jsonhInput{addSource: src, level: lvl, msg: msg, steps: steps, rec: rec}
	}
	A := func(gas ...jsonhGA) jsonhGStep { return jsonhGStep{gas: gas} }
	W := func(n string) jsonhGStep { return jsonhGStep{group: true, name: n} }
	S := func(st ...jsonhGStep) []jsonhGStep { return st }
	return []*jsonhInput{
		// F-series regression: With(empty inline group) then ("k",1)
		I(false, 4, "m", S(A(jsonhGAttr(direct))), jsonhGLeaf("k", 1)),
		// LogValuer -> empty inline group between two attrs inside a keyed group
		I(true, 4, "m", nil, jsonhGAttr(slog.Group("g", slog.Int("a", 1), lvEmpty(), slog.Int("b", 2)))),
		// WithGroup, then empty inline group, then attr
		I(false, 8, "m", S(W("g"), A(jsonhGAttr(direct)), A(jsonhGLeaf("k", 1))), jsonhGLeaf("x", "y")),
		I(false, 8, "m", S(W("g"), A(jsonhGAttr(direct), jsonhGLeaf("k", 1)))),
		I(false, 8, "m", S(W("g"), A(jsonhGAttr(direct))), jsonhGLeaf("k", 1)),
		I(true, 0, "\xff\"\n", nil, jsonhGLeaf("\xff\"\n", "\xff\"\n")),
		I(false, 12, "typed nil", nil, jsonhGLeaf("err", (*jsonhErr)(nil)), jsonhGLeaf("after", 1)),
		I(false, 12, "garbage", nil, jsonhGLeaf("a", jsonhMar{out: "{"}), jsonhGLeaf("b", jsonhMar{out: ",,"}), jsonhGLeaf("c", jsonhMar{out: "\"\xff"}), jsonhGLeaf("d", jsonhMar{out: ""}), jsonhGLeaf("e", 1)),
		I(false, 16, "nan", nil, jsonhGLeaf("f", math.NaN()), jsonhGLeaf("g", math.Inf(-1)), jsonhGLeaf("h", math.Copysign(0, -1))),
		// empty inline groups first / middle / last in With attrs
		I(false, 4, "m", S(A(jsonhGAttr(direct), jsonhGLeaf("a", 1), jsonhGAttr(direct), jsonhGAttr(lvEmpty()), jsonhGLeaf("b", 2), jsonhGAttr(direct))), jsonhGLeaf("c", 3)),
		I(false, 4, "m", S(A(jsonhGAttr(slog.Attr{Key: "eg", Value: slog.GroupValue()}))), jsonhGLeaf("c", 3)),
		I(false, 4, "m", S(A(jsonhGAttr(slog.Attr{Key: "eg", Value: slog.GroupValue()}), jsonhGAttr(direct)), W("w"), A(jsonhGAttr(slog.Attr{Key: "eg2", Value: slog.GroupValue()})))),
		// inline groups containing only empty inline groups, several in a row, then a leaf
		I(false, 4, "m", nil, jsonhGLeaf("", jsonhLV{slog.GroupValue(lvEmpty(), lvEmpty())}), jsonhGAttr(lvEmpty()), jsonhGLeaf("", jsonhLV{slog.GroupValue(slog.Any("", jsonhLV{slog.GroupValue(lvEmpty())}))}), jsonhGLeaf("k", 1), jsonhGAttr(lvEmpty())),
		I(false, 4, "m", S(A(jsonhGLeaf("w", 1))), jsonhGAttr(lvEmpty()), jsonhGAttr(lvEmpty())),
		I(true, 4, "open groups only", S(W("a"), W("b"), W("c"))),
		I(true, 4, "open groups + empties", S(W("a"), A(jsonhGAttr(direct)), W("b"), A(jsonhGAttr(lvEmpty())), W("c")), jsonhGAttr(lvEmpty())),
		I(false, 4, "keyed empty via LV in group", nil, jsonhGAttr(slog.Group("g", slog.Any("e", jsonhLV{slog.GroupValue()}), slog.Any("", jsonhLV{slog.GroupValue()}), slog.Any("f", jsonhLV{slog.GroupValue()})))),
		I(false, 12, "panics", nil, jsonhGLeaf("a", jsonhMar{doPanic: true, pan: "boom"}), jsonhGLeaf("b", &jsonhMarP{doPanic: true, pan: errors.New("pe\xff")}), jsonhGLeaf("c", jsonhPanicErr{v: "x\n"}), jsonhGLeaf("d", jsonhInnerNil{}), jsonhGLeaf("e", 1)),
		I(false, 12, "cycle", nil, jsonhGLeaf("cyc", cyc), jsonhGLeaf("after", true)),
		I(false, 4, "ansi", S(A(jsonhGLeaf("as", logger.AnsiString{Prefix: ansi.RedFG, Value: "v\x1b\"\xff"}))), jsonhGLeaf("as", logger.AnsiString{Value: ""})),
		I(false, 4, "zero attr", S(A(jsonhGAttr(slog.Attr{}))), jsonhGAttr(slog.Attr{}), jsonhGLeaf("", nil)),
		I(false, 4, "lv chain", nil, jsonhGLeaf("\xc0k", jsonhLV{slog.AnyValue(&jsonhLVp{slog.AnyValue(jsonhLV{slog.GroupValue(slog.String("\xed\xa0\x80", " "))})})})),
		I(false, 4, "raw invalid utf8", nil, jsonhGLeaf("m", jsonhMar{out: "\"\xff\""})),
		I(false, 4, "time out of range", nil, jsonhGLeaf("t", &t10k), jsonhGLeaf("t2", t10k), jsonhGLeaf("t3", times[2])),
		I(true, 0, "", nil, jsonhGLeaf("", "")),
		I(false, 4, "err from marshaler", nil, jsonhGLeaf("a", jsonhMar{err: (*jsonhErr)(nil)}), jsonhGLeaf("b", jsonhMar{err: jsonhPanicErr{v: 1}}), jsonhGLeaf("c", jsonhMar{err: errors.New("\xff\"\n")})),
		I(false, 4, "dup keys", S(A(jsonhGLeaf("k", 1), jsonhGLeaf("k", 2)), W("k"), A(jsonhGLeaf("k", 3))), jsonhGLeaf("k", 4), jsonhGAttr(slog.Group("k", slog.Int("k", 5), slog.Int("k", 6))), jsonhGLeaf("time", "t"), jsonhGLeaf("msg", "x")),
		I(true, 16, "mixed", S(A(jsonhGLeaf("b", []byte("\x00\xff")), jsonhGLeaf("m", map[string]int{"\xff": 1, "\"": 2})), W(" "), A(jsonhGLeaf("lvl", slog.LevelWarn))), jsonhGLeaf("n", nil), jsonhGLeaf("u", uint64(math.MaxUint64)), jsonhGLeaf("d", time.Duration(math.MinInt64)), jsonhGLeaf("ch", make(chan int)), jsonhGLeaf("em", jsonhErrMar{msg: "e", out: " [ ] "})),
		{addSource: true, level: 4, msg: "badkey", rec: []jsonhGA{jsonhGLeaf("a", 1)}, lone: 42, hasLone: true},
		{addSource: false, level: 4, msg: "badkey2", rec: nil, lone: "lonely", hasLone: true},
	}
}

// ---- the stream --------------------------------------------------------------------------------

func jsonhRunJson(cfg Cfg) {
	s := NewStream(cfg.Out, "json")
	defer s.Close()
	s.Rule = "distinct output lines whose tree has at least one group or one escaped byte"
	s.Exhaustive = cfg.Thorough()
	s.Notes = []string{
		"every case = two op lines (line: bytes written; tree: ordered token-walk decoding of those bytes)",
		"model input and expected tree are computed by walking the constructed slog values like the handler (Resolve, group/leaf), stdlib results (strconv, time.AppendFormat, encoding/json, Error()) are payloads",
		"excluded: LogValuers that panic (slog turns them into an error text with a stack trace)",
		"excluded: Logger.Fatal/Fatalf (exit after logging); level FATAL is reached through Log/Logf/LogAttrs; Panic/Panicf are called and recovered",
		"excluded: Handler.WithGroup(\"\") through the Handler API (Logger.WithGroup filters the empty name; driven only as the Logger no-op)",
		"source-short-path: frame files with fewer than two directory components (pc = 0 gives file \"\"): source.file is not asserted by the oracle (still compared with the model)",
		"a json.Marshaler that returns well-formed JSON containing invalid UTF-8 inside a string passes through encoding/json unchanged: for those cases the oracle skips only its whole-line UTF-8 check",
		"mode A: the time text is cut out of the real line (time.Now inside the logger) and checked with time.Parse(RFC3339Nano); the source line is that of the harness call site",
		"exhaustive: all 1-byte strings in 6 positions (quick+thorough); thorough: all 2-byte strings, every Unicode scalar (3 per record, positions rotated by seed)",
	}
	// One PRNG seeded from the seed argument. NewRng(k) and NewRng(k+1) are the same splitmix64 stream
	// shifted by one draw (state = seed*golden + c, step = +golden), so consecutive seeds would
	// re-synchronise after a few cases; Fork() re-seeds from a mixed output and decorrelates them.
	j := &jsonhRunner{s: s, rng: NewRng(cfg.Seed).Fork(), ctx: context.Background()}
	j.pcs = jsonhCollectPCs()
	j.times = []time.Time{
		time.Date(2023, 8, 16, 0, 35, 15, 208873091, time.FixedZone("", 8*3600)),
		time.Date(1, 1, 1, 0, 0, 0, 0, time.UTC),
		time.Date(9999, 12, 31, 23, 59, 59, 999999999, time.UTC),
		time.Unix(0, 0).UTC(),
		time.Date(2024, 2, 29, 12, 0, 0, 1000, time.FixedZone("x", -(5*3600+1800))),
		time.Date(1969, 7, 20, 20, 17, 40, 500000000, time.FixedZone("far", 14*3600)),
		{},
		time.Date(2038, 1, 19, 3, 14, 8, 120, time.FixedZone("s", 3723)),
		time.Date(1600, 6, 1, 1, 2, 3, 999, time.FixedZone("neg", -12*3600)),
	}
	// one instant (and its neighbours within the same second) seen from several zones: anything keyed
	// by the Unix second or by the wall-clock text alone confuses these
	same := time.Date(2025, 3, 9, 23, 59, 59, 123456789, time.UTC)
	for _, z := range []*time.Location{time.UTC, time.FixedZone("", 8*3600), time.FixedZone("", -(5*3600 + 1800)), time.FixedZone("", 14*3600)} {
		j.times = append(j.times, same.In(z), same.Add(700*time.Millisecond).In(z))
	}

	// 1. regression corpus, each case through both APIs
	for _, in := range jsonhCorpus(j.times) {
		j.runA(in)
		j.runB(in)
	}

	// 2. exhaustive: all 1-byte strings in every string position
	for b := 0; b < 256; b++ {
		x := string([]byte{byte(b)})
		lvl := jsonhLevels[b%5]
		src := b%2 == 0
		cases := []*jsonhInput{
			{addSource: src, level: lvl, msg: x},
			{addSource: src, level: lvl, msg: "m", rec: []jsonhGA{jsonhGLeaf(x, 1)}},
			{addSource: src, level: lvl, msg: "m", rec: []jsonhGA{jsonhGLeaf("k", x)}},
			{addSource: src, level: lvl, msg: "m", steps: []jsonhGStep{{group: true, name: x}}, rec: []jsonhGA{jsonhGLeaf("k", 1)}},
			{addSource: src, level: lvl, msg: "m", steps: []jsonhGStep{{gas: []jsonhGA{jsonhGLeaf(x, x)}}}},
			{addSource: src, level: lvl, msg: "m", rec: []jsonhGA{jsonhGAttr(slog.Group(x, slog.Int("k", 1)))}},
			{addSource: src, level: lvl, msg: x, steps: []jsonhGStep{{gas: []jsonhGA{jsonhGLeaf(x, x)}}, {group: true, name: x}}, rec: []jsonhGA{jsonhGAttr(slog.Group(x, slog.String(x, x))), jsonhGLeaf(x, errors.New(x))}},
		}
		for _, in := range cases {
			s.Dist["str:1byte"]++
			j.run(in)
		}
	}

	if cfg.Thorough() {
		// 3. all 2-byte strings: msg, key and value of one record each
		for i := 0; i < 65536; i++ {
			x := string([]byte{byte(i >> 8), byte(i)})
			s.Dist["str:2byte"] += 3
			j.runPlaced(i, x, x, x)
		}
		// 4. every Unicode scalar value, three per record, positions rotated by the seed
		rot := int(cfg.Seed % 3)
		var u [3]string
		for i := 0; i < jsonhNumScalars; i += 3 {
			for k := 0; k < 3; k++ {
				u[(k+rot)%3] = string(jsonhScalar(i + k))
			}
			s.Dist["str:scalar"] += 3
			j.runPlaced(i/3, u[0], u[1], u[2])
		}
	}

	// 5. random trees
	n := cfg.N(28000, 200000)
	for i := 0; i < n; i++ {
		j.run(j.genInput())
	}
	s.Traces = s.Lines
}

// runPlaced: msg / key / value in one record; where the key and value sit rotates with i.
func (j *jsonhRunner) runPlaced(i int, msg, key, val string) {
	in := &jsonhInput{level: jsonhLevels[i%5], msg: msg}
	switch i % 4 {
	case 0:
		in.rec = []jsonhGA{jsonhGLeaf(key, val)}
	case 1:
		in.steps = []jsonhGStep{{gas: []jsonhGA{jsonhGLeaf(key, val)}}}
	case 2:
		in.steps = []jsonhGStep{{group: true, name: key}}
		in.rec = []jsonhGA{jsonhGLeaf("v", val)}
	default:
		in.rec = []jsonhGA{jsonhGAttr(slog.Group(key, slog.String("v", val)))}
	}
	// Handler API with the zero time keeps these 4*10^5 lines short; every 8th through the Logger
	if i%8 == 5 {
		j.runA(in)
		return
	}
	c := &jsonhCase{level: in.level, msg: msg, t: j.times[1], pc: j.pcs[0]}
	for k := range in.steps {
		c.steps = append(c.steps, jsonhStep{group: in.steps[k].group, name: in.steps[k].name, attrs: jsonhAttrsOf(in.steps[k].gas)})
	}
	c.attrs = jsonhAttrsOf(in.rec)
	ev := j.execB(c, &j.buf, 0, true)
	j.s.Dist["mode:B"]++
	j.finish(ev, j.buf.Bytes(), "B", func() *jsonhCase { c2 := *c; return &c2 })
}
